"""C28: URDF keeps link names and joint names in separate name spaces; a joint may carry the name of a link."""
import os, tempfile, warnings, numpy as np
warnings.filterwarnings("ignore")
from cardillo.urdf import system_from_urdf
L = '<link name="{n}"><inertial><origin xyz="0.1 0 0"/><mass value="1"/><inertia ixx="1" iyy="1" izz="1" ixy="0" ixz="0" iyz="0"/></inertial></link>'
J = '<joint name="{n}" type="revolute"><parent link="{p}"/><child link="{c}"/><origin xyz="0.3 0 0"/><axis xyz="0 0 1"/><limit lower="-1" upper="1" effort="1" velocity="1"/></joint>'
def urdf(jn1):
    return '<?xml version="1.0"?><robot name="r">' + L.format(n="base") + L.format(n="A") + L.format(n="B") + J.format(n=jn1, p="base", c="A") + J.format(n="jB", p="A", c="B") + "</robot>"
res = {}
for label, jn in (("distinct", "jA"), ("joint named like a link", "B")):
    with tempfile.TemporaryDirectory() as d:
        p = os.path.join(d, "r.urdf"); open(p, "w").write(urdf(jn))
        try:
            s = system_from_urdf(p, configuration={jn: 0.2, "jB": -0.4})
            res[label] = s.q0.copy()
        except Exception as e:
            res[label] = f"{type(e).__name__}: {str(e)[:90]}"
    print(label, "->", "imported" if isinstance(res[label], np.ndarray) else res[label])
ok = all(isinstance(v, np.ndarray) for v in res.values()) and np.allclose(res["distinct"], res["joint named like a link"])
raise SystemExit(0 if ok else 1)
