"""C14: an actuator copies its subsystem's DOF tables; after a re-ordering of the contributions (joint re-added behind its controller) and a
re-assembly the controller must still act on the joint's coordinates."""
import numpy as np, warnings
warnings.filterwarnings("ignore")
from cardillo import System
from cardillo.discrete import RigidBody, PointMass
from cardillo.constraints import Revolute
from cardillo.actuators import PDcontroller

s = System()
pm = PointMass(1.0, q0=np.array([5.0, 0, 0]), name="pm")
body = RigidBody(1.0, np.eye(3), q0=np.array([1.0, 0, 0, 1, 0, 0, 0]), name="body")
joint = Revolute(s.origin, body, axis=2, name="joint")
ctrl = PDcontroller(joint, 1.0, 0.1, np.array([0.0, 0.0]))
ctrl.name = "ctrl"
body2 = RigidBody(1.0, np.eye(3), q0=np.array([3.0, 0, 0, 1, 0, 0, 0]), name="body2")
joint2 = Revolute(body, body2, axis=2, r_OJ0=np.array([2.0, 0, 0]), name="joint2")
s.add(pm, body, joint, ctrl, body2, joint2)
s.assemble()
s.remove(pm)
s.remove(joint)
s.add(joint)
s.assemble()
print("joint.qDOF", joint.qDOF, "controller.qDOF", ctrl.qDOF)
ok = np.array_equal(joint.qDOF, ctrl.qDOF) and np.array_equal(joint.uDOF, ctrl.uDOF)
print("OK" if ok else "controller acts on coordinates that are not its joint's")
raise SystemExit(0 if ok else 1)
