"""C16: friction laws with a constant force reservoir (friction_laws entry with i_N == [], as in examples/friction_belt)
are left out of the consistent initial conditions when no normal contact is closed."""
import numpy as np
from cardillo import System
from cardillo.math.prox import Sphere


class Block:
    """1-DOF block, mass 1, constant push force 2, dry friction with constant reservoir 5 acting on its velocity."""
    def __init__(self, u0):
        self.nq = self.nu = 1
        self.q0 = np.zeros(1)
        self.u0 = np.array([u0], dtype=float)
        self.friction_laws = [([], [0], Sphere(5.0))]
        self.nla_F = 1
        self.e_F = np.zeros(1)

    def q_dot(self, t, q, u): return u
    def q_dot_u(self, t, q): return np.eye(1)
    def M(self, t, q): return np.eye(1)
    def h(self, t, q, u): return np.array([2.0])
    def gamma_F(self, t, q, u): return u.copy()
    def gamma_F_u(self, t, q): return np.eye(1)
    def gamma_F_dot(self, t, q, u, u_dot): return u_dot.copy()
    def W_F(self, t, q): return np.eye(1)
    def Wla_F_q(self, t, q, la_F): return np.zeros((1, 1))

bad = 0
for u0, want_udot, want_laF in [(0.0, 0.0, -2.0), (1.0, -3.0, -5.0)]:
    system = System()
    system.add(Block(u0))
    system.assemble()
    print(f"u0={u0}: u_dot0={system.u_dot0}, la_F0={system.la_F0}  (Coulomb: u_dot0={want_udot}, la_F0={want_laF})")
    bad += not (np.allclose(system.u_dot0, want_udot, atol=1e-6) and np.allclose(system.la_F0, want_laF, atol=1e-6))
raise SystemExit(1 if bad else 0)
