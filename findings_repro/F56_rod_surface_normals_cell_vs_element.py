import numpy as np, tempfile, vtk
from pathlib import Path
from cardillo import System
from cardillo.rods import CircularCrossSection, Simo1986, CrossSectionInertias
from cardillo.rods.cosseratRod import make_CosseratRod
from cardillo.solver import Solution
from cardillo.visualization import Export
from cardillo.math import Log_SO3_quat, A_IB_basic

Rod = make_CosseratRod(interpolation="Quaternion", mixed=False, polynomial_degree=1)
cs = CircularCrossSection(0.1)
mat = Simo1986(np.array([5,1,1.]), np.array([0.5,2,2.]))
nel = 4
q0 = Rod.straight_configuration(nel, 1.0)
rod = Rod(cs, mat, nel, Q=q0, q0=q0, cross_section_inertias=CrossSectionInertias(1.0, cs), name="rod")
rod._export_dict["surface_normals"] = True
rod._export_dict["ncells"] = 2
system = System(); system.add(rod); system.assemble()
# bent configuration: quarter circle in x-z... build by hand
nn = nel + 1
q = system.q0.copy()
R = 2/np.pi
for k in range(nn):
    a = (np.pi/2) * k/(nn-1)
    q[rod.nodalDOF_r[k]] = [R*np.sin(a), 0, R*(1-np.cos(a))]
    q[rod.nodalDOF_p[k]] = Log_SO3_quat(A_IB_basic(-a).y)
nt = 2
sol = Solution(system, np.linspace(0,1,nt), np.tile(q,(nt,1)), np.zeros((nt,system.nu)), la_c=np.zeros((nt,0)), la_g=np.zeros((nt,0)))
tmp = Path(tempfile.mkdtemp())
e = Export(tmp, "vtk", True, 10, sol)
e.export_contr(rod)
rd = vtk.vtkXMLUnstructuredGridReader(); rd.SetFileName(str(e.path/"rod_0.vtu")); rd.Update()
g = rd.GetOutput()
arr = g.GetPointData().GetArray("surface_normal")
ppl = cs.vtk_points_per_layer
ncells = 2
worst = 0
idx = ppl  # after cap
for i in range(ncells):
    for layer in range(4):
        xi = (i + layer/3)/ncells
        el = rod.element_number(min(max(xi + (1e-9 if layer < 3 else -1e-9), 0), 1))
        for p in range(ppl):
            n_ref = rod.surface_normal(q, xi, cs.point_etas[p], el)
            n_w = np.array(arr.GetTuple(idx)); idx += 1
            worst = max(worst, np.abs(n_ref - n_w).max())
print("max deviation written surface normal vs normal evaluated in the element containing xi:", worst)
