import warnings, numpy as np
warnings.filterwarnings("ignore")
from cardillo import System
from cardillo.discrete import PointMass
from cardillo.contacts import Sphere2Sphere
from cardillo.solver import Moreau, Rattle, BackwardEuler, DualStormerVerlet, SolverOptions

def scene(e_N, dt, v=4.0, off=0.15):
    system = System()
    r1, r2 = 0.1, 0.1
    a = PointMass(1.0, q0=np.array([0.0, 0, 0]), u0=np.array([0.0, 0, 0]), name="a")
    b = PointMass(1.0, q0=np.array([-0.5, off, 0]), u0=np.array([v, 0, 0]), name="b")
    c = Sphere2Sphere(a, b, r1, r2, mu=0, e_N=e_N, name="c")
    system.add(a, b, c)
    system.assemble()
    return system

for S in [Moreau, Rattle, BackwardEuler, DualStormerVerlet]:
    for dt in [1e-2, 5e-3]:
        system = scene(1.0, dt)
        sol = S(system, 0.3, dt).solve()
        E = np.array([system.E_kin(t, q, u) for t, q, u in zip(sol.t, sol.q, sol.u)])
        gN = np.array([system.g_N(t, q) for t, q in zip(sol.t, sol.q)])
        print(S.__name__, dt, "E0", E[0], "Eend", E[-1], "maxE", E.max(), "min gN", gN.min(), "sum P_N", sol.P_N.sum())
