"""C24: a state reached by a fixed-step solver with DEFAULT tolerances is refused as new initial state (consistency asserts at 1e-8)."""
import numpy as np, warnings
warnings.filterwarnings("ignore")
from cardillo import System
from cardillo.discrete import RigidBody
from cardillo.constraints import Revolute
from cardillo.forces import Force
from cardillo.solver import Rattle, Moreau, BackwardEuler, ScipyIVP

def build():
    system = System()
    body = RigidBody(1.0, np.diag([1.0, 2.0, 3.0]), q0=np.array([1.0, 0, 0, 1, 0, 0, 0]), u0=np.array([0, 0.5, 0, 0, 0, 0.5]), name="b")
    joint = Revolute(system.origin, body, axis=2, name="j")
    system.add(body, joint, Force(np.array([0, -9.81, 0]), body, name="g"))
    system.assemble()
    return system
bad = 0
for S in (Rattle, Moreau, BackwardEuler, ScipyIVP):
    system = build()
    sol = S(system, 0.2, 1e-2).solve()
    k = len(sol.t) // 2
    copy = system.deepcopy()
    try:
        copy.set_new_initial_state(sol.q[k], sol.u[k], t0=sol.t[k])
        print(f"{S.__name__}: restart at step {k} accepted, |g| = {np.abs(system.g(sol.t[k], sol.q[k])).max():.1e}")
    except AssertionError as e:
        bad += 1
        print(f"{S.__name__}: restart at step {k} REFUSED ({e}); |g| = {np.abs(system.g(sol.t[k], sol.q[k])).max():.1e}, |g_dot| = {np.abs(system.g_dot(sol.t[k], sol.q[k], sol.u[k])).max():.1e}")
raise SystemExit(1 if bad else 0)
