"""C18: Rattle, ball with restitution settling on a floor: P_N > 0 must be complementary to xi_N = g_N_dot(+) + e_N g_N_dot(-)."""
import numpy as np, warnings
warnings.filterwarnings("ignore")
from cardillo import System
from cardillo.discrete import PointMass
from cardillo.contacts import Sphere2Plane
from cardillo.forces import Force
from cardillo.solver import Rattle, SolverOptions
system = System()
ball = PointMass(1.0, q0=np.array([0, 0, 0.1]), u0=np.array([0, 0, 0.02]), name="ball")
system.add(ball, Force(np.array([0, 0, -9.81]), ball, name="g"))
system.add(Sphere2Plane(system.origin, ball, mu=0, e_N=0.5, r=0.1, name="c"))
system.assemble()
sol = Rattle(system, 0.1, 1e-2).solve()
bad = 0
for k in range(1, len(sol.t)):
    pre = system.g_N_dot(sol.t[k-1], sol.q[k-1], sol.u[k-1])[0]
    post = system.g_N_dot(sol.t[k], sol.q[k], sol.u[k])[0]
    xi = post + 0.5 * pre
    P = sol.P_N[k][0]
    flag = P > 1e-10 and abs(xi) > 1e-8
    bad += flag
    print(f"step {k}: u_z={sol.u[k][2]:+.5f} P_N={P:.4f} xi_N={xi:+.5f} {'VIOLATED' if flag else ''}")
raise SystemExit(1 if bad else 0)
