"""C28: a revolute / prismatic / planar joint without an <axis> element is valid URDF (the axis defaults to 1 0 0)."""
import os, tempfile, warnings, numpy as np
warnings.filterwarnings("ignore")
from cardillo.urdf import system_from_urdf
URDF = """<?xml version="1.0"?>
<robot name="r">
  <link name="base"><inertial><origin xyz="0 0 0"/><mass value="1"/><inertia ixx="1" iyy="1" izz="1" ixy="0" ixz="0" iyz="0"/></inertial></link>
  <link name="arm"><inertial><origin xyz="0.1 0 0"/><mass value="1"/><inertia ixx="1" iyy="1" izz="1" ixy="0" ixz="0" iyz="0"/></inertial></link>
  <joint name="j" type="{typ}"><parent link="base"/><child link="arm"/><origin xyz="0.2 0.1 0" rpy="0.1 0.2 0.3"/>{axis}<limit lower="-1" upper="1" effort="1" velocity="1"/></joint>
</robot>"""
bad = 0
for typ, cfg in (("revolute", 0.3), ("prismatic", 0.3), ("planar", [0.3, -0.2])):
    res = {}
    for label, axis in (("default", ""), ("explicit", '<axis xyz="1 0 0"/>')):
        with tempfile.TemporaryDirectory() as d:
            p = os.path.join(d, "r.urdf")
            open(p, "w").write(URDF.format(typ=typ, axis=axis))
            try:
                system = system_from_urdf(p, configuration={"j": cfg})
                res[label] = system.q0.copy()
            except Exception as e:
                res[label] = f"{type(e).__name__}: {str(e)[:80]}"
    same = isinstance(res["default"], np.ndarray) and isinstance(res["explicit"], np.ndarray) and np.allclose(res["default"], res["explicit"])
    print(typ, "ok" if same else f"MISMATCH default-axis import: {res['default'] if isinstance(res['default'], str) else 'differs'}")
    bad += not same
raise SystemExit(1 if bad else 0)
