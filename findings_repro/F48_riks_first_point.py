"""C23: every point returned by Riks is an equilibrium - also the first one, for a system that is not in equilibrium at zero load."""
import sys, warnings, numpy as np
warnings.filterwarnings("ignore")
sys.path.insert(0, "/repo/test")
from test_riks import Truss2D
from cardillo import System
from cardillo.solver import Riks
truss = Truss2D(lambda t: t + 0.1, 1.0, np.pi / 4, 1.0)
system = System()
system.add(truss)
system.assemble()
sol = Riks(system, la_arc_span=[0, 0.05], la_arc0=1e-3).solve()
res = [np.abs(system.h(t, q, np.zeros(system.nu))).max() for t, q in zip(sol.t, sol.q)]
print("points", len(res), "first residual", res[0], "max of the others", max(res[1:]))
raise SystemExit(1 if res[0] > 1e-6 else 0)
