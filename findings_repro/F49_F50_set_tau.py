import numpy as np, warnings
warnings.filterwarnings("ignore")
from cardillo import System
from cardillo.discrete import RigidBody
from cardillo.constraints import Revolute
from cardillo.actuators import Motor
def build(n):
    system = System()
    prev = system.origin
    motors=[]
    for k in range(n):
        q0 = np.array([k+1.0,0,0,1,0,0,0])
        b = RigidBody(1.0, np.eye(3), q0=q0, name=f"b{k}")
        j = Revolute(prev, b, axis=2, r_OJ0=np.array([k+0.5,0,0]), name=f"j{k}")
        m = Motor(j, lambda t: 0.0); m.name=f"m{k}"
        system.add(b, j, m); motors.append(m); prev=b
    system.assemble()
    return system, motors
for n in (1,2):
    system, motors = build(n)
    tau = np.arange(1, n+1)*10.0
    system.set_tau(lambda t: tau)
    t,q,u = system.t0, system.q0, system.u0
    print("n",n,"la_tau:", [np.shape(m.la_tau(t,q[m.qDOF],u[m.uDOF])) for m in motors], [np.ravel(m.la_tau(t,q[m.qDOF],u[m.uDOF])) for m in motors])
    try:
        print(" system.la_tau", system.la_tau(t,q,u))
    except Exception as e: print(" system.la_tau raises", type(e).__name__, str(e)[:80])
    try:
        print(" Wla_tau_q ok", system.Wla_tau_q(t,q,u).shape)
    except Exception as e: print(" Wla_tau_q raises", type(e).__name__, str(e)[:80])
