"""F55 (C11.R12): a fully constrained Cosserat rod (constraints=[0..5], the "rigid rod") reports h_u but no h.

make_CosseratRodConstrained picks CosseratRod_PetrovGalerkin as base class when no strain is left impressed; that class defines the
gyroscopic Jacobian h_u but not h (h lives in the two subclasses, where it also carries the internal forces).  System collects h and h_u
independently (hasattr), so for the rigid rod System.h has no gyroscopic forces while System.h_u is their (negative) Jacobian:
h_u is not the derivative of h, and the dynamics of a spinning rigid rod lack -omega x (I omega).
Before the fix: hasattr(rod, 'h') False, |h| = 0, |h_u| > 0, |h_u - dh/du| = |h_u|.   After: both consistent.
Run:  cd /tmp && PYTHONPATH=<checkout> /venv/bin/python F55_rigid_rod_without_gyroscopic_forces.py"""
import sys
import numpy as np
from cardillo import System
from cardillo.rods import CircularCrossSection, CrossSectionInertias, Simo1986
from cardillo.rods.cosseratRod import make_CosseratRod

Rod = make_CosseratRod(interpolation="Quaternion", mixed=True, constraints=[0, 1, 2, 3, 4, 5])
cs = CircularCrossSection(0.05)
A, Ip, I2, I3 = cs.area, cs.second_moment[0, 0], cs.second_moment[1, 1], cs.second_moment[2, 2]
inertias = CrossSectionInertias(1000.0, cs)
mat = Simo1986(np.array([1e4, 1e4, 1e4]), np.array([1e2, 2e2, 3e2]))
nel = 2
q0 = Rod.straight_configuration(nel, 1.0)
rod = Rod(cs, mat, nel, Q=q0, q0=q0, cross_section_inertias=inertias)
system = System()
system.add(rod)
system.assemble()
rng = np.random.default_rng(1)
u = rng.normal(size=system.nu)
h = system.h(0.0, system.q0, u)
h_u = system.h_u(0.0, system.q0, u).toarray()
eps = 1e-6
fd = np.zeros_like(h_u)
for k in range(system.nu):
    e = np.zeros(system.nu); e[k] = eps
    fd[:, k] = (system.h(0.0, system.q0, u + e) - system.h(0.0, system.q0, u - e)) / (2 * eps)
print("rod defines h:", hasattr(rod, "h"), " h_u:", hasattr(rod, "h_u"))
print("|h| = %.3e  |h_u| = %.3e  |h_u - dh/du| = %.3e" % (np.abs(h).max(), np.abs(h_u).max(), np.abs(h_u - fd).max()))
bad = np.abs(h_u - fd).max() > 1e-6 * max(1.0, np.abs(h_u).max()) and np.abs(h_u - fd).max() > 1e-9
print("VIOLATED: h_u is not the derivative of h (gyroscopic forces missing from h)" if bad else "ok: h_u is the derivative of h")
sys.exit(1 if bad else 0)
