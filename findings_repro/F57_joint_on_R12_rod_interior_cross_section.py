"""F57: a joint attached at an interior cross-section of an R12 rod with an explicit joint point / frame is not satisfied in its defining
configuration: R12 rods interpolate rotation MATRICES, so A_IB(xi) is not orthogonal between the nodes, and the joint base classes used
A_IB0.T as its inverse when they derive the body-fixed joint data."""
import numpy as np
from cardillo import System
from cardillo.rods import CircularCrossSection, Simo1986, CrossSectionInertias
from cardillo.rods.cosseratRod import make_CosseratRod
from cardillo.constraints import RigidConnection, Revolute
from cardillo.math import Exp_SO3
from cardillo.solver import SolverOptions

Rod = make_CosseratRod(interpolation="R12", mixed=False)
cs = CircularCrossSection(0.05)
mat = Simo1986(np.array([5., 1., 1.]), np.array([.5, .1, .1]))
nel = 2
# curved (quarter circle) reference = initial configuration
L = 1.0
Q = Rod.straight_configuration(nel, L)
nn = (len(Q) // 12)
# bend: node-wise rotation about e3, positions on an arc
q = Q.copy().reshape(12, -1) if False else Q.copy()
rodtmp = Rod(cs, mat, nel, Q=Q, q0=Q, cross_section_inertias=CrossSectionInertias())
q0 = Q.copy()
for node in range(rodtmp.nnodes_r):
    s = node / (rodtmp.nnodes_r - 1)
    phi = 1.2 * s
    r = np.array([np.sin(phi), 1 - np.cos(phi), 0.0]) / 1.2
    q0[rodtmp.nodalDOF_r[node]] = r
for node in range(rodtmp.nnodes_p):
    s = node / (rodtmp.nnodes_p - 1)
    psi = np.array([0.3 * s, 0.2 * s, 1.2 * s])
    a = np.linalg.norm(psi)
    q0[rodtmp.nodalDOF_p[node]] = np.array([1.0, 0, 0, 0]) if a == 0 else np.concatenate(([np.cos(a / 2)], np.sin(a / 2) * psi / a))
rod = Rod(cs, mat, nel, Q=q0, q0=q0, cross_section_inertias=CrossSectionInertias())
xi = 0.3
qe = q0[rod.local_qDOF_P(xi)]
A = rod.A_IB(0, qe, xi)
print("|A^T A - I| at xi = 0.3:", np.abs(A.T @ A - np.eye(3)).max())
system = System()
joint = RigidConnection(system.origin, rod, xi2=xi, r_OJ0=np.array([0.1, 0.2, 0.3]), A_IJ0=Exp_SO3(np.array([0.1, -0.4, 0.2])))
system.add(rod, joint)
try:
    system.assemble(options=SolverOptions(compute_consistent_initial_conditions=False))
    g = system.g(system.t0, system.q0)
    print("assembled; max|g(t0, q0)| =", np.abs(g).max())
    ok = np.abs(g).max() < 1e-10
except AssertionError as e:
    print("System.assemble raised:", e)
    joint.assembler_callback()
    print("max|g(t0, q0)| =", np.abs(joint.g(0, np.concatenate([system.origin.q0 if hasattr(system.origin,'q0') else [], qe]))).max())
    ok = False
print("OK" if ok else "DEFECT: the joint is not satisfied in the configuration in which it was defined")
raise SystemExit(0 if ok else 1)
