import numpy as np, warnings
warnings.filterwarnings("ignore")
from cardillo import System
from cardillo.discrete import RigidBody, PointMass
from cardillo.interactions import TwoPointInteraction
from cardillo.force_laws import Spring
from cardillo.forces import Force
def build(with_spring, kind):
    system = System()
    if kind=="rb":
        a = RigidBody(1.0, np.eye(3), q0=np.array([0,0,0,1,0,0,0]))
        b = RigidBody(1.0, np.eye(3), q0=np.array([2,0,0,1,0,0,0]))
    else:
        a = PointMass(1.0, q0=np.array([0,0,0])); b = PointMass(1.0, q0=np.array([2,0,0]))
    system.add(a,b)
    if with_spring:
        system.add(Spring(TwoPointInteraction(a,b), 10.0))
    system.assemble()
    return system
for kind in ("pm","rb"):
  for ws in (False, True):
    try:
        s=build(ws,kind); print(kind, ws, "assembles", s.q0.dtype)
    except Exception as e:
        print(kind, ws, "FAILS", type(e).__name__, str(e)[:100])
