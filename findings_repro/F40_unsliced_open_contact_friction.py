"""F40 (C16.R7; also C18: Coulomb disk at the stored step 0): assemble(slice_active_contacts=False) puts a friction force on an OPEN contact.

compute_I_F(slice=False) keeps the friction law of an inactive normal contact with an EMPTY local normal index; every consumer reads an
empty index as "constant force reservoir" (la_N = 1.0), so the open contact gets the reservoir mu * 1.0.
Before the fix: la_N0 = [0.], la_F0 = [-0.3, 0.], Moreau's stored step 0 has P_N = 0 and |P_F| = 0.3 dt (outside the Coulomb disk).
After: la_F0 = [0, 0].   Run:  cd /tmp && PYTHONPATH=<checkout> /venv/bin/python F55_unsliced_open_contact_friction.py"""
import sys
import numpy as np
from cardillo import System
from cardillo.discrete import Frame, PointMass
from cardillo.contacts import Sphere2Plane
from cardillo.solver import Moreau

system = System()
pm = PointMass(1.0, q0=np.array([0.0, 0.0, 1.0]), u0=np.array([1.0, 0.0, 0.0]))
plane = Frame()
contact = Sphere2Plane(plane, pm, mu=0.3, r=0.1, e_N=0.0)
system.add(pm, plane, contact)
system.assemble(slice_active_contacts=False)
print("g_N0 =", system.g_N(system.t0, system.q0), " la_N0 =", system.la_N0, " la_F0 =", system.la_F0, " u_dot0 =", system.u_dot0)
sol = Moreau(system, 0.01, 0.005).solve()
print("step 0: P_N =", sol.P_N[0], " P_F =", sol.P_F[0])
bad = np.linalg.norm(system.la_F0) > 0.3 * abs(system.la_N0[0]) + 1e-12 or np.linalg.norm(sol.P_F[0]) > 0.3 * abs(sol.P_N[0]) + 1e-12
print("VIOLATED: friction on an open contact" if bad else "ok: no friction on the open contact")
sys.exit(1 if bad else 0)
