"""K11: stored-row isolation (a small may-alias / escape analysis over the statement CFG).

Question decided: can an object that has been *stored* as a result row (appended to a result list, put into a list
literal that becomes a result list) still be modified in place afterwards through a name that shares its memory?

Abstraction.  Objects are identified with the assignment that creates them (allocation site = CFG node).  For one
allocation site at a time the analysis propagates two sets of access paths (local names and dotted `self.x` paths) forward
through the CFG to a fixpoint (union at joins):

    U  paths that may share memory with the object on paths where it has not been stored yet
    S  paths that may share memory with it on paths where it HAS been stored

Sharing is created only by constructs that numpy documents as views / references (plain assignment, basic slicing,
np.array_split/split/asarray/atleast_*/reshape/ravel/.T ..., tuple unpacking of those); everything else (arithmetic,
.copy(), any other call) is a fresh object.  A strong assignment to a path removes it from both sets (the name is rebound).
A store event moves U into S.  A *mutation* is a subscript store, an augmented assignment on a path with array evidence
(numpy's in-place operators), an `out=` argument, an in-place method, or passing the path to a callee whose summary says it
modifies that parameter in place (summaries are computed by the same analysis on the callee).  A mutation of a path in S is a
finding: the stored row changes after it was stored.

Direction of approximation: sharing that the analysis cannot see is lost (no finding); it never invents sharing, and
augmented assignment counts as in-place only with positive evidence that the name is an array/list (it is subscripted,
split, copied, matrix-multiplied or measured with len() somewhere in the function).
"""
from __future__ import annotations

import ast

from .cfg import CFG
from .core import dotted, norm_src

VIEW_FUNCS = {"array_split", "split", "hsplit", "vsplit", "dsplit", "asarray", "asanyarray", "atleast_1d", "atleast_2d",
              "atleast_3d", "ravel", "reshape", "transpose", "squeeze", "swapaxes", "moveaxis", "expand_dims",
              "broadcast_to", "diagonal", "frombuffer"}
VIEW_METHODS = {"reshape", "ravel", "view", "squeeze", "transpose", "swapaxes", "diagonal"}
VIEW_ATTRS = {"T", "real", "imag", "flat"}
INPLACE_METHODS = {"fill", "sort", "put", "itemset", "resize", "partition", "setfield", "extend", "append", "insert",
                   "clear", "pop", "remove", "reverse", "update"}
STORE_METHODS = {"append", "insert", "extend"}
SYSTEM_ARRAYS = {"q0", "u0", "q_dot0", "u_dot0", "la_g0", "la_gamma0", "la_c0", "la_N0", "la_F0", "la_tau0"}


def _is_basic_slice(sl) -> bool:
    if isinstance(sl, ast.Slice):
        return True
    if isinstance(sl, ast.Constant) and sl.value is Ellipsis:
        return True
    if isinstance(sl, ast.Tuple):
        return any(isinstance(e, ast.Slice) for e in sl.elts) and all(
            isinstance(e, (ast.Slice, ast.Constant, ast.Name, ast.UnaryOp, ast.BinOp)) for e in sl.elts)
    return False


def sources(e) -> set[str]:
    """Access paths whose memory the value of expression `e` may share."""
    if e is None:
        return set()
    d = dotted(e)
    if d is not None and not isinstance(e, ast.Attribute):
        return {d}
    if isinstance(e, ast.Attribute):
        if e.attr in VIEW_ATTRS:
            return sources(e.value)
        return {d} if d else set()
    if isinstance(e, ast.Subscript):
        if isinstance(e.value, ast.Call) and _callee_tail(e.value) in ("array_split", "split", "hsplit", "vsplit"):
            return sources(e.value)  # one of the views in the returned list
        if _is_basic_slice(e.slice):
            return sources(e.value)
        return set()
    if isinstance(e, ast.Call):
        tail = _callee_tail(e)
        if isinstance(e.func, ast.Attribute) and tail in VIEW_METHODS and dotted(e.func.value) not in ("np", "numpy"):
            return sources(e.func.value)
        if tail in VIEW_FUNCS and e.args:
            return sources(e.args[0])
        return set()
    if isinstance(e, (ast.Tuple, ast.List)):
        out = set()
        for x in e.elts:
            out |= sources(x)
        return out
    if isinstance(e, ast.IfExp):
        return sources(e.body) | sources(e.orelse)
    if isinstance(e, ast.Starred):
        return sources(e.value)
    if isinstance(e, ast.NamedExpr):
        return sources(e.value)
    return set()


def _callee_tail(call: ast.Call) -> str | None:
    f = call.func
    if isinstance(f, ast.Attribute):
        return f.attr
    if isinstance(f, ast.Name):
        return f.id
    return None


def _base_path(t) -> str | None:
    """Path of the container a Subscript/Attribute store writes into: x[...] -> x, self.a[i][j] -> self.a."""
    while isinstance(t, ast.Subscript):
        t = t.value
    return dotted(t)


def array_evidence(fn) -> set[str]:
    """Paths for which the function contains positive evidence of a mutable sequence (ndarray / list)."""
    ev = set()
    for n in ast.walk(fn):
        if isinstance(n, ast.Subscript):
            d = dotted(n.value)
            if d:
                ev.add(d)
        elif isinstance(n, ast.Call):
            tail = _callee_tail(n)
            if isinstance(n.func, ast.Attribute) and tail in ("copy", "reshape", "ravel", "fill", "dot", "astype", "flatten"):
                d = dotted(n.func.value)
                if d:
                    ev.add(d)
            if tail in VIEW_FUNCS or tail in ("len", "concatenate", "hstack", "vstack", "norm", "zeros_like", "ones_like"):
                for a in n.args[:1]:
                    d = dotted(a)
                    if d:
                        ev.add(d)
                    elif isinstance(a, (ast.Tuple, ast.List)):
                        for x in a.elts:
                            dx = dotted(x)
                            if dx:
                                ev.add(dx)
        elif isinstance(n, ast.BinOp) and isinstance(n.op, ast.MatMult):
            for a in (n.left, n.right):
                d = dotted(a)
                if d:
                    ev.add(d)
        elif isinstance(n, ast.Assign) and len(n.targets) == 1:
            # names bound to a view expression are arrays
            if isinstance(n.value, ast.Call) and _callee_tail(n.value) in VIEW_FUNCS | {"zeros", "ones", "empty", "array", "concatenate", "copy", "solve", "arange", "linspace"}:
                for t in ([n.targets[0]] if not isinstance(n.targets[0], (ast.Tuple, ast.List)) else n.targets[0].elts):
                    d = dotted(t)
                    if d:
                        ev.add(d)
            if isinstance(n.value, ast.Attribute) and n.value.attr in SYSTEM_ARRAYS and dotted(n.value.value) in ("system", "self.system"):
                d = dotted(n.targets[0])  # the initial state vectors of an assembled System are arrays
                if d:
                    ev.add(d)
            if isinstance(n.value, ast.Attribute) and n.value.attr in ("x", "y") and isinstance(n.value.value, ast.Name):
                d = dotted(n.targets[0])  # sol.x, sol.y of an OptimizeResult
                if d:
                    ev.add(d)
    # propagation: arithmetic with an array operand gives an array (x = self.qn + dq); reductions and element reads do not
    changed = True
    while changed:
        changed = False
        for n in ast.walk(fn):
            if not (isinstance(n, ast.Assign) and len(n.targets) == 1):
                continue
            t = dotted(n.targets[0])
            if not t or t in ev:
                continue
            v = n.value
            if isinstance(v, ast.BinOp) and _arith_operand_evidence(v, ev):
                ev.add(t)
                changed = True
            elif dotted(v) in ev:
                ev.add(t)
                changed = True
    return ev


def _arith_operand_evidence(v, ev) -> bool:
    if isinstance(v, ast.BinOp):
        if isinstance(v.op, ast.MatMult):
            return False  # a product may be a scalar
        return _arith_operand_evidence(v.left, ev) or _arith_operand_evidence(v.right, ev)
    if isinstance(v, ast.UnaryOp):
        return _arith_operand_evidence(v.operand, ev)
    d = dotted(v)
    return d is not None and d in ev


class Mutation:
    def __init__(self, node, path, how):
        self.node, self.path, self.how = node, path, how


class FunctionAliasing:
    """Per-function analysis.  `summaries(call) -> set of positional indices / keyword names mutated in place`."""

    def __init__(self, fn, summaries=None, returns=None, extra_evidence=()):
        self.fn = fn
        self.cfg = CFG(fn)
        self.ev = array_evidence(fn) | set(extra_evidence)
        self.summaries = summaries or (lambda call: set())
        # returns(call) -> None | list (one entry per element of the returned tuple, or a single entry) of positional
        # parameter indices whose object is handed back unchanged (`return q, u`)
        self.returns = returns or (lambda call: None)
        self._muts = {}
        self._gen = {}

    # ---- per node facts --------------------------------------------------------------------------------------------
    def assignments(self, node):
        """[(target path, set(source paths), strong?)] for the bindings performed by a CFG node."""
        a = node.ast
        out = []
        if node.kind not in ("stmt",) or a is None:
            if node.kind == "iter" and a is not None:
                for t in ast.walk(a.target):
                    d = dotted(t)
                    if d and isinstance(t, (ast.Name, ast.Attribute)):
                        out.append((d, set(), True))
            if node.kind == "with" and a is not None:
                for it in a.items:
                    if it.optional_vars is not None:
                        d = dotted(it.optional_vars)
                        if d:
                            out.append((d, set(), True))
            return out

        def ret_sources(v):
            """sources of a call that hands (some of) its arguments back; None when no summary applies."""
            if not isinstance(v, ast.Call):
                return None
            r = self.returns(v)
            if r is None:
                return None
            out = []
            for idx in r:
                out.append(sources(v.args[idx]) if idx is not None and idx < len(v.args) else set())
            return out

        def bind(t, v):
            rs = ret_sources(v)
            if isinstance(t, (ast.Tuple, ast.List)):
                if isinstance(v, (ast.Tuple, ast.List)) and len(v.elts) == len(t.elts) and not any(isinstance(x, ast.Starred) for x in t.elts):
                    for tt, vv in zip(t.elts, v.elts):
                        bind(tt, vv)
                elif rs is not None and len(rs) == len(t.elts):
                    for tt, src in zip(t.elts, rs):
                        bind_src(tt, src)
                else:
                    src = sources(v)
                    for tt in t.elts:
                        bind_src(tt, src)
            elif rs is not None and len(rs) == 1:
                bind_src(t, rs[0])
            else:
                bind_src(t, sources(v))

        def bind_src(t, src):
            if isinstance(t, ast.Starred):
                t = t.value
            if isinstance(t, (ast.Tuple, ast.List)):
                for tt in t.elts:
                    bind_src(tt, src)
                return
            d = dotted(t)
            if d is not None and isinstance(t, (ast.Name, ast.Attribute)):
                out.append((d, set(src), True))

        if isinstance(a, ast.Assign):
            for t in a.targets:
                bind(t, a.value)
        elif isinstance(a, ast.AnnAssign) and a.value is not None:
            bind(a.target, a.value)
        elif isinstance(a, ast.AugAssign):
            d = dotted(a.target)
            if d is not None and isinstance(a.target, (ast.Name, ast.Attribute)) and d not in self.ev:
                out.append((d, {"?aug"}, True))  # rebinding if the object is a number (decided in track())
        for w in ast.walk(a):
            if isinstance(w, ast.NamedExpr):
                out.append((w.target.id, sources(w.value), True))
        return out

    def mutations(self, node):
        """[(path, how)] in-place modifications performed by a CFG node."""
        a = node.ast
        if a is None or node.kind not in ("stmt", "test"):
            return []
        out = []
        if isinstance(a, ast.Assign):
            for t in a.targets:
                for tt in ([t] if not isinstance(t, (ast.Tuple, ast.List)) else t.elts):
                    if isinstance(tt, ast.Subscript):
                        b = _base_path(tt)
                        if b:
                            out.append((b, "subscript store"))
        elif isinstance(a, ast.AugAssign):
            if isinstance(a.target, ast.Subscript):
                b = _base_path(a.target)
                if b:
                    out.append((b, "augmented subscript store"))
            else:
                d = dotted(a.target)
                if d:
                    # decided in track(): in place when the path or any path sharing its memory has array evidence
                    out.append((d, f"?in-place operator {type(a.op).__name__}="))
        for w in ast.walk(a):
            if not isinstance(w, ast.Call):
                continue
            for kw in w.keywords:
                if kw.arg == "out":
                    for s in sources(kw.value):
                        out.append((s, "out= argument"))
            tail = _callee_tail(w)
            if isinstance(w.func, ast.Attribute) and tail in INPLACE_METHODS and tail not in STORE_METHODS:
                d = dotted(w.func.value)
                if d and d not in ("np", "numpy"):
                    out.append((d, f".{tail}()"))
            if tail in ("copyto", "put", "place", "putmask", "fill_diagonal") and w.args:
                for s in sources(w.args[0]):
                    out.append((s, f"np.{tail}"))
            mut = self.summaries(w)
            for idx in mut:
                arg = None
                if isinstance(idx, int) and idx < len(w.args):
                    arg = w.args[idx]
                elif isinstance(idx, str):
                    arg = next((k.value for k in w.keywords if k.arg == idx), None)
                if arg is not None:
                    for s in sources(arg):
                        out.append((s, f"callee {norm_src(w.func)} modifies this argument in place"))
        return out

    def stores(self, node):
        """[(list path, stored expr)] store events of a CFG node."""
        a = node.ast
        if a is None or node.kind != "stmt":
            return []
        out = []
        for w in ast.walk(a):
            if isinstance(w, ast.Call) and isinstance(w.func, ast.Attribute) and w.func.attr in STORE_METHODS and w.args:
                lst = dotted(w.func.value)
                if lst and lst not in ("np", "numpy"):
                    out.append((lst, w.args[-1] if w.func.attr == "insert" else w.args[0]))
        if isinstance(a, ast.Assign) and isinstance(a.value, ast.List) and len(a.targets) == 1:
            lst = dotted(a.targets[0])
            if lst:
                for e in a.value.elts:
                    out.append((lst, e))
        return out

    # ---- the forward analysis for one object ---------------------------------------------------------------------
    def track(self, seed_node=None, seed_paths=(), stored_at_entry=False):
        """Returns (findings, exit_S) where findings = [(store node, mutation node, path, how)]."""
        cfg = self.cfg
        U = {n.id: frozenset() for n in cfg.nodes}
        S = {n.id: frozenset() for n in cfg.nodes}
        STN = {n.id: frozenset() for n in cfg.nodes}  # store nodes responsible for S (for the report)
        outU, outS, outN = dict(U), dict(S), dict(STN)
        findings = {}
        work = []
        if seed_node is None:
            start = cfg.entry
            if stored_at_entry:
                outS[start.id] = frozenset(seed_paths)
            else:
                outU[start.id] = frozenset(seed_paths)
            work = [m for m, _ in start.succ]
        else:
            outU[seed_node.id] = frozenset(seed_paths)
            work = [m for m, _ in seed_node.succ]
        seen_once = set()
        while work:
            n = work.pop()
            inU, inS, inN = set(), set(), set()
            for p, _ in n.pred:
                inU |= outU[p.id]
                inS |= outS[p.id]
                inN |= outN[p.id]
            u, s, stn = set(inU), set(inS), set(inN)
            # mutations are checked against the state before the node's own bindings
            for path, how in self.mutations(n):
                if path in s:
                    if how.startswith("?"):
                        if not ((s | u) & self.ev):
                            continue  # no evidence that the object is an array / list: `x += 1` rebinds a number
                        how = how[1:]
                    findings[(n.id, path)] = (tuple(sorted(stn)), n, path, how)
            # bindings
            for tgt, src, strong in self.assignments(n):
                if "?aug" in src:
                    if tgt in (s | u) and ((s | u) & self.ev):
                        continue  # in-place operator on an array: the path keeps denoting the same object
                    src = set()
                iu, is_ = bool(src & u), bool(src & s)
                # self-reference (x = x[...]) keeps membership through src
                u.discard(tgt)
                s.discard(tgt)
                # rebinding an attribute path also drops paths below it
                for coll in (u, s):
                    for p in [p for p in coll if p.startswith(tgt + ".")]:
                        coll.discard(p)
                if iu:
                    u.add(tgt)
                if is_:
                    s.add(tgt)
            # store events
            for lst, e in self.stores(n):
                src = sources(e)
                if src & u or src & s:
                    s |= u
                    u = set()
                    stn.add(n.id)
            if n is seed_node:
                u |= set(seed_paths)  # the allocation itself (a new object each time; tracked under the same paths)
                for p in seed_paths:
                    s.discard(p)
            fu, fs, fn_ = frozenset(u), frozenset(s), frozenset(stn)
            if n.id not in seen_once or fu != outU[n.id] or fs != outS[n.id] or fn_ != outN[n.id]:
                seen_once.add(n.id)
                outU[n.id], outS[n.id], outN[n.id] = fu, fs, fn_
                for m, _ in n.succ:
                    work.append(m)
        exit_S = set()
        for p, _ in cfg.exit.pred:
            exit_S |= outS[p.id]
        res = []
        for (nid, path), (stn, node, path, how) in sorted(findings.items(), key=lambda kv: kv[0]):
            res.append(([cfg.nodes[i] for i in stn], node, path, how))
        return res, exit_S

    def allocation_sites(self):
        """CFG nodes that bind at least one path (every one is treated as a potential allocation of a fresh object)."""
        out = []
        for n in self.cfg.nodes:
            asg = self.assignments(n)
            paths = [t for t, src, strong in asg]
            if paths:
                out.append((n, paths))
        return out

    def run(self):
        """All findings of the function + persistent stored attribute paths at exit."""
        res, persistent = [], set()
        seen = set()
        n_stores = sum(len(self.stores(n)) for n in self.cfg.nodes)
        for node, paths in self.allocation_sites():
            f, ex = self.track(node, tuple(paths))
            for stn, mnode, path, how in f:
                key = (mnode.id, path)
                if key in seen:
                    continue
                seen.add(key)
                res.append((stn, mnode, path, how))
            persistent |= {p for p in ex if p.startswith("self.")}
        return res, persistent, n_stores


def returned_params(fn):
    """[index or None, ...] when every `return` of fn hands back the same parameters (a tuple of them or a single one),
    positional indices counted without self; else None."""
    a = fn.args
    params = [x.arg for x in a.posonlyargs + a.args]
    skip = 1 if params and params[0] in ("self", "cls") else 0
    params = params[skip:]
    rebound = set()
    for n in ast.walk(fn):
        if isinstance(n, (ast.Assign, ast.AugAssign, ast.AnnAssign, ast.For)):
            tg = n.targets if isinstance(n, ast.Assign) else [n.target]
            for t in tg:
                for w in ast.walk(t):
                    if isinstance(w, ast.Name) and isinstance(w.ctx, ast.Store):
                        rebound.add(w.id)
    shape = None
    for n in ast.walk(fn):
        if isinstance(n, ast.Return):
            v = n.value
            elts = v.elts if isinstance(v, ast.Tuple) else [v]
            cur = []
            for e in elts:
                if isinstance(e, ast.Name) and e.id in params and e.id not in rebound:
                    cur.append(params.index(e.id))
                else:
                    cur.append(None)
            if shape is None:
                shape = cur
            elif shape != cur:
                return None
    if shape is None or all(x is None for x in shape):
        return None
    return shape


def param_mutations(fn) -> set:
    """Indices (self excluded when present) and names of parameters that `fn` may modify in place."""
    fa = FunctionAliasing(fn)
    a = fn.args
    params = [x.arg for x in a.posonlyargs + a.args]
    skip = 1 if params and params[0] in ("self", "cls") else 0
    out = set()
    for i, p in enumerate(params[skip:]):
        f, _ = fa.track(None, (p,), stored_at_entry=True)
        if f:
            out.add(i)
            out.add(p)
    return out


# ---------------------------------------------------------------------------------------------------------------------
# repository level: callee summaries and the class-wide rule
# ---------------------------------------------------------------------------------------------------------------------
class Summaries:
    """In-place-modification summaries of callees that can be resolved exactly:
       self.system.m(...) -> System.m,   self.m(...) -> method of the same class (or a base in the same module),
       f(...) -> the unique top-level function of that name in the same module / in cardillo."""

    def __init__(self, repo):
        self.repo = repo
        self._cache = {}
        self._busy = set()

    def returns_resolver(self, mod, clsname):
        def ret(call):
            target = self._resolve(mod, clsname, call)
            if target is None:
                return None
            k = ("ret", id(target))
            if k not in self._cache:
                self._cache[k] = returned_params(target)
            return self._cache[k]
        return ret

    def _resolve(self, mod, clsname, call):
        d = dotted(call.func)
        if not d:
            return None
        target = None
        parts = d.split(".")
        if len(parts) == 3 and parts[0] == "self" and parts[1] == "system":
            target = self.repo.maybe("cardillo/system.py", "System." + parts[2])
        elif len(parts) == 2 and parts[0] == "system":
            target = self.repo.maybe("cardillo/system.py", "System." + parts[1])
        elif len(parts) == 2 and parts[0] == "self" and clsname:
            target = mod.defs().get(clsname + "." + parts[1])
        elif len(parts) == 1:
            target = mod.defs().get(d)
            if target is None:
                cands = [m.defs()[d] for m in self.repo.modules.values() if d in m.defs()
                         and isinstance(m.defs()[d], ast.FunctionDef)]
                target = cands[0] if len(cands) == 1 else None
        return target if isinstance(target, ast.FunctionDef) else None

    def resolver(self, mod, clsname):
        def summ(call):
            d = dotted(call.func)
            if not d:
                return set()
            target = None
            parts = d.split(".")
            if len(parts) == 3 and parts[0] == "self" and parts[1] == "system":
                target = self.repo.maybe("cardillo/system.py", "System." + parts[2])
            elif len(parts) == 2 and parts[0] == "system":
                target = self.repo.maybe("cardillo/system.py", "System." + parts[1])
            elif len(parts) == 2 and parts[0] == "self" and clsname:
                target = mod.defs().get(clsname + "." + parts[1])
            elif len(parts) == 1:
                target = mod.defs().get(d)
                if target is None:
                    cands = [m.defs()[d] for m in self.repo.modules.values() if d in m.defs()
                             and isinstance(m.defs()[d], ast.FunctionDef)]
                    target = cands[0] if len(cands) == 1 else None
            if target is None or not isinstance(target, ast.FunctionDef):
                return set()
            k = id(target)
            if k in self._busy:
                return set()
            if k not in self._cache:
                self._busy.add(k)
                try:
                    self._cache[k] = param_mutations(target)
                finally:
                    self._busy.discard(k)
            return self._cache[k]
        return summ


def check_class(repo, rel, clsname, summaries: Summaries | None = None):
    """Stored-row isolation for every method of a class (or every top-level function when clsname is None).
    Returns (instances, findings):
      instances = [(qualified function, number of store events)]
      findings  = [(qualified function of the mutation, mutation stmt, store stmts, path, how)]"""
    mod = repo.module(rel)
    summaries = summaries or Summaries(repo)
    summ = summaries.resolver(mod, clsname)
    rets = summaries.returns_resolver(mod, clsname)
    fns = {}
    for q, node in mod.defs().items():
        if not isinstance(node, ast.FunctionDef):
            continue
        if clsname is None:
            if "." not in q:
                fns[q] = node
        elif q.startswith(clsname + "."):
            fns[q] = node
    instances, findings = [], []
    persistent = {}
    fas = {}
    # evidence about attributes is shared by all methods of the class (self.qn = system.q0 in __init__)
    class_ev = set()
    for fn in fns.values():
        class_ev |= {p for p in array_evidence(fn) if p.startswith("self.")}
    for q, fn in fns.items():
        fa = FunctionAliasing(fn, summ, rets, class_ev)
        fas[q] = fa
        res, pers, ns = fa.run()
        if ns:
            instances.append((q, ns))
        for stn, mnode, path, how in res:
            findings.append((q, mnode.ast, [s.ast for s in stn], path, how))
        for p in pers:
            persistent.setdefault(p, set()).add(q)
    # rows that stay reachable through an attribute after the storing method returned: no method of the class may modify
    # that attribute's object in place (the attribute may of course be rebound)
    for p, owners in sorted(persistent.items()):
        for q, fa in fas.items():
            res, _ = fa.track(None, (p,), stored_at_entry=True)
            for stn, mnode, path, how in res:
                findings.append((q, mnode.ast, [f"row stored by {o} and still reachable as {p}" for o in sorted(owners)], path, how))
        instances.append((f"{clsname}: {p} keeps a stored row reachable (stored by {', '.join(sorted(owners))})", 1))
    return instances, findings


def report(rep, rule, repo, targets, summaries=None):
    """targets = [(rel, class name or None)].  Emits one instance per function with store events."""
    summaries = summaries or Summaries(repo)
    for rel, cls in targets:
        inst, finds = check_class(repo, rel, cls, summaries)
        for q, ns in inst:
            bad_here = [f for f in finds if f[0] == q]
            if not bad_here:
                rep.ok(rule, f"{rel}:{q}" if "keeps a stored row" not in q else f"{rel}:{cls}", f"{ns} store event(s): no stored row shares memory with a buffer that is modified in place afterwards" if "keeps" not in q else q)
        for q, mstmt, stores, path, how in finds:
            st = "; ".join(norm_src(s) if isinstance(s, ast.AST) else s for s in stores[:4])
            rep.bad(rule, f"{rel}:{q}", mstmt,
                    f"`{path}` is modified in place ({how}) while it shares memory with a row that was already stored ({st}): "
                    f"the stored row changes after the fact and no longer is the state that was solved for",
                    f"{rel}:{getattr(mstmt, 'lineno', '?')}")
