"""K6 scaling-degree inference (dimensional homogeneity).

Abstract domain  Deg = Fraction (homogeneous of that degree under the chosen scaling group)
                     | Z   (polymorphic zero: literal 0, np.zeros)
                     | TOP (unknown / mixed)
Transfer: *, @, outer, einsum, cross3 add degrees; / subtracts; **k multiplies; sqrt halves; norm/abs/.T/subscript/reshape/sum
preserve; +, -, stacking, subscript stores and augmented += unify (two different ground degrees => violation); sin/cos/... force
degree 0; unknown calls give TOP.  Functions of the analysed modules are interpreted on demand with concrete argument degrees
(memoised), with constant keyword flags propagated (normalize=True).  Imprecision only loses detections.
"""
from __future__ import annotations

import ast
from fractions import Fraction

from .core import dotted, norm_src

Z = "Z"
TOP = "?"


def is_ground(d):
    return isinstance(d, Fraction)


def fmt(d):
    if isinstance(d, tuple):
        return "(" + ", ".join(fmt(x) for x in d) + ")"
    return str(d)


class Violation:
    def __init__(self, node, msg, fn_name):
        self.node, self.msg, self.fn = node, msg, fn_name


class Interp:
    def __init__(self, functions: dict, module_consts: dict | None = None, attr_degs: dict | None = None, builtin_norm=("norm",)):
        """functions: name -> FunctionDef (callable by bare name or as self.<name>); attr_degs: 'self.X' -> Deg."""
        self.functions = functions
        self.consts = module_consts or {}
        self.attr = dict(attr_degs or {})
        self.memo = {}
        self.violations: list[Violation] = []
        self.branch_conflicts = []  # (If node, variable, degree in body, degree in orelse): ground but different
        self.builtin_norm = builtin_norm
        self._stack = []
        self.effects = {}  # memo key -> {param: degree after the call} for parameters modified in place (x /= norm(x))
        self._touched = []  # stack of sets: names hit by an in-place operator in the running function

    # ------------------------------------------------------------------ unify
    def unify(self, a, b, node, what="sum"):
        if isinstance(a, tuple) or isinstance(b, tuple):
            if isinstance(a, tuple) and isinstance(b, tuple) and len(a) == len(b):
                return tuple(self.unify(x, y, node, what) for x, y in zip(a, b))
            # a tuple unified with a scalar degree: elementwise
            t, s = (a, b) if isinstance(a, tuple) else (b, a)
            return tuple(self.unify(x, s, node, what) for x in t)
        if a == Z:
            return b
        if b == Z:
            return a
        if a == TOP or b == TOP:
            return TOP
        if a == b:
            return a
        self.violations.append(Violation(node, f"{what} of terms that scale differently (degree {a} and degree {b})", self._stack[-1] if self._stack else "?"))
        return TOP

    def join(self, a, b):
        if isinstance(a, tuple) and isinstance(b, tuple) and len(a) == len(b):
            return tuple(self.join(x, y) for x, y in zip(a, b))
        if a == Z:
            return b
        if b == Z:
            return a
        return a if a == b else TOP

    @staticmethod
    def add(a, b):
        if a == Z or b == Z:
            return Z
        if a == TOP or b == TOP:
            return TOP
        return a + b

    @staticmethod
    def scale(a, k):
        if a in (Z, TOP):
            return a
        return a * Fraction(k)

    # ------------------------------------------------------------------ expressions
    def ev(self, e, env):
        if isinstance(e, ast.Constant):
            if isinstance(e.value, (int, float)) and e.value == 0 and not isinstance(e.value, bool):
                return Z
            return Fraction(0)
        if isinstance(e, ast.Name):
            if e.id in env:
                return env[e.id]
            if e.id in self.consts:
                return self.consts[e.id]
            return TOP
        if isinstance(e, ast.Attribute):
            d = dotted(e)
            if d in self.attr:
                return self.attr[d]
            if e.attr in ("T", "real", "imag"):
                return self.ev(e.value, env)
            if e.attr in ("dtype", "shape", "size", "ndim"):
                return Fraction(0)
            if d in ("np.pi", "math.pi", "np.e"):
                return Fraction(0)
            return TOP
        if isinstance(e, ast.UnaryOp):
            return self.ev(e.operand, env)
        if isinstance(e, ast.BinOp):
            a, b = self.ev(e.left, env), self.ev(e.right, env)
            if isinstance(a, tuple) or isinstance(b, tuple):
                return TOP
            if isinstance(e.op, (ast.Add, ast.Sub)):
                return self.unify(a, b, e)
            if isinstance(e.op, (ast.Mult, ast.MatMult)):
                return self.add(a, b)
            if isinstance(e.op, (ast.Div, ast.FloorDiv)):
                if b == Z:
                    return TOP
                return self.add(a, self.scale(b, -1) if b not in (Z, TOP) else b)
            if isinstance(e.op, ast.Pow):
                if isinstance(e.right, ast.Constant) and isinstance(e.right.value, (int, float)):
                    return self.scale(a, Fraction(e.right.value).limit_denominator(1000))
                if isinstance(e.right, ast.UnaryOp) and isinstance(e.right.operand, ast.Constant):
                    return self.scale(a, -Fraction(e.right.operand.value).limit_denominator(1000))
                return TOP
            return TOP
        if isinstance(e, (ast.List, ast.Tuple)):
            d = Z
            for x in e.elts:
                d = self.unify(d, self.ev(x, env), x, "stacking")
            return d
        if isinstance(e, ast.Starred):
            return self.ev(e.value, env)
        if isinstance(e, ast.Subscript):
            v = self.ev(e.value, env)
            if isinstance(v, tuple):
                if isinstance(e.slice, ast.Constant) and isinstance(e.slice.value, int) and -len(v) <= e.slice.value < len(v):
                    return v[e.slice.value]
                return TOP
            return v
        if isinstance(e, ast.IfExp):
            return self.join(self.ev(e.body, env), self.ev(e.orelse, env))
        if isinstance(e, ast.Call):
            return self.call(e, env)
        if isinstance(e, ast.Compare):
            return Fraction(0)
        return TOP

    def call(self, e, env):
        f = dotted(e.func) or ""
        last = f.split(".")[-1]
        args = e.args
        kw = {k.arg: k.value for k in e.keywords}
        A = lambda i: self.ev(args[i], env) if len(args) > i else TOP
        if last in ("zeros", "zeros_like", "empty"):
            return Z
        if last in ("eye", "ones", "ones_like", "identity", "arange", "full", "linspace"):
            return Fraction(0)
        if last in ("array", "asarray", "atleast_1d", "atleast_2d", "diag", "copy", "squeeze", "ravel", "flatten", "reshape", "transpose", "abs", "absolute",
                    "sum", "trace", "real", "negative", "asanyarray", "max", "min", "float", "mean", "cumsum", "triu", "tril", "astype", "conj"):
            if last in ("reshape", "transpose", "copy", "astype", "flatten", "ravel", "sum", "max", "min", "conj") and isinstance(e.func, ast.Attribute) \
                    and not f.startswith("np."):
                return self.ev(e.func.value, env)  # method form x.reshape(...)
            return A(0)
        if last in self.builtin_norm or f in ("np.linalg.norm",):
            return A(0)
        if last == "sqrt":
            return self.scale(A(0), Fraction(1, 2))
        if last in ("inv", "pinv"):
            return self.scale(A(0), -1)
        if last in ("hstack", "vstack", "concatenate", "stack", "block", "column_stack"):
            return A(0)
        if last in ("outer", "cross", "dot", "matmul", "kron", "multiply", "tensordot", "inner"):
            if f.endswith("multiply.outer") or last != "multiply":
                return self.add(A(0), A(1))
            return self.add(A(0), A(1))
        if last == "einsum":
            d = Fraction(0)
            for a in args[1:]:
                d = self.add(d, self.ev(a, env))
            return d
        if last in ("sin", "cos", "tan", "arccos", "arcsin", "arctan", "arctan2", "exp", "log", "sinh", "cosh", "tanh", "sign", "isclose", "allclose"):
            for i in range(len(args)):
                d = self.ev(args[i], env)
                if is_ground(d) and d != 0:
                    self.violations.append(Violation(e, f"transcendental function of a quantity that scales (degree {d})", self._stack[-1] if self._stack else "?"))
            return Fraction(0)
        if last in ("minimum", "maximum", "where", "clip"):
            if last == "where":
                return self.join(A(1), A(2))
            return self.join(A(0), A(1))
        # user functions: bare name or self.<name>
        name = None
        if isinstance(e.func, ast.Name) and e.func.id in self.functions:
            name = e.func.id
        elif isinstance(e.func, ast.Attribute) and isinstance(e.func.value, ast.Name) and e.func.value.id == "self" and e.func.attr in self.functions:
            name = e.func.attr
        if name is None and f in self.attr:
            return self.attr[f]  # a callable attribute with a declared degree (glue lambda): self.A_IJ2(t, q)
        if name is not None:
            fn = self.functions[name]
            params = [a.arg for a in fn.args.args]
            if params and params[0] == "self":
                params = params[1:]
            argd = {}
            flags = {}
            for p, a in zip(params, args):
                if isinstance(a, ast.Constant) and isinstance(a.value, bool):
                    flags[p] = a.value
                argd[p] = self.ev(a, env)
            for k, v in kw.items():
                if isinstance(v, ast.Constant) and isinstance(v.value, bool):
                    flags[k] = v.value
                elif k in params:
                    argd[k] = self.ev(v, env)
            out = self.run(name, argd, flags)
            # in-place operators of the callee on a parameter act on the caller's array (np.asarray / asanyarray of a float
            # array is the array itself): the caller's name carries the degree the callee left behind
            eff = self.effects.get(self._last_key, {})
            for p, a in zip(params, args):
                if p in eff and isinstance(a, ast.Name) and a.id in env:
                    env[a.id] = eff[p]
            return out
        return TOP

    # ------------------------------------------------------------------ statements
    def run(self, name, argd, flags=None):
        flags = flags or {}
        fn = self.functions[name]
        key = (name, tuple(sorted((k, fmt(v)) for k, v in argd.items())), tuple(sorted(flags.items())))
        self._last_key = key
        if key in self.memo:
            return self.memo[key]
        if name in self._stack:
            return TOP
        self.memo[key] = TOP
        self._stack.append(name)
        env = {}
        a = fn.args
        pos = [x.arg for x in a.args]
        defaults = dict(zip(reversed(pos), reversed(a.defaults)))
        for p in pos:
            if p == "self":
                continue
            if p in argd:
                env[p] = argd[p]
            elif p in flags:
                env[p] = Fraction(0)
            elif p in defaults and isinstance(defaults[p], ast.Constant) and isinstance(defaults[p].value, bool):
                flags.setdefault(p, defaults[p].value)
                env[p] = Fraction(0)
            else:
                env[p] = TOP
        rets = []
        self._touched.append(set())
        self.block(fn.body, env, flags, rets)
        touched = self._touched.pop()
        self.effects[key] = {p: env[p] for p in pos if p in touched and p in env}
        self._last_key = key
        self._stack.pop()
        self.returns = getattr(self, "returns", {})
        self.returns[key] = list(rets)
        out = Z
        first = True
        for r in rets:
            out = r if first else self.join(out, r)
            first = False
        if not rets:
            out = TOP
        self.memo[key] = out
        return out

    def block(self, stmts, env, flags, rets):
        for s in stmts:
            if isinstance(s, ast.Return):
                if s.value is not None:
                    if isinstance(s.value, ast.Tuple):
                        rets.append(tuple(self.ev(x, env) for x in s.value.elts))
                    else:
                        rets.append(self.ev(s.value, env))
                return True
            if isinstance(s, ast.Assign):
                v = s.value
                for t in s.targets:
                    self.assign(t, v, env)
            elif isinstance(s, ast.AugAssign):
                cur = self.ev(s.target, env) if not isinstance(s.target, ast.Subscript) else self.ev(s.target.value, env)
                d = self.ev(s.value, env)
                if isinstance(s.op, (ast.Add, ast.Sub)):
                    new = self.unify(cur, d, s, "accumulation")
                elif isinstance(s.op, (ast.Mult, ast.MatMult)):
                    new = self.add(cur, d)
                elif isinstance(s.op, ast.Div):
                    new = self.add(cur, self.scale(d, -1)) if d not in (Z,) else TOP
                else:
                    new = TOP
                base = s.target
                while isinstance(base, ast.Subscript):
                    base = base.value
                if isinstance(base, ast.Name):
                    env[base.id] = new
                    if self._touched and not isinstance(s.target, ast.Subscript):
                        self._touched[-1].add(base.id)
            elif isinstance(s, ast.If):
                t = s.test
                known = None
                if isinstance(t, ast.Name) and t.id in flags:
                    known = flags[t.id]
                elif isinstance(t, ast.UnaryOp) and isinstance(t.op, ast.Not) and isinstance(t.operand, ast.Name) and t.operand.id in flags:
                    known = not flags[t.operand.id]
                if known is True:
                    if self.block(s.body, env, flags, rets):
                        return True
                elif known is False:
                    if self.block(s.orelse, env, flags, rets):
                        return True
                else:
                    e1, e2 = dict(env), dict(env)
                    r1 = self.block(s.body, e1, flags, rets)
                    r2 = self.block(s.orelse, e2, flags, rets)
                    if r1 and r2:
                        return True
                    src = [e2] if r1 else ([e1] if r2 else [e1, e2])
                    keys = set().union(*[set(x) for x in src])
                    for k in keys:
                        vals = [x.get(k, Z) for x in src]
                        env[k] = vals[0] if len(vals) == 1 else self.join(vals[0], vals[1])
                        if len(vals) == 2 and is_ground(vals[0]) and is_ground(vals[1]) and vals[0] != vals[1]:
                            self.branch_conflicts.append((s, k, vals[0], vals[1]))
            elif isinstance(s, (ast.For, ast.While)):
                if isinstance(s, ast.For):
                    self.assign(s.target, None, env, deg=self.iter_deg(s.iter, env))
                for _ in range(2):
                    self.block(s.body, env, flags, rets)
            elif isinstance(s, (ast.Expr, ast.Assert, ast.Pass, ast.Import, ast.ImportFrom)):
                continue
            elif isinstance(s, ast.With):
                self.block(s.body, env, flags, rets)
            elif isinstance(s, ast.Raise):
                return True
        return False

    def iter_deg(self, it, env):
        if isinstance(it, ast.Call) and (dotted(it.func) or "") in ("range", "enumerate", "zip"):
            if dotted(it.func) == "range":
                return Fraction(0)
            return TOP
        return self.ev(it, env)

    def assign(self, t, v, env, deg=None):
        if isinstance(t, ast.Name):
            env[t.id] = deg if deg is not None else self.ev(v, env)
        elif isinstance(t, (ast.Tuple, ast.List)):
            if v is not None and isinstance(v, (ast.Tuple, ast.List)) and len(v.elts) == len(t.elts):
                ds = [self.ev(x, env) for x in v.elts]
                for a, d in zip(t.elts, ds):
                    self.assign(a, None, env, deg=d)
            else:
                d = deg if deg is not None else self.ev(v, env)
                if isinstance(d, tuple) and len(d) == len(t.elts):
                    for a, x in zip(t.elts, d):
                        self.assign(a, None, env, deg=x)
                else:
                    for a in t.elts:
                        self.assign(a, None, env, deg=d if not isinstance(d, tuple) else TOP)
        elif isinstance(t, ast.Subscript):
            base = t
            while isinstance(base, ast.Subscript):
                base = base.value
            d = deg if deg is not None else self.ev(v, env)
            if isinstance(base, ast.Name):
                cur = env.get(base.id, TOP)
                env[base.id] = self.unify(cur, d, t, "block store")
            elif isinstance(base, ast.Attribute) and dotted(base) in self.attr:
                self.attr[dotted(base)] = self.unify(self.attr[dotted(base)], d, t, "block store")
        elif isinstance(t, ast.Attribute):
            d = deg if deg is not None else self.ev(v, env)
            if dotted(t):
                self.attr[dotted(t)] = d
        elif isinstance(t, ast.Starred):
            self.assign(t.value, v, env, deg)
