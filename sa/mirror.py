"""K7 mirror symmetry 1<->2: mirrored definitions (subsystem 1 / subsystem 2 code blocks) must be images of
each other under the swap  1<->2 in identifiers,  x[:n?1] <-> x[n?1:],  with einsum index strings canonicalised."""
from __future__ import annotations

import ast
import copy
import re

KEEP = {"nq1", "nu1", "_nq1", "_nu1"}  # split indices are shared by both halves


def swap_ident(s: str) -> str:
    if s in KEEP:
        return s
    return s.translate(str.maketrans("12", "21"))


def canon_einsum(spec: str) -> str:
    spec = spec.replace(" ", "")
    m = {}
    out = []
    for ch in spec:
        if ch.isalpha():
            if ch not in m:
                m[ch] = chr(ord("a") + len(m))
            out.append(m[ch])
        else:
            out.append(ch)
    return "".join(out)


class _Swap(ast.NodeTransformer):
    def __init__(self, do_swap):
        self.do_swap = do_swap

    def visit_Name(self, n):
        if self.do_swap:
            n.id = swap_ident(n.id)
        return n

    def visit_arg(self, n):
        if self.do_swap:
            n.arg = swap_ident(n.arg)
        return n

    def visit_Attribute(self, n):
        self.generic_visit(n)
        if self.do_swap:
            n.attr = swap_ident(n.attr)
        return n

    def visit_Subscript(self, n):
        self.generic_visit(n)
        if self.do_swap and isinstance(n.slice, ast.Slice):
            sl = n.slice
            # x[:k] <-> x[k:] for split indices
            if sl.step is None:
                if sl.lower is None and sl.upper is not None and _is_split(sl.upper):
                    n.slice = ast.Slice(lower=sl.upper, upper=None, step=None)
                elif sl.upper is None and sl.lower is not None and _is_split(sl.lower):
                    n.slice = ast.Slice(lower=None, upper=sl.lower, step=None)
        return n

    def visit_Call(self, n):
        self.generic_visit(n)
        # canonicalise einsum spec
        f = n.func
        if isinstance(f, ast.Attribute) and f.attr == "einsum" and n.args and isinstance(n.args[0], ast.Constant) and isinstance(n.args[0].value, str):
            n.args[0] = ast.Constant(value=canon_einsum(n.args[0].value))
        # keyword xi=... -> positional (appended): `f(t, q, xi=obj.xi1)` == `f(t, q, obj.xi1)`
        kws = []
        for k in n.keywords:
            if k.arg == "xi":
                n.args.append(k.value)
            else:
                kws.append(k)
        n.keywords = kws
        return n


def _is_split(e):
    d = e
    if isinstance(d, ast.Attribute):
        return d.attr in KEEP
    return isinstance(d, ast.Name) and d.id in KEEP


def _clone(node):
    """fresh copy without the _parent back-links (deepcopy would drag the whole module along)."""
    src = ast.unparse(node)
    if isinstance(node, ast.expr):
        return ast.parse(src, mode="eval").body
    return ast.parse(src).body[0]


def normalise(node, swap):
    n = _clone(node)
    n = _Swap(swap).visit(n)
    ast.fix_missing_locations(n)
    return ast.dump(n, annotate_fields=False, include_attributes=False)


def mirror_equal(node1, node2):
    """node2 == swap(node1)?"""
    return normalise(node1, True) == normalise(node2, False)


def first_difference(node1, node2):
    a = ast.unparse(_Swap(True).visit(_clone(node1)))
    b = ast.unparse(_Swap(False).visit(_clone(node2)))
    return a, b
