"""K16: late-binding closures.

A lambda / nested def created inside a loop that reads a variable the loop re-binds (the loop target or a name assigned in the loop
body) sees the value of the LAST iteration when it is called after the loop.  Reported when the closure escapes the iteration
(stored in an attribute / subscript / name, appended, returned, put into a literal); a closure handed directly to a call that
consumes it at once, and variables frozen through a default argument (`lambda t, v=v: ...`), are fine."""
from __future__ import annotations

import ast

from .core import norm_src, walk_no_nested

STORE_CALLS = {"append", "extend", "insert", "setdefault", "add", "update"}


def _bound_in(loop):
    names = set()
    if isinstance(loop, ast.For):
        for w in ast.walk(loop.target):
            if isinstance(w, ast.Name):
                names.add(w.id)
    for st in loop.body:
        for w in ast.walk(st):
            if isinstance(w, (ast.Assign, ast.AugAssign, ast.AnnAssign)):
                tg = w.targets if isinstance(w, ast.Assign) else [w.target]
                for t in tg:
                    for x in ast.walk(t):
                        if isinstance(x, ast.Name) and isinstance(x.ctx, ast.Store):
                            names.add(x.id)
            if isinstance(w, ast.For):
                for x in ast.walk(w.target):
                    if isinstance(x, ast.Name):
                        names.add(x.id)
    return names


def _free_loads(fn):
    a = fn.args
    params = {x.arg for x in a.posonlyargs + a.args + a.kwonlyargs}
    if a.vararg:
        params.add(a.vararg.arg)
    if a.kwarg:
        params.add(a.kwarg.arg)
    body = [fn.body] if isinstance(fn, ast.Lambda) else fn.body
    loads = set()
    for b in body:
        for w in ast.walk(b):
            if isinstance(w, ast.Name) and isinstance(w.ctx, ast.Load) and w.id not in params:
                loads.add(w.id)
    return loads


def _escapes(clo):
    p = getattr(clo, "_parent", None)
    if isinstance(clo, ast.FunctionDef):
        return True  # a def statement binds a name that outlives the iteration; judged by its use below
    while isinstance(p, (ast.IfExp, ast.BoolOp)):
        p = getattr(p, "_parent", None)
    if isinstance(p, (ast.Assign, ast.AnnAssign, ast.Return, ast.Dict, ast.List, ast.Tuple, ast.Set, ast.keyword)):
        if isinstance(p, ast.keyword):
            return False  # keyword argument of a call: consumed by the callee
        return True
    if isinstance(p, ast.Call):
        f = p.func
        return isinstance(f, ast.Attribute) and f.attr in STORE_CALLS
    return False


def find(fn):
    """[(closure node, loop node, sorted late-bound names)]"""
    out = []
    for loop in [w for w in walk_no_nested(fn) if isinstance(w, (ast.For, ast.While))]:
        bound = _bound_in(loop)
        for st in loop.body:
            for w in ast.walk(st):
                if isinstance(w, ast.Lambda) or (isinstance(w, ast.FunctionDef)):
                    late = sorted(_free_loads(w) & bound)
                    if late and _escapes(w):
                        out.append((w, loop, late))
    return out


# ---------------------------------------------------------------------------------------------------------------------
# hand-written memoisation
# ---------------------------------------------------------------------------------------------------------------------
def stale_memo_closures(fn):
    """Inner functions that return a `nonlocal` variable (a remembered value) which is recomputed only under a guard:
    [(inner def, sorted parameters that reach the recomputation call but not the guard)].
    A parameter that is handed to the wrapped function but does not take part in the 'has anything changed' test is served
    stale when only it changes (the classic: a cache keyed on q for a function of (t, q))."""
    out = []
    for inner in [w for w in ast.walk(fn) if isinstance(w, ast.FunctionDef) and w is not fn]:
        nl = {n for st in inner.body if isinstance(st, ast.Nonlocal) for n in st.names}
        if not nl:
            continue
        rets = [r.value for r in ast.walk(inner) if isinstance(r, ast.Return) and r.value is not None]
        if not any(isinstance(w, ast.Name) and w.id in nl for r in rets for w in ast.walk(r)):
            continue  # counters etc.: the remembered state is not what is handed out
        params = [a.arg for a in inner.args.posonlyargs + inner.args.args + inner.args.kwonlyargs]
        loc = {}
        for st in ast.walk(inner):
            if isinstance(st, ast.Assign) and len(st.targets) == 1 and isinstance(st.targets[0], ast.Name):
                loc.setdefault(st.targets[0].id, []).append(st.value)

        def roots(e, depth=0):
            r = set()
            for w in ast.walk(e):
                if isinstance(w, ast.Name) and isinstance(w.ctx, ast.Load):
                    if w.id in params:
                        r.add(w.id)
                    elif w.id in loc and depth < 4 and w.id not in nl:
                        for v in loc[w.id]:
                            r |= roots(v, depth + 1)
            return r

        for g in [w for w in ast.walk(inner) if isinstance(w, ast.If)]:
            writes = {t.id for st in g.body for w in ast.walk(st) if isinstance(w, ast.Assign) for tt in w.targets
                      for t in (tt.elts if isinstance(tt, (ast.Tuple, ast.List)) else [tt]) if isinstance(t, ast.Name)}
            if not (writes & nl):
                continue
            guard = roots(g.test)
            used = set()
            for st in g.body:
                for c in ast.walk(st):
                    if isinstance(c, ast.Call):
                        for a in list(c.args) + [k.value for k in c.keywords]:
                            used |= roots(a)
            missing = sorted(used - guard)
            if missing:
                out.append((inner, missing))
    return out
