"""K13: dependence monotonicity of stated derivatives.

If a quantity F(q) does not depend on a constant c, none of its derivatives does.  For a primal / derivative pair of one class
the set of *data attributes* (constructor data, reference bases, radii, offsets - with constant subscripts kept apart, e.g.
reference_contact_basis[:, 0] vs [:, 1]) read transitively through the object's own methods and lambdas is computed for both
routines; every data attribute the derivative reads must be one the primal reads.  A derivative that is built from another
datum differentiates another function.  Shape / bookkeeping attributes (DOF tables, counts, names, caches) are not data.
"""
from __future__ import annotations

import ast
import re

from .core import norm_src

SHAPE = re.compile(r"^(_?n(q|u|la_\w+)\d?|_n[qu]\d?|n[qu]\d?|[qu]DOF\d?|la_\w+DOF|my_[qu]DOF|name|xi\d?|nla_\w+|\w*_cache|subsystem\d?|frame|rod|system"
                   r"|nodalDOF\w*|elDOF\w*|n[qu]_element\w*|nnodes\w*|nelement\w*|mesh\w*)$")
OWNER_ATTRS = ("rod",)
OWNER_SHAPE = re.compile(r"^(n(?!quadrature)\w*|nodalDOF\w*|elDOF\w*|[qu]DOF|la_\w+DOF|name|mesh\w*|polynomial_degree\w*)$")


def callable_like(attr_node):
    par = getattr(attr_node, "_parent", None)
    return isinstance(par, ast.Call) and par.func is attr_node


CONST_SUB = re.compile(r"^[\d:,\s\-()]+$")


def deps(view, name, seen=None):
    """{(attribute, constant subscript or None)} read by callable `name` of the class, transitively."""
    seen = seen if seen is not None else set()
    if name in seen:
        return set()
    seen.add(name)
    out = set()
    bodies = view.bodies(name)
    if not bodies:
        for (c, s) in view.stores(name):
            if s.kind == "alias" and isinstance(s.value.value, ast.Name):
                out |= deps(view, s.value.attr, seen)
    for (c, body, kind, sn) in bodies:
        b = body.body if isinstance(body, ast.Lambda) else body
        nodes = ast.walk(b) if not isinstance(b, list) else (w for s in b for w in ast.walk(s))
        for w in nodes:
            if isinstance(w, ast.Attribute) and isinstance(w.value, ast.Name) and w.value.id == sn and isinstance(w.ctx, ast.Load):
                k = view.kind(w.attr)
                par0 = getattr(w, "_parent", None)
                if w.attr in OWNER_ATTRS and isinstance(par0, ast.Attribute) and par0.value is w:
                    # data of the object this element acts on: self.rod.qp, self.rod.J_dyn, ... (index tables and counts are layout,
                    # except the number of quadrature points, which selects the quadrature rule together with qp / qw)
                    nm = par0.attr
                    if not OWNER_SHAPE.match(nm) and not callable_like(par0):
                        par1 = getattr(par0, "_parent", None)
                        sub = None
                        if isinstance(par1, ast.Subscript) and par1.value is par0:
                            t = norm_src(par1.slice)
                            sub = t if CONST_SUB.match(t) else None
                        out.add((f"{w.attr}.{nm}", sub))
                    continue
                if k in ("method", "lambda", "alias"):
                    out |= deps(view, w.attr, seen)
                elif not SHAPE.match(w.attr):
                    par = getattr(w, "_parent", None)
                    sub = None
                    if isinstance(par, ast.Subscript) and par.value is w:
                        t = norm_src(par.slice)
                        sub = t if CONST_SUB.match(t) else None
                    out.add((w.attr, sub))
    return out


def covers(primal_deps, item, prov=None):
    a, sub = item
    # reading the whole attribute in the primal covers every slice of it
    if item in primal_deps or (a, None) in primal_deps:
        return True
    # the derivative takes the whole attribute (e.g. into a local that is sliced later): which part it uses is not known here,
    # so it is covered as soon as the primal reads some part of that attribute (no verdict rather than a guess)
    if sub is None and any(b == a for (b, _) in primal_deps):
        return True
    # two attributes that are both SNAPSHOTS (copies made in the constructor) of the same constructor parameters hold the same
    # data for the life of the object; a plain reference to the caller's object (self.X = X) does not: the caller can change it
    if prov and a in prov and prov[a][1] == "snapshot":
        for (b, _) in primal_deps:
            if b in prov and prov[b][1] == "snapshot" and prov[a][0] and prov[a][0] <= prov[b][0]:
                return True
    return False


def provenance(view):
    """attribute -> (constructor parameters it is computed from, 'live' | 'snapshot') from the stores in __init__."""
    out = {}
    c, init = view.method("__init__")
    if init is None:
        return out
    params = {a.arg for a in init.args.args[1:]} | {a.arg for a in init.args.kwonlyargs}
    sn = init.args.args[0].arg if init.args.args else "self"
    changed = True
    rounds = 0
    while changed and rounds < 5:
        changed = False
        rounds += 1
        for st in ast.walk(init):
            if not (isinstance(st, ast.Assign) and len(st.targets) == 1):
                continue
            t = st.targets[0]
            if not (isinstance(t, ast.Attribute) and isinstance(t.value, ast.Name) and t.value.id == sn):
                continue
            v = st.value
            ps = {w.id for w in ast.walk(v) if isinstance(w, ast.Name) and w.id in params}
            for w in ast.walk(v):
                if isinstance(w, ast.Attribute) and isinstance(w.value, ast.Name) and w.value.id == sn and w.attr in out:
                    ps |= out[w.attr][0]
            live = isinstance(v, ast.Name) and v.id in params
            new = (frozenset(ps), "live" if live else "snapshot")
            if out.get(t.attr) != new:
                out[t.attr] = new
                changed = True
    return out


def check(rep, rule, view, rel, cname, primal, deriv, lineno=0):
    dp, dd = deps(view, primal), deps(view, deriv)
    C = f"{rel}:{cname}.{deriv}"
    if not dp and not dd:
        rep.ok(rule, C, f"{deriv} / {primal}: no data attributes read (nothing to compare)", trivial=True)
        return
    prov = provenance(view)
    extra = sorted((a, s) for (a, s) in dd if not covers(dp, (a, s), prov))
    if extra:
        txt = ", ".join(f"self.{a}" + (f"[{s.strip('()')}]" if s else "") for a, s in extra)
        live = [a for a, s in extra if prov.get(a, (None, None))[1] == "live"]
        why = (f" (self.{live[0]} is the caller's own object, stored by reference in the constructor, while `{primal}` works on copies made at construction: the two "
               "disagree as soon as the caller changes its array)") if live else ""
        rep.bad(rule, C, f"{deriv}: reads {txt}", f"`{deriv}` depends on {txt}, which `{primal}` never reads: a derivative cannot depend on data its primal does not depend on, "
                f"so `{deriv}` differentiates another function than `{primal}`{why}", f"{rel}:{lineno}")
    else:
        rep.ok(rule, C, f"data read by {deriv} ⊆ data read by {primal} ({len(dd)} ⊆ {len(dp)})")


# pairs for which reading more data than the primal is correct, with the reason (confirmed by reading the code)
K5_EXCEPTIONS = {
    ("Frame", "v_P"): "the prescribed motion is supplied together with its time derivatives r_OP_t__, A_IB_t__ (time companions, not data of r_OP)",
    ("Frame", "a_P"): "second time derivatives r_OP_tt__, A_IB_tt__ of the prescribed motion",
    ("Revolute", "l_dot"): "self.axis is the immutable integer from which plane_axes (read by l) is built",
}


def check_k5_pairs(ctx, rule, class_names):
    """K13 over every primal/derivative pair the K5 engine enumerates for the classes (product-rule pairs W_x -> Wla_x_q carry the
    data of the multiplier as well and are skipped)."""
    from . import deriv, protocol
    rep = ctx.rep
    n = 0
    for cname in class_names:
        ci = ctx.model.cls(cname)
        v = ctx.model.variants(ci)[0]
        k5 = deriv.K5(ctx, ci, v)
        view = protocol.ClassView(ctx, ci, v)
        seen = set()
        for (p_, d_, dep) in deriv.pairs_of(k5):
            if d_.startswith("Wla_") or (p_, d_) in seen:
                continue
            seen.add((p_, d_))
            if (cname, d_) in K5_EXCEPTIONS:
                rep.ok(rule, f"{ci.rel}:{cname}.{d_}", f"{p_} -> {d_}: exempt ({K5_EXCEPTIONS[(cname, d_)]})", trivial=True)
                continue
            c_, f_ = view.method(d_)
            check(rep, rule, view, ci.rel, cname, p_, d_, lineno=getattr(f_, "lineno", 0))
            n += 1
    return n
