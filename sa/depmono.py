"""K13: dependence monotonicity of stated derivatives.

If a quantity F(q) does not depend on a constant c, none of its derivatives does.  For a primal / derivative pair of one class
the set of *data attributes* (constructor data, reference bases, radii, offsets - with constant subscripts kept apart, e.g.
reference_contact_basis[:, 0] vs [:, 1]) read transitively through the object's own methods and lambdas is computed for both
routines; every data attribute the derivative reads must be one the primal reads.  A derivative that is built from another
datum differentiates another function.  Shape / bookkeeping attributes (DOF tables, counts, names, caches) are not data.
"""
from __future__ import annotations

import ast
import re

from .core import norm_src

SHAPE = re.compile(r"^(_?n(q|u|la_\w+)\d?|_n[qu]\d?|n[qu]\d?|[qu]DOF\d?|la_\w+DOF|my_[qu]DOF|name|xi\d?|nla_\w+|\w*_cache|subsystem\d?|frame|rod|system)$")
CONST_SUB = re.compile(r"^[\d:,\s\-()]+$")


def deps(view, name, seen=None):
    """{(attribute, constant subscript or None)} read by callable `name` of the class, transitively."""
    seen = seen if seen is not None else set()
    if name in seen:
        return set()
    seen.add(name)
    out = set()
    bodies = view.bodies(name)
    if not bodies:
        for (c, s) in view.stores(name):
            if s.kind == "alias" and isinstance(s.value.value, ast.Name):
                out |= deps(view, s.value.attr, seen)
    for (c, body, kind, sn) in bodies:
        b = body.body if isinstance(body, ast.Lambda) else body
        nodes = ast.walk(b) if not isinstance(b, list) else (w for s in b for w in ast.walk(s))
        for w in nodes:
            if isinstance(w, ast.Attribute) and isinstance(w.value, ast.Name) and w.value.id == sn and isinstance(w.ctx, ast.Load):
                k = view.kind(w.attr)
                if k in ("method", "lambda", "alias"):
                    out |= deps(view, w.attr, seen)
                elif not SHAPE.match(w.attr):
                    par = getattr(w, "_parent", None)
                    sub = None
                    if isinstance(par, ast.Subscript) and par.value is w:
                        t = norm_src(par.slice)
                        sub = t if CONST_SUB.match(t) else None
                    out.add((w.attr, sub))
    return out


def covers(primal_deps, item):
    a, sub = item
    # reading the whole attribute in the primal covers every slice of it
    return item in primal_deps or (a, None) in primal_deps


def check(rep, rule, view, rel, cname, primal, deriv, lineno=0):
    dp, dd = deps(view, primal), deps(view, deriv)
    C = f"{rel}:{cname}.{deriv}"
    if not dp and not dd:
        rep.ok(rule, C, f"{deriv} / {primal}: no data attributes read (nothing to compare)", trivial=True)
        return
    extra = sorted((a, s) for (a, s) in dd if not covers(dp, (a, s)))
    if extra:
        txt = ", ".join(f"self.{a}" + (f"[{s.strip('()')}]" if s else "") for a, s in extra)
        rep.bad(rule, C, f"{deriv}: reads {txt}", f"`{deriv}` depends on {txt}, which `{primal}` never reads: a derivative cannot depend on data its primal does not depend on, "
                f"so `{deriv}` differentiates another function than `{primal}`", f"{rel}:{lineno}")
    else:
        rep.ok(rule, C, f"data read by {deriv} ⊆ data read by {primal} ({len(dd)} ⊆ {len(dp)})")
