"""K9 two-body block typing and polarity (joints, Sphere2Sphere, TwoPointInteraction, Revolute's scalar interface).

Code that couples subsystem 1 and subsystem 2 stores into blocks  X[rows, cols]  whose slices are split at nu1 / nq1.
 * typing   : a block whose column slice selects the coordinates of body c may only contain q-derivative companions of body c
              (names ..._q<c>); a block whose row slice selects the velocities of body r may only contain velocity Jacobians of
              body r (J_J<r>, J_R<r>, J_C<r>, J<r>_R, J_P<r>, ..._u<r>).  The same holds position-wise for two-element
              concatenations np.concatenate / np.hstack([part1, part2]).
 * polarity : the constraint / gap / slip quantities depend on the RELATIVE kinematics of the two bodies; within one class the
              sign with which body-2 terms enter relative to body-1 terms (per kinematic family: point P, rotation R) must be
              the same in the primal and in every derivative routine in which it is syntactically determined (chain rule:
              d(a2 - a1) = a2_q2 dq2 - a1_q1 dq1).
Both are necessary conditions of "the stated derivative is the true derivative"; neither decides coefficients.
"""
from __future__ import annotations

import ast
import re

from .core import dotted, norm_src, walk_no_nested

SPLIT_U = re.compile(r"^(self\.)?_?nu1$")
SPLIT_Q = re.compile(r"^(self\.)?_?nq1$")


def slice_tag(sl):
    """('u'|'q', 1|2) for :nu1 / nu1: / :nq1 / nq1: ; None otherwise."""
    if not isinstance(sl, ast.Slice) or sl.step is not None:
        return None
    if sl.lower is None and sl.upper is not None:
        s = norm_src(sl.upper)
        if SPLIT_U.match(s):
            return ("u", 1)
        if SPLIT_Q.match(s):
            return ("q", 1)
    if sl.upper is None and sl.lower is not None:
        s = norm_src(sl.lower)
        if SPLIT_U.match(s):
            return ("u", 2)
        if SPLIT_Q.match(s):
            return ("q", 2)
    return None


# name -> set of tags
Q_RE = re.compile(r"_q([12])(?:_|$)")
U_RE = re.compile(r"_u([12])(?:_|$)")
JAC_RE = [re.compile(p) for p in (r"^J_J([12])", r"^J_R([12])", r"^J_C([12])", r"^J([12])_R", r"^J_P([12])")]
# primal kinematic families (for polarity): family, body
FAM_RE = [
    ("P", re.compile(r"^(?:r_OJ|v_J|a_J|J_J|r_OC|v_C|a_C|J_C|r_OP|v_P|J_P)([12])")),
    ("R", re.compile(r"^(?:Omega|Psi|J_R)([12])")),
    ("R", re.compile(r"^J([12])_R")),
    # joint / contact basis carried by body k: only its differentiated forms (A_IJ1_q1, ...) count in derivative routines
    ("B", re.compile(r"^A_I[JK]([12])")),
]


def name_tags(name):
    tags = set()
    for m in Q_RE.finditer(name):
        tags.add(("q", int(m.group(1))))
    if name.endswith("_q") and re.search(r"[A-Za-z]([12])_q$", name):  # r_OP1_q (TwoPointInteraction)
        tags.add(("q", int(re.search(r"([12])_q$", name).group(1))))
    for m in U_RE.finditer(name):
        tags.add(("u", int(m.group(1))))
    for r in JAC_RE:
        m = r.match(name)
        if m:
            tags.add(("u", int(m.group(1))))
    return tags


def family_of(name):
    for fam, r in FAM_RE:
        m = r.match(name)
        if m:
            return fam, int(m.group(1))
    return None


class FnInfo:
    """per function: local name -> tags / families inherited from the self.<callable>(...) calls in its definition."""

    def __init__(self, fn, selfname="self"):
        self.fn = fn
        self.sn = selfname
        self.ltags = {}
        self.lfam = {}
        self.lsign = {}
        changed = True
        n_it = 0
        while changed and n_it < 6:
            changed = False
            n_it += 1
            for n in walk_no_nested(fn):
                if isinstance(n, ast.Assign) and len(n.targets) == 1:
                    tg = n.targets[0]
                    names = [tg] if isinstance(tg, ast.Name) else ([e for e in tg.elts if isinstance(e, ast.Name)] if isinstance(tg, ast.Tuple) else [])
                    if not names:
                        continue
                    tags = self.expr_tags(n.value)
                    fams = self.expr_fams(n.value)
                    for nm in names:
                        if isinstance(tg, ast.Tuple):
                            # n_q1, n_q2 = self._n_q(t, q): tags by the local's own name
                            t2 = name_tags(nm.id)
                            f2 = set()
                        else:
                            t2, f2 = tags | name_tags(nm.id), fams
                        if t2 - self.ltags.get(nm.id, set()):
                            self.ltags[nm.id] = self.ltags.get(nm.id, set()) | t2
                            changed = True
                        if f2 - self.lfam.get(nm.id, set()):
                            self.lfam[nm.id] = self.lfam.get(nm.id, set()) | f2
                            changed = True

    def atom_names(self, e):
        """names of self.<X> attributes (called or not) and locals inside e."""
        for n in ast.walk(e):
            if isinstance(n, ast.Attribute) and isinstance(n.value, ast.Name) and n.value.id == self.sn:
                yield ("attr", n.attr, n)
            elif isinstance(n, ast.Name) and isinstance(n.ctx, ast.Load):
                yield ("local", n.id, n)

    def expr_tags(self, e):
        tags = set()
        for kind, nm, _ in self.atom_names(e):
            if kind == "attr":
                tags |= name_tags(nm)
            else:
                tags |= self.ltags.get(nm, set())
        return tags

    def expr_fams(self, e):
        f = set()
        for kind, nm, _ in self.atom_names(e):
            if kind == "attr":
                x = family_of(nm)
                if x:
                    f.add(x)
            else:
                f |= self.lfam.get(nm, set())
        return f


def typed_stores(fn):
    """(stmt, target subscript, row tag, col tag, value) for stores into blocks split at nu1/nq1."""
    out = []
    for n in walk_no_nested(fn):
        tg = None
        if isinstance(n, ast.Assign) and len(n.targets) == 1 and isinstance(n.targets[0], ast.Subscript):
            tg = n.targets[0]
        elif isinstance(n, ast.AugAssign) and isinstance(n.target, ast.Subscript):
            tg = n.target
        if tg is None:
            continue
        sl = tg.slice
        elts = list(sl.elts) if isinstance(sl, ast.Tuple) else [sl]
        tags = [slice_tag(e) for e in elts]
        if any(t is not None for t in tags):
            out.append((n, tg, tags, n.value))
    return out


def check_typing(rep, rule, C, rel, fn, selfname="self"):
    info = FnInfo(fn, selfname)
    n = 0
    for stmt, tg, tags, value in typed_stores(fn):
        n += 1
        vt = info.expr_tags(value)
        bad = []
        for t in tags:
            if t is None:
                continue
            kind, body = t
            other = 3 - body
            if (kind, other) in vt:
                bad.append((t, (kind, other)))
        if bad:
            t, o = bad[0]
            culprit = sorted(nm for k, nm, _ in info.atom_names(value) if o in (name_tags(nm) if k == "attr" else info.ltags.get(nm, set())))
            rep.bad(rule, C, stmt, f"block `{norm_src(tg)}` selects the {'coordinates' if t[0] == 'q' else 'velocities'} of body {t[1]} but its value contains "
                    f"{culprit}, a {'q' if o[0] == 'q' else 'u'}-derivative quantity of body {o[1]}", f"{rel}:{stmt.lineno}")
        else:
            rep.ok(rule, C, f"{norm_src(tg)} <- tags {sorted(vt)}")
    # two-element concatenations: position 0 <-> body 1, position 1 <-> body 2
    for c in walk_no_nested(fn):
        if isinstance(c, ast.Call) and (dotted(c.func) or "").split(".")[-1] in ("concatenate", "hstack") and c.args \
                and isinstance(c.args[0], (ast.Tuple, ast.List)) and len(c.args[0].elts) == 2:
            parts = c.args[0].elts
            t0, t1 = info.expr_tags(parts[0]), info.expr_tags(parts[1])
            b0 = {b for (_, b) in t0}
            b1 = {b for (_, b) in t1}
            if not (b0 or b1) or b0 == b1:
                continue  # not a body-1 | body-2 concatenation (e.g. two rows of the same body)
            n += 1
            if (2 in b0 and 1 not in b0) or (1 in b1 and 2 not in b1):
                rep.bad(rule, C, c, f"two-body concatenation `{norm_src(c)[:100]}`: the first part must hold body-1 quantities and the second body-2 quantities "
                        f"(found bodies {sorted(b0)} and {sorted(b1)})", f"{rel}:{c.lineno}")
            else:
                rep.ok(rule, C, f"concatenation parts carry bodies {sorted(b0)} | {sorted(b1)}")
    return n


# ------------------------------------------------------------------ polarity
def csign(e, defs=None, depth=0):
    """syntactic sign of a cofactor: -x, (-a) * b, ax2skew(-a), ... (linear wrappers keep the sign of their argument)."""
    if isinstance(e, ast.UnaryOp) and isinstance(e.op, ast.USub):
        return -csign(e.operand, defs, depth)
    if isinstance(e, ast.BinOp) and isinstance(e.op, ast.MatMult):
        # row vector times skew matrix: u @ ax2skew(x) = cross3(u, x); canonical argument order (see cross3 below)
        r = e.right
        if isinstance(r, ast.Call) and (dotted(r.func) or "").split(".")[-1] == "ax2skew" and len(r.args) == 1:
            o = _cross_order(e.left, r.args[0])
            if o is not None:
                return csign(e.left, defs, depth) * csign(r.args[0], defs, depth) * o
    if isinstance(e, ast.BinOp) and isinstance(e.op, (ast.Mult, ast.MatMult, ast.Div)):
        return csign(e.left, defs, depth) * csign(e.right, defs, depth)
    if isinstance(e, ast.Call) and (dotted(e.func) or "").split(".")[-1] in ("cross3", "cross") and len(e.args) == 2:
        # the cross product is antisymmetric: cross3(a, b) = -cross3(b, a).  Both spellings get the sign of the spelling
        # with the arguments in name order, so that a rewrite that swaps the arguments AND the written sign is neutral.
        o = _cross_order(e.args[0], e.args[1])
        return csign(e.args[0], defs, depth) * csign(e.args[1], defs, depth) * (o if o is not None else 1)
    if isinstance(e, ast.Call) and (dotted(e.func) or "").split(".")[-1] in ("ax2skew", "array", "asarray", "transpose") and len(e.args) == 1:
        return csign(e.args[0], defs, depth)
    if isinstance(e, ast.Attribute) and e.attr == "T":
        return csign(e.value, defs, depth)
    if isinstance(e, ast.Subscript):
        return csign(e.value, defs, depth)
    if isinstance(e, ast.Name) and defs and depth < 8:
        d = defs.get(e.id)
        if d and len(d) == 1 and d[0] is not None:
            return csign(d[0], defs, depth + 1)
    return 1


def _cross_order(a, b):
    """+1 / -1 when both arguments are plain names (after stripping signs and subscripts) and differ; None otherwise."""
    def nm(x):
        while isinstance(x, ast.UnaryOp) and isinstance(x.op, ast.USub):
            x = x.operand
        while isinstance(x, ast.Subscript):
            x = x.value
        return x.id if isinstance(x, ast.Name) else None
    na, nb = nm(a), nm(b)
    if na is None or nb is None or na == nb:
        return None
    return 1 if na < nb else -1


def _strip_sign(e):
    while isinstance(e, ast.UnaryOp) and isinstance(e.op, ast.USub):
        e = e.operand
    return e


def _sign_of_siblings(call, arg, defs=None):
    s = 1
    for a in call.args:
        if a is arg:
            continue
        s *= csign(a, defs)
    return s


LINEAR_CALLS = {"einsum", "cross3", "outer", "ax2skew", "hstack", "vstack", "concatenate", "array", "dot", "reshape", "asarray", "cross"}


DERIV_NAME = re.compile(r"(_q|_u|_q1_q2)$|^(W_|Wla_)")


class ViaName(str):
    """name of an occurrence reached THROUGH a tuple-returning helper of the same class (n_q1, n_q2 = self.n_q1_q2(t, q)): `via` names the
    helper chain.  Such occurrences form their own polarity group: the helper's outputs already carry the sign of their body."""
    via = ""


def occurrences(info: FnInfo, fn, tagged_only=None, helpers=None, roots=None, _depth=0):
    """[(family, body, sign, stmt, name)] for the occurrences of body-indexed kinematic names in the statements that build the
    routine's result (subscript stores, augmented stores, return values); locals are inlined through their single
    definition with the sign of the path.  In derivative routines only the *differentiated* factors count, i.e. names that
    carry a q/u tag of a body (..._q1, J_J2, ...): undifferentiated cofactors such as r_J1J2 mix both bodies by nature."""
    if tagged_only is None:
        tagged_only = bool(DERIV_NAME.search(getattr(fn, "name", "")))
    out = []
    defs = {}
    scalar_locals = set()
    for n in walk_no_nested(fn):
        if isinstance(n, ast.Assign) and len(n.targets) == 1 and isinstance(n.targets[0], ast.Name):
            defs.setdefault(n.targets[0].id, []).append(n.value)
            v = n.value
            if isinstance(v, ast.UnaryOp) and isinstance(v.op, ast.USub):
                v = v.operand
            if isinstance(v, ast.Constant) and isinstance(v.value, (int, float)):
                scalar_locals.add(n.targets[0].id)
        elif isinstance(n, ast.AugAssign) and isinstance(n.target, ast.Name):
            defs.setdefault(n.target.id, []).extend([None, None])  # accumulated local: not inlined
    tdefs = {}
    if helpers and _depth < 3:
        for n in walk_no_nested(fn):
            if isinstance(n, ast.Assign) and len(n.targets) == 1 and isinstance(n.targets[0], ast.Tuple) and isinstance(n.value, ast.Call) \
                    and isinstance(n.value.func, ast.Attribute) and isinstance(n.value.func.value, ast.Name) and n.value.func.value.id == info.sn:
                h = helpers.get(n.value.func.attr)
                if h is None or h is fn:
                    continue
                rets = [r for r in walk_no_nested(h) if isinstance(r, ast.Return)]
                if len(rets) != 1 or not isinstance(rets[0].value, ast.Tuple) or len(rets[0].value.elts) != len(n.targets[0].elts):
                    continue
                for k, a in enumerate(n.targets[0].elts):
                    if isinstance(a, ast.Name):
                        tdefs.setdefault(a.id, []).append((h, rets[0].value.elts[k], n.value.func.attr))

    def unknown_scalar(e):
        return isinstance(e, ast.Name) and e.id in scalar_locals

    def emit(name, sign, stmt):
        fam = family_of(name)
        if not fam:
            return
        if tagged_only and not name_tags(name):
            return
        out.append((fam[0], fam[1], sign, stmt, name))

    def rec(e, sign, stmt, depth=0):
        if depth > 12:
            return
        if isinstance(e, ast.UnaryOp) and isinstance(e.op, ast.USub):
            rec(e.operand, -sign, stmt, depth)
        elif isinstance(e, ast.BinOp):
            if isinstance(e.op, ast.Add):
                rec(e.left, sign, stmt, depth)
                rec(e.right, sign, stmt, depth)
            elif isinstance(e.op, ast.Sub):
                rec(e.left, sign, stmt, depth)
                rec(e.right, -sign, stmt, depth)
            elif isinstance(e.op, (ast.Mult, ast.MatMult, ast.Div)):
                # explicit negation of the cofactor flips the polarity of the other operand
                # the sign of each operand is the sign of its cofactor times the path sign; the operand's own leading minus
                # is handled when it is visited
                if unknown_scalar(e.left) or unknown_scalar(e.right):
                    sign = 0
                rec(e.left, sign * csign(e.right, defs), stmt, depth)
                if not isinstance(e.op, ast.Div):
                    rec(e.right, sign * csign(e.left, defs), stmt, depth)
        elif isinstance(e, ast.Call):
            f = (dotted(e.func) or "").split(".")[-1]
            if isinstance(e.func, ast.Attribute) and isinstance(e.func.value, ast.Name) and e.func.value.id == info.sn:
                emit(e.func.attr, sign, stmt)
                return
            if not f and isinstance(e.func, ast.Attribute) and e.func.attr in ("reshape", "transpose", "copy", "squeeze"):
                rec(e.func.value, sign, stmt, depth)  # (...).reshape(...)
                return
            if f in LINEAR_CALLS:
                for a in e.args:
                    if isinstance(a, (ast.List, ast.Tuple)):
                        for x in a.elts:
                            rec(x, sign, stmt, depth)
                    else:
                        rec(a, sign * _sign_of_siblings(e, a, defs), stmt, depth)
        elif isinstance(e, ast.Attribute):
            if e.attr == "T":
                rec(e.value, sign, stmt, depth)
        elif isinstance(e, ast.Subscript):
            rec(e.value, sign, stmt, depth)
        elif isinstance(e, ast.Name):
            d = defs.get(e.id)
            if d and len(d) == 1 and d[0] is not None:
                rec(d[0], sign, stmt, depth + 1)
            elif e.id in tdefs and len(tdefs[e.id]) == 1 and e.id not in defs:
                h, elt, hname = tdefs[e.id][0]
                for (f_, b_, sg_, _st, nm_) in occurrences(FnInfo(h, info.sn), h, tagged_only=True, helpers=helpers, roots=[elt], _depth=_depth + 1):
                    v = ViaName(nm_)
                    v.via = hname + ("/" + nm_.via if getattr(nm_, "via", "") else "")
                    out.append((f_, b_, sign * sg_, stmt, v))
        elif isinstance(e, (ast.List, ast.Tuple)):
            for x in e.elts:
                rec(x, sign, stmt, depth)

    if roots is not None:
        for r_ in roots:
            rec(r_, 1, r_)
        return out
    for n in walk_no_nested(fn):
        if isinstance(n, ast.Assign) and len(n.targets) == 1 and isinstance(n.targets[0], ast.Subscript):
            rec(n.value, 1, n)
        elif isinstance(n, ast.AugAssign) and isinstance(n.target, ast.Subscript):
            rec(n.value, -1 if isinstance(n.op, ast.Sub) else 1, n)
        elif isinstance(n, ast.Return) and n.value is not None:
            rec(n.value, 1, n)
    return out


def relative_polarity(info, fn, helpers=None):
    """{(family, tag kind): rho} with rho = sign(body 2)/sign(body 1) when both are determinate in fn (all occurrences of that
    kind agree).  Tag kind = which derivative tags the name carries ('', 'q', 'u', 'qu'): a second-derivative routine mixes
    d(J)/dq terms and J * d(n)/dq terms, whose signs are judged separately."""
    occ = occurrences(info, fn, helpers=helpers)
    groups = {}
    for (f, b, sg, st, nm) in occ:
        kinds = "".join(sorted({k for (k, _) in name_tags(nm)}))
        if getattr(nm, "via", ""):
            kinds += " via " + nm.via
        groups.setdefault((f, kinds), {1: set(), 2: set()})[b].add(sg)
    res = {}
    for key, s in groups.items():
        if len(s[1]) == 1 and len(s[2]) == 1:
            res[key] = list(s[2])[0] * list(s[1])[0]
        elif s[1] or s[2]:
            res[key] = None
    return res, occ


def check_polarity(rep, rule, ci, methods, rel=None, families=("P", "R"), helpers=None):
    """all methods of one derivative family in which the body-2 : body-1 sign ratio is syntactically determinate agree."""
    rel = rel or ci.rel
    seen = {}
    for name in methods:
        fn = ci.methods.get(name)
        if fn is None:
            continue
        info = FnInfo(fn)
        res, occ = relative_polarity(info, fn, helpers=helpers)
        for (fam, kinds), rho in res.items():
            if rho in (None, 0) or fam not in families:
                continue
            seen.setdefault(fam, []).append((name + (f" [{kinds}-tagged terms]" if kinds else ""), rho, fn))
    n = 0
    for fam, lst in seen.items():
        ref_name, ref, _ = lst[0]
        for name, rho, fn in lst:
            n += 1
            C = f"{rel}:{ci.qual}.{name.split(' ')[0]}"
            label = {"P": "point/translational", "R": "rotational", "B": "basis-derivative"}[fam]
            if rho == ref:
                rep.ok(rule, C, f"{label} terms of body 2 enter with relative sign {rho:+d} to those of body 1 (as in `{ref_name}`)")
            else:
                rep.bad(rule, C, f"{label} polarity {rho:+d}", f"in `{name}` the {label} terms of body 2 enter with relative sign {rho:+d} to those of body 1, but "
                        f"{ref:+d} in `{ref_name}`: the quantity depends on the relative kinematics, so one block has the wrong sign", f"{rel}:{fn.lineno}")
    return n


def signed_calls(expr, defs=None, sign=1):
    """[(dotted callee, sign, call node)] for every call `a.b.c(...)` inside expr with the syntactic sign of its path
    (+, -, unary minus, products with negated cofactors, linear wrappers)."""
    out = []
    defs = defs or {}

    def rec(e, sg, depth=0):
        if depth > 10:
            return
        if isinstance(e, ast.UnaryOp) and isinstance(e.op, ast.USub):
            rec(e.operand, -sg, depth)
        elif isinstance(e, ast.BinOp):
            if isinstance(e.op, ast.Add):
                rec(e.left, sg, depth)
                rec(e.right, sg, depth)
            elif isinstance(e.op, ast.Sub):
                rec(e.left, sg, depth)
                rec(e.right, -sg, depth)
            elif isinstance(e.op, (ast.Mult, ast.MatMult, ast.Div)):
                rec(e.left, sg * csign(e.right, defs), depth)
                if not isinstance(e.op, ast.Div):
                    rec(e.right, sg * csign(e.left, defs), depth)
            elif isinstance(e.op, ast.Pow):
                pass
        elif isinstance(e, ast.Call):
            d = dotted(e.func)
            f = (d or "").split(".")[-1]
            if d and (d.startswith("self.") or d.startswith("object.")):
                out.append((d, sg, e))
                return
            if not d and isinstance(e.func, ast.Attribute) and e.func.attr in ("reshape", "transpose", "copy", "squeeze", "ravel", "flatten"):
                rec(e.func.value, sg, depth)
                return
            if f in LINEAR_CALLS:
                for a in e.args:
                    if isinstance(a, (ast.List, ast.Tuple)):
                        for x in a.elts:
                            rec(x, sg, depth)
                    elif not (isinstance(a, ast.Constant) and isinstance(a.value, str)):
                        rec(a, sg * _sign_of_siblings(e, a, defs), depth)
        elif isinstance(e, ast.Attribute) and e.attr == "T":
            rec(e.value, sg, depth)
        elif isinstance(e, ast.Subscript):
            rec(e.value, sg, depth)
        elif isinstance(e, ast.Name):
            d = defs.get(e.id)
            if d and len(d) == 1 and d[0] is not None:
                rec(d[0], sg, depth + 1)
        elif isinstance(e, (ast.List, ast.Tuple)):
            for x in e.elts:
                rec(x, sg, depth)

    rec(expr, sign)
    return out


# ---------------------------------------------------------------------------------------------------------------------
# row-group polarity (frozen reference)
# ---------------------------------------------------------------------------------------------------------------------
def rowgroup_polarity(info, fn):
    """{(row text, family, tag kind): rho}: like relative_polarity, but per block row of the result.  The body-1 block and the
    body-2 block of one row are written by different statements (`X[row, :nq1] = ...`, `X[row, nq1:] = ...`); statements are
    grouped by the text of the row subscript, so translation rows and orientation rows of one routine are judged separately."""
    occ = occurrences(info, fn)
    groups = {}
    for (f, b, sg, st, nm) in occ:
        tg = st.targets[0] if isinstance(st, ast.Assign) else getattr(st, "target", None)
        if not isinstance(tg, ast.Subscript):
            continue
        sl = tg.slice
        row = norm_src(sl.elts[0]) if isinstance(sl, ast.Tuple) and sl.elts else norm_src(sl)
        kinds = "".join(sorted({k for (k, _) in name_tags(nm)}))
        groups.setdefault((row, f, kinds), {1: set(), 2: set()})[b].add(sg)
    res = {}
    for key, s in groups.items():
        if len(s[1]) == 1 and len(s[2]) == 1 and 0 not in s[1] | s[2]:
            res[key] = list(s[2])[0] * list(s[1])[0]
    return res


def check_rowgroup_polarity(rep, rule, ci, methods, reference, rel=None):
    """Compare the determinate row-group polarities with the table frozen when the instances were confirmed (by hand, from the
    formulas) on the pinned tree.  A row group that is no longer determinate or no longer exists is not compared."""
    rel = rel or ci.rel
    n = 0
    for name in methods:
        fn = ci.methods.get(name)
        if fn is None:
            continue
        res = rowgroup_polarity(FnInfo(fn), fn)
        for (row, fam, kinds), rho in sorted(res.items()):
            want = reference.get((ci.qual, name, row, fam, kinds))
            if want is None:
                continue
            n += 1
            C = f"{rel}:{ci.qual}.{name}"
            label = {"P": "point/translational", "R": "rotational", "B": "basis-derivative"}[fam]
            if rho == want:
                rep.ok(rule, C, f"rows [{row}]: {label} {kinds or 'primal'} terms of body 2 : body 1 have relative sign {rho:+d}")
            else:
                rep.bad(rule, C, f"rows [{row}]: {label} polarity {rho:+d}", f"in the rows `[{row}]` of `{name}` the {label} terms of body 2 enter with relative sign {rho:+d} "
                        f"to those of body 1; the derivative of the relative quantity requires {want:+d} (after writing cross products in canonical argument order): "
                        "one of the two blocks has the wrong sign", f"{rel}:{fn.lineno}")
    return n
