"""K9 two-body block typing and polarity (joints, Sphere2Sphere, TwoPointInteraction, Revolute's scalar interface).

Code that couples subsystem 1 and subsystem 2 stores into blocks  X[rows, cols]  whose slices are split at nu1 / nq1.
 * typing   : a block whose column slice selects the coordinates of body c may only contain q-derivative companions of body c
              (names ..._q<c>); a block whose row slice selects the velocities of body r may only contain velocity Jacobians of
              body r (J_J<r>, J_R<r>, J_C<r>, J<r>_R, J_P<r>, ..._u<r>).  The same holds position-wise for two-element
              concatenations np.concatenate / np.hstack([part1, part2]).
 * polarity : the constraint / gap / slip quantities depend on the RELATIVE kinematics of the two bodies; within one class the
              sign with which body-2 terms enter relative to body-1 terms (per kinematic family: point P, rotation R) must be
              the same in the primal and in every derivative routine in which it is syntactically determined (chain rule:
              d(a2 - a1) = a2_q2 dq2 - a1_q1 dq1).
Both are necessary conditions of "the stated derivative is the true derivative"; neither decides coefficients.
"""
from __future__ import annotations

import ast
import re

from .core import dotted, norm_src, walk_no_nested

SPLIT_U = re.compile(r"^(self\.)?_?nu1$")
SPLIT_Q = re.compile(r"^(self\.)?_?nq1$")


def slice_tag(sl):
    """('u'|'q', 1|2) for :nu1 / nu1: / :nq1 / nq1: ; None otherwise."""
    if not isinstance(sl, ast.Slice) or sl.step is not None:
        return None
    if sl.lower is None and sl.upper is not None:
        s = norm_src(sl.upper)
        if SPLIT_U.match(s):
            return ("u", 1)
        if SPLIT_Q.match(s):
            return ("q", 1)
    if sl.upper is None and sl.lower is not None:
        s = norm_src(sl.lower)
        if SPLIT_U.match(s):
            return ("u", 2)
        if SPLIT_Q.match(s):
            return ("q", 2)
    return None


# name -> set of tags
Q_RE = re.compile(r"_q([12])(?:_|$)")
U_RE = re.compile(r"_u([12])(?:_|$)")
JAC_RE = [re.compile(p) for p in (r"^J_J([12])", r"^J_R([12])", r"^J_C([12])", r"^J([12])_R", r"^J_P([12])")]
# primal kinematic families (for polarity): family, body
FAM_RE = [
    ("P", re.compile(r"^(?:r_OJ|v_J|a_J|J_J|r_OC|v_C|a_C|J_C|r_OP|v_P|J_P)([12])")),
    ("R", re.compile(r"^(?:Omega|Psi|J_R)([12])")),
    ("R", re.compile(r"^J([12])_R")),
]


def name_tags(name):
    tags = set()
    for m in Q_RE.finditer(name):
        tags.add(("q", int(m.group(1))))
    if name.endswith("_q") and re.search(r"[A-Za-z]([12])_q$", name):  # r_OP1_q (TwoPointInteraction)
        tags.add(("q", int(re.search(r"([12])_q$", name).group(1))))
    for m in U_RE.finditer(name):
        tags.add(("u", int(m.group(1))))
    for r in JAC_RE:
        m = r.match(name)
        if m:
            tags.add(("u", int(m.group(1))))
    return tags


def family_of(name):
    for fam, r in FAM_RE:
        m = r.match(name)
        if m:
            return fam, int(m.group(1))
    return None


class FnInfo:
    """per function: local name -> tags / families inherited from the self.<callable>(...) calls in its definition."""

    def __init__(self, fn, selfname="self"):
        self.fn = fn
        self.sn = selfname
        self.ltags = {}
        self.lfam = {}
        self.lsign = {}
        changed = True
        n_it = 0
        while changed and n_it < 6:
            changed = False
            n_it += 1
            for n in walk_no_nested(fn):
                if isinstance(n, ast.Assign) and len(n.targets) == 1:
                    tg = n.targets[0]
                    names = [tg] if isinstance(tg, ast.Name) else ([e for e in tg.elts if isinstance(e, ast.Name)] if isinstance(tg, ast.Tuple) else [])
                    if not names:
                        continue
                    tags = self.expr_tags(n.value)
                    fams = self.expr_fams(n.value)
                    for nm in names:
                        if isinstance(tg, ast.Tuple):
                            # n_q1, n_q2 = self._n_q(t, q): tags by the local's own name
                            t2 = name_tags(nm.id)
                            f2 = set()
                        else:
                            t2, f2 = tags | name_tags(nm.id), fams
                        if t2 - self.ltags.get(nm.id, set()):
                            self.ltags[nm.id] = self.ltags.get(nm.id, set()) | t2
                            changed = True
                        if f2 - self.lfam.get(nm.id, set()):
                            self.lfam[nm.id] = self.lfam.get(nm.id, set()) | f2
                            changed = True

    def atom_names(self, e):
        """names of self.<X> attributes (called or not) and locals inside e."""
        for n in ast.walk(e):
            if isinstance(n, ast.Attribute) and isinstance(n.value, ast.Name) and n.value.id == self.sn:
                yield ("attr", n.attr, n)
            elif isinstance(n, ast.Name) and isinstance(n.ctx, ast.Load):
                yield ("local", n.id, n)

    def expr_tags(self, e):
        tags = set()
        for kind, nm, _ in self.atom_names(e):
            if kind == "attr":
                tags |= name_tags(nm)
            else:
                tags |= self.ltags.get(nm, set())
        return tags

    def expr_fams(self, e):
        f = set()
        for kind, nm, _ in self.atom_names(e):
            if kind == "attr":
                x = family_of(nm)
                if x:
                    f.add(x)
            else:
                f |= self.lfam.get(nm, set())
        return f


def typed_stores(fn):
    """(stmt, target subscript, row tag, col tag, value) for stores into blocks split at nu1/nq1."""
    out = []
    for n in walk_no_nested(fn):
        tg = None
        if isinstance(n, ast.Assign) and len(n.targets) == 1 and isinstance(n.targets[0], ast.Subscript):
            tg = n.targets[0]
        elif isinstance(n, ast.AugAssign) and isinstance(n.target, ast.Subscript):
            tg = n.target
        if tg is None:
            continue
        sl = tg.slice
        elts = list(sl.elts) if isinstance(sl, ast.Tuple) else [sl]
        tags = [slice_tag(e) for e in elts]
        if any(t is not None for t in tags):
            out.append((n, tg, tags, n.value))
    return out


def check_typing(rep, rule, C, rel, fn, selfname="self"):
    info = FnInfo(fn, selfname)
    n = 0
    for stmt, tg, tags, value in typed_stores(fn):
        n += 1
        vt = info.expr_tags(value)
        bad = []
        for t in tags:
            if t is None:
                continue
            kind, body = t
            other = 3 - body
            if (kind, other) in vt:
                bad.append((t, (kind, other)))
        if bad:
            t, o = bad[0]
            culprit = sorted(nm for k, nm, _ in info.atom_names(value) if o in (name_tags(nm) if k == "attr" else info.ltags.get(nm, set())))
            rep.bad(rule, C, stmt, f"block `{norm_src(tg)}` selects the {'coordinates' if t[0] == 'q' else 'velocities'} of body {t[1]} but its value contains "
                    f"{culprit}, a {'q' if o[0] == 'q' else 'u'}-derivative quantity of body {o[1]}", f"{rel}:{stmt.lineno}")
        else:
            rep.ok(rule, C, f"{norm_src(tg)} <- tags {sorted(vt)}")
    # two-element concatenations: position 0 <-> body 1, position 1 <-> body 2
    for c in walk_no_nested(fn):
        if isinstance(c, ast.Call) and (dotted(c.func) or "").split(".")[-1] in ("concatenate", "hstack", "vstack") and c.args \
                and isinstance(c.args[0], (ast.Tuple, ast.List)) and len(c.args[0].elts) == 2:
            parts = c.args[0].elts
            t0, t1 = info.expr_tags(parts[0]), info.expr_tags(parts[1])
            b0 = {b for (_, b) in t0}
            b1 = {b for (_, b) in t1}
            if not (b0 or b1):
                continue
            n += 1
            if (2 in b0 and 1 not in b0) or (1 in b1 and 2 not in b1) or (b0 and b0 == b1):
                rep.bad(rule, C, c, f"two-body concatenation `{norm_src(c)[:100]}`: the first part must hold body-1 quantities and the second body-2 quantities "
                        f"(found bodies {sorted(b0)} and {sorted(b1)})", f"{rel}:{c.lineno}")
            else:
                rep.ok(rule, C, f"concatenation parts carry bodies {sorted(b0)} | {sorted(b1)}")
    return n


# ------------------------------------------------------------------ polarity
def _sign_of_siblings(call, arg):
    s = 1
    for a in call.args:
        if a is arg:
            continue
        if isinstance(a, ast.UnaryOp) and isinstance(a.op, ast.USub):
            s = -s
        elif isinstance(a, ast.BinOp) and isinstance(a.op, ast.Mult) and isinstance(a.left, ast.UnaryOp) and isinstance(a.left.op, ast.USub):
            s = -s  # -la_g[3 + i] * n
    return s


LINEAR_CALLS = {"einsum", "cross3", "outer", "ax2skew", "hstack", "vstack", "concatenate", "array", "dot", "reshape", "asarray", "cross"}


def occurrences(info: FnInfo, fn):
    """[(family, body, sign, stmt)] for every occurrence of a body-tagged kinematic name in a statement's value; the sign is the
    product of syntactic signs on the path from the statement's value root (locals defined as -expr are followed)."""
    out = []
    neg_locals = {}
    for n in walk_no_nested(fn):
        if isinstance(n, ast.Assign) and len(n.targets) == 1 and isinstance(n.targets[0], ast.Name):
            v = n.value
            if isinstance(v, ast.UnaryOp) and isinstance(v.op, ast.USub):
                neg_locals[n.targets[0].id] = -1

    def rec(e, sign, stmt):
        if isinstance(e, ast.UnaryOp) and isinstance(e.op, ast.USub):
            rec(e.operand, -sign, stmt)
        elif isinstance(e, ast.BinOp):
            if isinstance(e.op, ast.Add):
                rec(e.left, sign, stmt)
                rec(e.right, sign, stmt)
            elif isinstance(e.op, ast.Sub):
                rec(e.left, sign, stmt)
                rec(e.right, -sign, stmt)
            elif isinstance(e.op, (ast.Mult, ast.MatMult, ast.Div)):
                # explicit negation of the cofactor flips the polarity of the other operand
                ls = -1 if isinstance(e.left, ast.UnaryOp) and isinstance(e.left.op, ast.USub) else 1
                rs = -1 if isinstance(e.right, ast.UnaryOp) and isinstance(e.right.op, ast.USub) else 1
                rec(e.left.operand if ls == -1 else e.left, sign * ls * rs, stmt)
                if not isinstance(e.op, ast.Div):
                    rec(e.right.operand if rs == -1 else e.right, sign * ls * rs, stmt)
        elif isinstance(e, ast.Call):
            f = (dotted(e.func) or "").split(".")[-1]
            if isinstance(e.func, ast.Attribute) and isinstance(e.func.value, ast.Name) and e.func.value.id == info.sn:
                fam = family_of(e.func.attr)
                if fam:
                    out.append((fam[0], fam[1], sign, stmt, e.func.attr))
                return
            if f in LINEAR_CALLS:
                for a in e.args:
                    if isinstance(a, (ast.List, ast.Tuple)):
                        for x in a.elts:
                            rec(x, sign, stmt)
                    else:
                        rec(a, sign * _sign_of_siblings(e, a), stmt)
        elif isinstance(e, ast.Attribute):
            if e.attr == "T":
                rec(e.value, sign, stmt)
        elif isinstance(e, ast.Subscript):
            rec(e.value, sign, stmt)
        elif isinstance(e, ast.Name):
            s2 = sign * neg_locals.get(e.id, 1)
            for (fam, body) in info.lfam.get(e.id, set()):
                out.append((fam, body, s2, stmt, e.id))
        elif isinstance(e, (ast.List, ast.Tuple)):
            for x in e.elts:
                rec(x, sign, stmt)

    for n in walk_no_nested(fn):
        if isinstance(n, (ast.Assign, ast.AugAssign)):
            tgt = n.targets[0] if isinstance(n, ast.Assign) else n.target
            # only statements that store into the result (subscript stores) or compute a named part used later; locals that
            # merely alias one call are resolved through lfam, so skip plain single-call aliases
            v = n.value
            if isinstance(tgt, ast.Name) and isinstance(v, ast.Call) and isinstance(v.func, ast.Attribute) and isinstance(v.func.value, ast.Name) and v.func.value.id == info.sn:
                continue
            base_sign = -1 if (isinstance(n, ast.AugAssign) and isinstance(n.op, ast.Sub)) else 1
            rec(v, base_sign, n)
        elif isinstance(n, ast.Return) and n.value is not None:
            rec(n.value, 1, n)
    return out


def relative_polarity(info, fn):
    """{family: rho} with rho = sign(body 2)/sign(body 1) when both are determinate in fn (all occurrences agree)."""
    occ = occurrences(info, fn)
    res = {}
    for fam in ("P", "R"):
        s = {1: set(), 2: set()}
        for (f, b, sg, st, nm) in occ:
            if f == fam:
                s[b].add(sg)
        if len(s[1]) == 1 and len(s[2]) == 1:
            res[fam] = list(s[2])[0] * list(s[1])[0]
        elif s[1] or s[2]:
            res[fam] = None
    return res, occ
