"""K12: signed additive expansion of small algebraic kernels.

Abstract value of an expression: a list of additive terms (sign, factors) where factors is the ordered tuple of the atoms that
are multiplied; numeric coefficients are abstracted to their sign, positive scalars (2, 0.5, P @ P, norms) disappear.
+, - concatenate (with sign), * and @ distribute over sums, ax2skew is linear (skew(a)), cross3(a, b) = skew(a) b,
stacking (hstack / vstack / np.array([...])) keeps the blocks apart (factor '#k').  Anything else becomes an opaque positive
atom.  The domain loses magnitudes on purpose (it is not a symbolic evaluator): what remains is which monomials occur and with
which sign - enough to read off orientation conventions."""
from __future__ import annotations

import ast

from .core import dotted, norm_src

UNIT = {"eye3"}
POSITIVE_CALLS = {"norm", "sqrt", "abs"}


class Expander:
    def __init__(self, fn, unit=UNIT):
        self.fn = fn
        self.unit = set(unit)
        self.local = {}
        for n in ast.walk(fn):
            if isinstance(n, ast.Assign) and len(n.targets) == 1:
                t = n.targets[0]
                if isinstance(t, ast.Name):
                    self.local.setdefault(t.id, []).append(n.value)
                elif isinstance(t, ast.Tuple) and isinstance(n.value, ast.Tuple) and len(t.elts) == len(n.value.elts):
                    for a, b in zip(t.elts, n.value.elts):
                        if isinstance(a, ast.Name):
                            self.local.setdefault(a.id, []).append(b)
        # buffers assembled by block stores:  B = np.empty(...); B[0] = a; B[1:] = b   ==  vstack((a, b))
        self.stores = {}
        for n in ast.walk(fn):
            if isinstance(n, ast.Assign) and len(n.targets) == 1 and isinstance(n.targets[0], ast.Subscript) and isinstance(n.targets[0].value, ast.Name):
                self.stores.setdefault(n.targets[0].value.id, []).append((n.targets[0].slice, n.value, n.lineno))

    @staticmethod
    def _first_index(sl):
        if isinstance(sl, ast.Tuple) and sl.elts:
            sl = sl.elts[0]
        if isinstance(sl, ast.Constant) and isinstance(sl.value, int):
            return sl.value
        if isinstance(sl, ast.Slice):
            if sl.lower is None:
                return 0
            if isinstance(sl.lower, ast.Constant) and isinstance(sl.lower.value, int):
                return sl.lower.value
        return None

    def positive(self, e) -> bool:
        if isinstance(e, ast.Constant) and isinstance(e.value, (int, float)) and e.value > 0:
            return True
        if isinstance(e, ast.BinOp) and isinstance(e.op, ast.MatMult) and norm_src(e.left) == norm_src(e.right):
            return True  # P @ P
        if isinstance(e, ast.BinOp) and isinstance(e.op, ast.Pow) and isinstance(e.right, ast.Constant) and e.right.value == 2:
            return True
        if isinstance(e, ast.Call) and (dotted(e.func) or "").split(".")[-1] in POSITIVE_CALLS:
            return True
        if isinstance(e, ast.BinOp) and isinstance(e.op, (ast.Mult, ast.Div)):
            return self.positive(e.left) and self.positive(e.right)
        return False

    def expand(self, e, depth=0):
        """list of (sign, factors) ; None = cannot expand"""
        if depth > 12:
            return None
        if isinstance(e, ast.Constant) and isinstance(e.value, (int, float)):
            if e.value == 0:
                return []
            return [(1 if e.value > 0 else -1, ())]
        if isinstance(e, ast.Name):
            if e.id in self.unit:
                return [(1, ())]
            vs = self.local.get(e.id)
            if vs and len(vs) > 1:
                # x = x / (P @ P), x = 2 * x: rescaling by a positive scalar keeps terms and signs
                vs = [v for v in vs if not (isinstance(v, ast.BinOp) and isinstance(v.op, (ast.Div, ast.Mult))
                                            and ((isinstance(v.left, ast.Name) and v.left.id == e.id and self.positive(v.right))
                                                 or (isinstance(v.right, ast.Name) and v.right.id == e.id and self.positive(v.left))))]
            if vs and len(vs) == 1 and isinstance(vs[0], ast.Call) and (dotted(vs[0].func) or "").split(".")[-1] in ("empty", "zeros", "empty_like", "zeros_like") \
                    and e.id in self.stores:
                st = self.stores[e.id]
                keys = [self._first_index(sl) for sl, _, _ in st]
                order = sorted(range(len(st)), key=(lambda i: keys[i]) if all(k is not None for k in keys) else (lambda i: st[i][2]))
                out = []
                for k, i in enumerate(order):
                    r = self.expand(st[i][1], depth + 1)
                    if r is None:
                        return None
                    out += [(s_, (f"#{k}",) + f) for s_, f in r]
                return out
            if vs and len(vs) == 1:
                # a slice of a parameter (p = P[1:]) is an atom, not a formula
                if isinstance(vs[0], ast.Subscript) and isinstance(vs[0].value, ast.Name):
                    return [(1, (e.id,))]
                return self.expand(vs[0], depth + 1)
            return [(1, (e.id,))]
        if isinstance(e, ast.UnaryOp) and isinstance(e.op, ast.USub):
            r = self.expand(e.operand, depth + 1)
            return None if r is None else [(-s, f) for s, f in r]
        if isinstance(e, ast.UnaryOp) and isinstance(e.op, ast.UAdd):
            return self.expand(e.operand, depth + 1)
        if isinstance(e, ast.BinOp):
            if isinstance(e.op, (ast.Add, ast.Sub)):
                a, b = self.expand(e.left, depth + 1), self.expand(e.right, depth + 1)
                if a is None or b is None:
                    return None
                return a + ([(-s, f) for s, f in b] if isinstance(e.op, ast.Sub) else b)
            if isinstance(e.op, (ast.Mult, ast.MatMult)):
                a, b = self.expand(e.left, depth + 1), self.expand(e.right, depth + 1)
                if a is None or b is None:
                    return None
                return [(s1 * s2, f1 + f2) for s1, f1 in a for s2, f2 in b]
            if isinstance(e.op, ast.Div):
                if self.positive(e.right):
                    return self.expand(e.left, depth + 1)
                a = self.expand(e.left, depth + 1)
                return None if a is None else [(s, f + ("1/(" + norm_src(e.right) + ")",)) for s, f in a]
            return None
        if isinstance(e, ast.Subscript):
            # reshaping subscripts (p[:, None]) keep the value; element selection makes an atom
            if isinstance(e.slice, ast.Tuple) and all(isinstance(x, ast.Slice) or (isinstance(x, ast.Constant) and x.value is None) for x in e.slice.elts):
                return self.expand(e.value, depth + 1)
            return [(1, (norm_src(e),))]
        if isinstance(e, ast.Starred):
            return self.expand(e.value, depth + 1)
        if isinstance(e, ast.Call):
            d = dotted(e.func) or ""
            last = d.split(".")[-1]
            if last == "ax2skew" and len(e.args) == 1:
                a = self.expand(e.args[0], depth + 1)
                if a is None:
                    return None
                return [(s, tuple(f"skew({x})" for x in f) if len(f) == 1 else ("skew(" + "*".join(f) + ")",)) for s, f in a]
            if last == "ax2skew_squared" and len(e.args) == 1:
                a = self.expand(e.args[0], depth + 1)
                if a is None or len(a) != 1:
                    return None
                return [(1, (f"skew2({'*'.join(a[0][1])})",))]  # even in its argument
            if last in ("cross3", "cross") and len(e.args) == 2:
                a, b = self.expand(e.args[0], depth + 1), self.expand(e.args[1], depth + 1)
                if a is None or b is None:
                    return None
                return [(s1 * s2, (("skew(" + "*".join(f1) + ")",) + f2)) for s1, f1 in a for s2, f2 in b]
            if last in ("hstack", "vstack", "concatenate", "array", "block", "column_stack") and e.args and isinstance(e.args[0], (ast.Tuple, ast.List)):
                out = []
                for k, blk in enumerate(e.args[0].elts):
                    r = self.expand(blk, depth + 1)
                    if r is None:
                        return None
                    out += [(s, (f"#{k}",) + f) for s, f in r]
                return out
            if last in ("transpose", "copy", "asarray", "atleast_2d") and e.args:
                return self.expand(e.args[0], depth + 1)
            return [(1, (norm_src(e),))]
        if isinstance(e, ast.Attribute) and e.attr == "T":
            return self.expand(e.value, depth + 1)
        return [(1, (norm_src(e),))]


def find(terms, *need, block=None):
    """signs of the terms whose factor multiset (ignoring block tags) equals `need`"""
    out = []
    for s, f in terms or []:
        tag = [x for x in f if x.startswith("#")]
        core = sorted(x for x in f if not x.startswith("#"))
        if core == sorted(need) and (block is None or tag == [f"#{block}"]):
            out.append(s)
    return out
