"""K17: dtype narrowing.  cardillo allocates result buffers with `dtype=<argument>.dtype` so that complex-step differentiation passes through.
The same idiom silently TRUNCATES when the argument is integer-typed (a quaternion written as np.array([1, 0, 0, 0]), a hand-written unit
normal) and a fractional value is stored into the buffer: a plain subscript store casts without any error, whereas an in-place `/=` or `*=`
by a float raises UFuncTypeError (loud).  `narrowing_stores(fn)` reports subscript stores into a buffer typed by a parameter whose value is
fractional for integer input: it contains a true division, a non-integer float constant, or a call of a float-valued function."""
from __future__ import annotations

import ast

from .core import dotted, norm_src

ALLOC = {"zeros", "empty", "ones", "full"}
LIKE = {"zeros_like", "empty_like", "ones_like", "full_like"}
FLOAT_CALLS = {"sqrt", "norm", "sin", "cos", "tan", "arccos", "arcsin", "arctan", "arctan2", "exp", "log", "mean", "sinc"}


def _root(e):
    while isinstance(e, (ast.Subscript, ast.Attribute)):
        e = e.value
    return e.id if isinstance(e, ast.Name) else None


def typed_buffers(fn):
    """{buffer name: (alloc node, carrier parameter)}"""
    params = {a.arg for a in fn.args.args + fn.args.kwonlyargs}
    local = {}
    for n in ast.walk(fn):
        if isinstance(n, ast.Assign) and len(n.targets) == 1 and isinstance(n.targets[0], ast.Name):
            local.setdefault(n.targets[0].id, []).append(n.value)

    def carrier(e, depth=0):
        r = _root(e)
        if r in params:
            return r
        if r in local and len(local[r]) == 1 and depth < 3:
            v = local[r][0]
            if isinstance(v, (ast.Name, ast.Subscript, ast.Attribute)):
                return carrier(v, depth + 1)
            if isinstance(v, ast.Tuple):
                return None
        return None
    out = {}
    for n in ast.walk(fn):
        if not (isinstance(n, ast.Assign) and len(n.targets) == 1 and isinstance(n.targets[0], ast.Name) and isinstance(n.value, ast.Call)):
            continue
        last = (dotted(n.value.func) or "").split(".")[-1]
        c = None
        if last in ALLOC:
            for k in n.value.keywords:
                if k.arg == "dtype" and isinstance(k.value, ast.Attribute) and k.value.attr == "dtype":
                    c = carrier(k.value.value)
        elif last in LIKE and n.value.args and not any(k.arg == "dtype" for k in n.value.keywords):
            c = carrier(n.value.args[0])
        if c:
            out[n.targets[0].id] = (n, c)
    return out, local


def fractional(e, local, seen=frozenset(), depth=0):
    """reason (str) why e is not an integer for integer input, or None"""
    if depth > 6:
        return None
    for w in ast.walk(e):
        if isinstance(w, ast.BinOp) and isinstance(w.op, ast.Div):
            return f"true division `{norm_src(w)[:40]}`"
        if isinstance(w, ast.Constant) and isinstance(w.value, float) and w.value != int(w.value):
            return f"non-integer constant {w.value}"
        if isinstance(w, ast.Call) and (dotted(w.func) or "").split(".")[-1] in FLOAT_CALLS:
            return f"float-valued call `{norm_src(w)[:40]}`"
        if isinstance(w, ast.Name) and w.id in local and w.id not in seen and len(local[w.id]) == 1:
            r = fractional(local[w.id][0], local, seen | {w.id}, depth + 1)
            if r:
                return f"{w.id} = ... {r}"
    return None


def narrowing_stores(fn):
    """[(store stmt, buffer, carrier, reason)] and the number of typed buffers looked at"""
    bufs, local = typed_buffers(fn)
    out = []
    for n in ast.walk(fn):
        if isinstance(n, ast.Assign):
            for t in n.targets:
                if isinstance(t, ast.Subscript) and isinstance(t.value, ast.Name) and t.value.id in bufs:
                    r = fractional(n.value, local)
                    if r:
                        out.append((n, t.value.id, bufs[t.value.id][1], r))
    return out, bufs
