"""K20: equivariance typing of the rod interpolation kernels.

Objectivity (frame invariance) of a strain measure is a TYPE property of the formula: under a superposed rigid motion x -> R x + c every
intermediate quantity of an interpolation kernel transforms in one of a few ways, and the way composes through the operations of the kernel:

    P    point                      r -> R r + c          nodal positions, their partition-of-unity combinations
    L    left-covariant             X -> R X              tangents, directors, rotation matrices A_IB (rank 1 or 2)
    Rt   transposed                 X -> X R^T            A_IB.T
    LR   conjugated                 X -> R X R^T          A' A^T, ax2skew(L)
    I    invariant                  X -> X                scalars, material strains
    Q    quaternion, left action    p -> r o p            nodal quaternions and their linear combinations
    TQ   T_SO3_quat(Q)              TQ @ Q = I            (Rucker's curvature  T(p) p')
    HL   homogeneous, left action   H -> G H              SE3(L, P);  HLi = SE3inv(HL);  HLi @ HL = I
    PQ   one node's (position, quaternion) block of qe: [:3] is P, [3:] is Q
    Z    zero buffer (neutral)      X    determinately NOT covariant (e.g. L @ L, Rt @ Rt, L + I)      None  unknown (no verdict)

Products:  Rt @ L = I,  L @ Rt = LR,  L @ I = L,  I @ Rt = Rt,  LR @ L = L,  L(vec) @ L(vec) = I,  L(vec) @ L(mat) = I,  cross3(L, L) = L,
skew2ax(LR) = L,  skew2ax(I) = I, ...; the weights N[...] keep P, the derivative weights N_xi[...] turn P into L (sum of the derivative
weights is zero).  The analysis is flow-insensitive (a name's type is the join of its bindings, `+=` included), which is exact for the
accumulate-in-a-loop idiom of the kernels.

Value-dependent choices (`if p_node[0] < 0: p_node = -p_node`, `-1.0 if p_node[0] < 0 else 1.0`) keep a type only if the test reads
invariant quantities; a choice decided by a component of a quaternion / director / position gives X (the branch taken changes with the observer).

A strain the kernel returns must have type I, the rotation L, the position P.  A determinate other type is a violation: the strain rotates
(or shears) with the observer.  Unknown types give no verdict."""
from __future__ import annotations

import ast

from .core import norm_src

MAT = {
    ("Rt", "L"): "I", ("L", "Rt"): "LR", ("L", "I"): "L", ("I", "Rt"): "Rt", ("LR", "L"): "L", ("Rt", "LR"): "Rt", ("LR", "LR"): "LR",
    ("I", "I"): "I", ("TQ", "Q"): "I", ("HLi", "HL"): "I", ("HL", "I"): "HL", ("I", "HLi"): "HLi",
}


def join(a, b):
    if a is None or b is None:
        return None
    if a[1] == "Z":
        return (b[0] if b[0] is not None else a[0], b[1], b[2])
    if b[1] == "Z":
        return (a[0] if a[0] is not None else b[0], a[1], a[2])
    r = a[0] if a[0] == b[0] else None
    if a[1] == b[1]:
        return (r, a[1], a[2] if a[2] == b[2] else None)
    return (r, "X", None)


class Typer:
    """value = (rank | None, type, weight tag) or None"""

    def __init__(self, fn):
        self.fn = fn
        self.params = {a.arg for a in fn.args.args}
        self.bind = {}
        for n in ast.walk(fn):
            if isinstance(n, ast.Assign) and len(n.targets) == 1:
                t = n.targets[0]
                if isinstance(t, ast.Name):
                    self.bind.setdefault(t.id, []).append(("=", n.value))
                elif isinstance(t, ast.Tuple):
                    if isinstance(n.value, ast.Tuple) and len(n.value.elts) == len(t.elts):
                        for a, b in zip(t.elts, n.value.elts):
                            if isinstance(a, ast.Name):
                                self.bind.setdefault(a.id, []).append(("=", b))
                    else:
                        for a in t.elts:
                            if isinstance(a, ast.Name):
                                self.bind.setdefault(a.id, []).append(("row", n.value))
            elif isinstance(n, ast.AugAssign) and isinstance(n.target, ast.Name) and isinstance(n.op, (ast.Add, ast.Sub)):
                self.bind.setdefault(n.target.id, []).append(("=", n.value))
            elif isinstance(n, ast.AugAssign) and isinstance(n.target, ast.Name):
                self.bind.setdefault(n.target.id, []).append(("?", n.value))
        self.busy = set()
        self.memo = {}
        # enclosing `if` tests of every binding (value-dependent choices must be decided by INVARIANT quantities)
        self.guards = {}
        for n in ast.walk(fn):
            if isinstance(n, (ast.Assign, ast.AugAssign)):
                tests, up = [], getattr(n, "_parent", None)
                while up is not None and up is not fn:
                    if isinstance(up, ast.If):
                        tests.append(up.test)
                    up = getattr(up, "_parent", None)
                if tests:
                    self.guards[id(n.value)] = tests

    # --------------------------------------------------------------------------------------------------------------------------------
    def name(self, nm):
        if nm in self.memo:
            return self.memo[nm]
        if nm in self.busy:
            return (None, "Z", None)
        bs = self.bind.get(nm)
        if not bs:
            return None
        self.busy.add(nm)
        cur = (None, "Z", None)
        for kind, v in bs:
            if kind == "?":
                cur = None
                break
            t = self.ev(v)
            if kind == "row":
                t = self.row(t)
            if t is not None and any(self.noninvariant(g) for g in self.guards.get(id(v), [])):
                t = (t[0], "X", None)       # which value is bound is decided by a quantity that changes under the rigid motion
            cur = join(cur, t)
            if cur is None:
                break
        self.busy.discard(nm)
        self.memo[nm] = cur
        return cur

    def noninvariant(self, test):
        """does the test read a quantity with a determinate, non-invariant transformation type (a component of a quaternion, of a director,
        of a position)?  Then the branch taken is not the same before and after a superposed rigid motion."""
        for w in ast.walk(test):
            if isinstance(w, ast.Name):
                if w.id in self.busy:
                    # the tested name is the one being (re)bound under this test: judge it by its unguarded bindings
                    for kind, v in self.bind.get(w.id, []):
                        if id(v) in self.guards or kind == "?":
                            continue
                        t = self.ev(v)
                        if kind == "row":
                            t = self.row(t)
                        if t is not None and t[1] not in ("I", "Z"):
                            return True
                    continue
                t = self.ev(w)
                if t is not None and t[1] not in ("I", "Z"):
                    return True
            elif isinstance(w, ast.Subscript) and isinstance(w.value, ast.Name) and w.value.id == "qe":
                return True
        return False

    @staticmethod
    def row(t):
        """element of the unpacking of a value: one rank less; rows of a matrix of type Rt are the (left-covariant) columns of its transpose"""
        if t is None or t[0] is None or t[0] == 0:
            return None
        r, ty, _ = t
        if ty in ("Q", "P", "I"):       # qe[block of nodal dofs] unpacked per node; components of an invariant
            return (r - 1, ty, None)
        if ty == "Rt":
            return (r - 1, "L", None)
        return (r - 1, "X", None)

    def _idx_src(self, e, depth=0):
        s = norm_src(e)
        if isinstance(e, ast.Name) and depth < 3:
            bs = self.bind.get(e.id)
            if bs and len(bs) == 1 and bs[0][0] == "=":
                return self._idx_src(bs[0][1], depth + 1)
        return s

    def ev(self, e):
        if isinstance(e, ast.Constant) and isinstance(e.value, (int, float)) and not isinstance(e.value, bool):
            return (0, "I", None)
        if isinstance(e, ast.Name):
            if e.id in self.params and e.id not in self.bind:
                return (0, "I", None) if e.id == "xi" else None
            return self.name(e.id)
        if isinstance(e, ast.UnaryOp) and isinstance(e.op, (ast.USub, ast.UAdd)):
            return self.ev(e.operand)
        if isinstance(e, ast.IfExp):
            a, b = self.ev(e.body), self.ev(e.orelse)
            if a is None or b is None:
                return None
            j = join(a, b)
            if j is not None and self.noninvariant(e.test):
                return (j[0], "X", None)
            return j
        if isinstance(e, ast.Attribute):
            if e.attr == "T":
                t = self.ev(e.value)
                if t is None:
                    return None
                r, ty, w = t
                if r == 1 or r == 0:
                    return t
                if r is None:
                    return None
                return (r, {"L": "Rt", "Rt": "L", "LR": "LR", "I": "I", "Z": "Z"}.get(ty, "X"), w)
            return None
        if isinstance(e, ast.Subscript):
            base = e.value
            if isinstance(base, ast.Name) and base.id in ("N", "N_xi") and base.id in self.params:
                return (0, "I", base.id)
            if isinstance(base, ast.Name) and base.id == "qe" and "qe" in self.params:
                s = self._idx_src(e.slice)
                if "concatenate" in s and "nodalDOF_element_r" in s and "nodalDOF_element_p" in s and s.index("nodalDOF_element_r") < s.index("nodalDOF_element_p"):
                    return (1, "PQ", None)      # one node's (position, quaternion)
                if "nodalDOF_element_r" in s:
                    return (2, "P", None) if not s.rstrip().endswith("]") else (1, "P", None)
                if "nodalDOF_element_p" in s:
                    return (2, "Q", None) if not s.rstrip().endswith("]") else (1, "Q", None)
                return None
            t = self.ev(base)
            if t is None:
                return None
            r, ty, w = t
            s = norm_src(e.slice).replace(" ", "")
            if ty == "HL":
                if s in (":3,:3", "(:3,:3)"):
                    return (2, "L", None)
                if s in (":3,3", "(:3,3)"):
                    return (1, "P", None)
                return None
            if ty == "PQ":
                return (1, "P", None) if s == ":3" else ((1, "Q", None) if s == "3:" else None)
            if ty == "X":
                return (None, "X", None)
            if ty == "I":
                if r == 1:
                    return (1 if ":" in s else 0, "I", None)
                return (None, "I", None)
            return None
        if isinstance(e, ast.BinOp):
            L, R = self.ev(e.left), self.ev(e.right)
            if L is None or R is None:
                return None
            if isinstance(e.op, (ast.Add, ast.Sub)):
                if L[1] == "Z":
                    return R
                if R[1] == "Z":
                    return L
                r = L[0] if L[0] == R[0] else None
                if L[1] == "P" and R[1] == "P":
                    return (r, "L", None) if isinstance(e.op, ast.Sub) else None
                if {L[1], R[1]} == {"P", "L"}:
                    return (r, "P", None) if (L[1] == "P" or isinstance(e.op, ast.Add)) else (r, "X", None)
                if L[1] == R[1]:
                    return (r, L[1], None)
                return (r, "X", None)
            if isinstance(e.op, ast.Mult):
                if "X" in (L[1], R[1]):
                    return (max((x for x in (L[0], R[0]) if x is not None), default=None), "X", None)
                for a, b in ((L, R), (R, L)):
                    if a[0] == 0 and a[1] == "I":
                        if b[1] == "P":
                            return (b[0], "P", None) if a[2] == "N" else ((b[0], "L", None) if a[2] == "N_xi" else None)
                        if b[0] == 0 and b[1] == "I":
                            return (0, "I", None)
                        return (b[0], b[1], None)
                if L[1] == "I" and R[1] == "I":
                    return (L[0] if L[0] == R[0] else None, "I", None)
                return None
            if isinstance(e.op, ast.Div):
                if R[0] == 0 and R[1] == "I":
                    return (L[0], L[1], None) if L[1] != "P" else None
                return None
            if isinstance(e.op, ast.MatMult):
                (r1, t1, _), (r2, t2, _) = L, R
                if "Z" in (t1, t2):
                    return (None, "Z", None)
                if "X" in (t1, t2) and (r1 is None or r2 is None):
                    return (None, "X", None)
                if r1 is None or r2 is None or r1 == 0 or r2 == 0:
                    return None
                rank = {(2, 2): 2, (2, 1): 1, (1, 2): 1, (1, 1): 0}[(r1, r2)]
                if "X" in (t1, t2):
                    return (rank, "X", None)
                if (r1, r2) == (1, 1):
                    return (0, "I", None) if (t1 == t2 and t1 in ("L", "I")) else (0, "X", None)
                if (r1, r2) == (1, 2):
                    # u^T M
                    if t1 == "L" and t2 == "L":
                        return (1, "I", None)
                    if t1 == "I" and t2 == "Rt":
                        return (1, "L", None)
                    if t1 == "L" and t2 == "LR":
                        return (1, "L", None)
                    if t1 == "I" and t2 == "I":
                        return (1, "I", None)
                    return (1, "X", None)
                ty = MAT.get((t1, t2))
                return (rank, ty if ty else "X", None)
            return None
        if isinstance(e, ast.Call):
            f = e.func
            nm = f.id if isinstance(f, ast.Name) else (f.attr if isinstance(f, ast.Attribute) else "")
            args = [self.ev(a) for a in e.args]
            if nm == "element_interval":        # (xi0, xi1) of the knot vector: two state-independent scalars
                return (1, "I", None)
            if nm in ("zeros", "empty"):
                sh = e.args[0] if e.args else None
                rank = 1 if isinstance(sh, (ast.Constant, ast.Name, ast.Attribute)) else (len(sh.elts) if isinstance(sh, ast.Tuple) else None)
                return (rank, "Z", None)
            if nm in ("Exp_SO3_quat", "T_SO3_quat", "Exp_SO3_quat_P", "T_SO3_quat_P") and args and args[0] is not None and args[0][1] == "X":
                return (2, "X", None)
            if nm == "Exp_SO3_quat" and args:
                return (2, "L", None) if args[0] is not None and args[0][1] == "Q" else None
            if nm == "T_SO3_quat" and args:
                return (2, "TQ", None) if args[0] is not None and args[0][1] == "Q" else None
            if nm == "SE3" and len(args) == 2:
                if args[0] is None or args[1] is None:
                    return None
                return (2, "HL" if (args[0][1], args[1][1]) == ("L", "P") else "X", None)
            if nm == "SE3inv" and len(args) == 1:
                if args[0] is None:
                    return None
                return (2, {"HL": "HLi", "I": "I"}.get(args[0][1], "X"), None)
            if nm in ("Log_SE3", "Log_SO3") and len(args) == 1:
                if args[0] is None:
                    return None
                return (1, "I" if args[0][1] == "I" else "X", None)
            if nm in ("Exp_SE3", "Exp_SO3") and len(args) == 1:
                if args[0] is None:
                    return None
                return (2, "I" if args[0][1] == "I" else "X", None)
            if nm in ("cross3", "cross") and len(args) == 2:
                if args[0] is None or args[1] is None:
                    return None
                return (1, args[0][1] if args[0][1] == args[1][1] and args[0][1] in ("L", "I") else "X", None)
            if nm == "skew2ax" and len(args) == 1:
                if args[0] is None:
                    return None
                return (1, {"LR": "L", "I": "I"}.get(args[0][1], "X"), None)
            if nm == "ax2skew" and len(args) == 1:
                if args[0] is None:
                    return None
                return (2, {"L": "LR", "I": "I"}.get(args[0][1], "X"), None)
            if nm == "norm" and len(args) == 1:
                if args[0] is None:
                    return None
                return (0, "I" if args[0][1] in ("L", "I", "Q") else "X", None)
            if nm == "array" and len(e.args) == 1 and isinstance(e.args[0], (ast.List, ast.Tuple)):
                ts = [self.ev(x) for x in e.args[0].elts]
                if any(t is None for t in ts):
                    return None
                if all(t[0] == 0 and t[1] == "I" for t in ts):
                    return (1, "I", None)
                if all(t[0] == 0 for t in ts):
                    return (1, "X", None)
                return None
            return None
        return None


def kernel_returns(fn):
    """the Return statements of a kernel that hand out (r_OP, A_IB, B_Gamma_bar, B_Kappa_bar, ...)"""
    out = []
    for n in ast.walk(fn):
        if isinstance(n, ast.Return) and isinstance(n.value, ast.Tuple) and len(n.value.elts) >= 4:
            out.append(n)
    return out


EXPECT = (("interpolated position", "P"), ("interpolated rotation", "L"), ("axial / shear strain", "I"), ("torsional / flexural strain", "I"))
MEANING = {"L": "rotates with the observer (spatial, not material, components)", "LR": "is conjugated by the observer's rotation",
           "X": "mixes factors that transform differently under a rigid motion, so it has no transformation rule at all",
           "P": "moves with the observer (it is a point)", "Rt": "is a transposed rotation", "I": "is invariant", "Q": "is a quaternion",
           "HL": "is a homogeneous transformation", "HLi": "is an inverse homogeneous transformation", "TQ": "is the quaternion tangent map", "Z": "is identically zero"}
