"""Shared model of cardillo/system.py: contribution lists, scatter loops, index kinds,
list/callee co-definition over all contribution classes."""
from __future__ import annotations

import ast

from .core import AnalysisError, dotted, norm_src, walk_no_nested, is_raise_notimpl, arity

SYS = "cardillo/system.py"

CONTACT_METHODS = {
    "g_N", "g_N_q", "W_N", "g_N_dot", "g_N_ddot", "g_N_dot_q", "g_N_dot_u", "Wla_N_q",
    "gamma_F", "gamma_F_q", "gamma_F_u", "gamma_F_dot", "gamma_F_dot_q", "gamma_F_dot_u", "W_F", "Wla_F_q",
}


def is_contact(m):
    return m in CONTACT_METHODS


def kind_eq(k):
    return {"my_q": "q", "my_u": "u"}.get(k, k)


def n_to_kind(n):
    """'nq' -> 'q', 'nla_g' -> 'la_g', 'ntau' -> 'tau'."""
    return n[1:] if n.startswith("n") else None


PARAM_KIND = {
    "q": "q", "q_pre": "q", "q_post": "q", "q0": "q", "qn": "q", "qn1": "q",
    "u": "u", "u_dot": "u", "u_pre": "u", "u_post": "u", "u0": "u",
    "la_g": "la_g", "mu_g": "la_g", "la_gamma": "la_gamma", "la_c": "la_c", "la_N": "la_N", "la_F": "la_F",
    "la_tau": "la_tau", "la_S": "la_S", "tau": "tau",
}


class Loop:
    def __init__(self, node, var, key):
        self.node = node
        self.var = var
        self.key = key  # property key of the list iterated (None for self.contributions)
        self.contr_calls = []
        self.dof_subscripts = []
        self.stores = []
        self.add_at = []  # np.add.at(vector, index set, value): unbuffered accumulation


class SystemModel:
    def __init__(self, ctx):
        self.ctx = ctx
        self.model = ctx.model
        self.mod = ctx.repo.module(SYS)
        self.system = self.model.cls("System", SYS)
        self.properties = self._parse_properties()

    def _parse_properties(self):
        props = []
        for s in self.mod.tree.body:
            if isinstance(s, ast.Expr) and isinstance(s.value, ast.Call) and dotted(s.value.func) in ("properties.extend", "properties.append"):
                a = s.value.args[0]
                if isinstance(a, ast.List):
                    props += [e.value for e in a.elts if isinstance(e, ast.Constant)]
                elif isinstance(a, ast.Constant):
                    props.append(a.value)
        if len(props) < 10:
            raise AnalysisError("module-level `properties` list of cardillo/system.py not recognised")
        return props

    # ------------------------------------------------------------------
    def list_key(self, expr):
        """'h' for self.__h_contr / self.__h_contr[...]; None otherwise."""
        for n in ast.walk(expr):
            if isinstance(n, ast.Attribute) and isinstance(n.value, ast.Name) and n.value.id == "self" \
                    and n.attr.startswith("__") and n.attr.endswith("_contr"):
                return n.attr[2:-len("_contr")]
        return None

    def contr_loops(self, fn):
        out = []
        for n in walk_no_nested(fn):
            if isinstance(n, ast.For) and isinstance(n.target, ast.Name):
                key = self.list_key(n.iter)
                is_all = isinstance(n.iter, ast.Attribute) and n.iter.attr == "contributions"
                if key is None and not is_all:
                    continue
                lp = Loop(n, n.target.id, key)
                for b in n.body:
                    for x in ast.walk(b):
                        if isinstance(x, ast.Call) and isinstance(x.func, ast.Attribute) and isinstance(x.func.value, ast.Name) \
                                and x.func.value.id == lp.var:
                            lp.contr_calls.append(x)
                        if isinstance(x, ast.Subscript) and any(self.dof_kind(e, lp.var) is not None for e in (
                                x.slice.elts if isinstance(x.slice, ast.Tuple) else [x.slice])):
                            lp.dof_subscripts.append(x)
                        if isinstance(x, (ast.Assign, ast.AugAssign)):
                            lp.stores.append(x)
                        if isinstance(x, ast.Expr) and isinstance(x.value, ast.Call) and (dotted(x.value.func) or "") in ("np.add.at", "numpy.add.at"):
                            lp.add_at.append(x.value)
                out.append(lp)
        return out

    @staticmethod
    def dof_kind(e, var):
        if isinstance(e, ast.Attribute) and isinstance(e.value, ast.Name) and e.value.id == var and e.attr.endswith("DOF"):
            return e.attr[:-3]
        return None

    def local_env(self, fn):
        """name -> (kind, axes, lineno) for the *last* allocation; lookups are position aware through axis_kinds."""
        env = {}
        self._allocs = {}
        for n in walk_no_nested(fn):
            if isinstance(n, ast.Assign) and len(n.targets) == 1 and isinstance(n.targets[0], ast.Name) and isinstance(n.value, ast.Call):
                cn = dotted(n.value.func)
                if cn == "CooMatrix" and n.value.args and isinstance(n.value.args[0], ast.Tuple):
                    axes = [self._self_n(e) for e in n.value.args[0].elts]
                    self._allocs.setdefault(n.targets[0].id, []).append((n.lineno, "coo", axes))
                    env[n.targets[0].id] = ("coo", axes)
                elif cn in ("np.zeros", "np.empty", "np.ones") and n.value.args:
                    a0 = n.value.args[0]
                    axes = [self._self_n(e) for e in (a0.elts if isinstance(a0, ast.Tuple) else [a0])]
                    self._allocs.setdefault(n.targets[0].id, []).append((n.lineno, "zeros", axes))
                    env[n.targets[0].id] = ("zeros", axes)
        return env

    @staticmethod
    def _self_n(e):
        if isinstance(e, ast.Attribute) and isinstance(e.value, ast.Name) and e.value.id == "self" and e.attr.startswith("n"):
            return n_to_kind(e.attr)
        return None

    def axis_kinds(self, base, env, fn):
        if isinstance(base, ast.Name):
            allocs = getattr(self, "_allocs", {}).get(base.id)
            if allocs:
                best = None
                for (ln, kind, axes) in allocs:
                    if ln <= base.lineno:
                        best = axes
                return best if best is not None else allocs[0][2]
            if base.id in PARAM_KIND:
                return [PARAM_KIND[base.id]]
            return None
        if isinstance(base, ast.Attribute) and isinstance(base.value, ast.Name) and base.value.id == "self":
            if base.attr in PARAM_KIND:
                return [PARAM_KIND[base.attr]]
        return None

    # ------------------------------------------------------------------
    def live_methods(self):
        """System methods referenced from solver/system/utility/visualization code (receiver `*system` or
        `self` inside System).  A scatter method nobody calls creates no obligation (reported as a note)."""
        live = set()
        for rel, mod in self.ctx.repo.modules.items():
            if not rel.startswith("cardillo/"):
                continue
            for n in ast.walk(mod.tree):
                if isinstance(n, ast.Attribute) and n.attr in self.system.methods:
                    d = dotted(n.value) or ""
                    if d.split(".")[-1] in ("system", "model") or (d == "self" and rel == SYS):
                        live.add(n.attr)
        return live

    def dispatch_table(self):
        """list of (system method, key p, callee m, call node) for every `for contr in self.__p_contr: contr.m(...)`."""
        out = []
        for mname, fn in self.system.methods.items():
            for lp in self.contr_loops(fn):
                if lp.key is None:
                    continue
                for c in lp.contr_calls:
                    out.append((mname, lp.key, c.func.attr, c))
        return out


def _defines(model, ci, variant, name):
    """(status, info): status in 'method','lambda','alias','data',None ; guards list for stores."""
    for c in model.mro(ci, variant):
        if name in c.methods:
            return "method", c.methods[name], []
        if name in c.stores:
            sts = c.stores[name]
            kinds = {s.kind for s in sts}
            kind = "lambda" if kinds == {"lambda"} else ("alias" if kinds <= {"alias", "lambda"} else "data")
            return kind, sts, [s.guards for s in sts]
        if name in c.class_attrs:
            return "data", c.class_attrs[name], []
    return None, None, []


def _covers(guard_sets, cond):
    """True if the stores' guards guarantee definition whenever `cond` (a set of (test,pol)) holds."""
    cond = set(cond)
    for g in guard_sets:
        if set(g) <= cond:
            return True
    # both polarities of one test
    singles = [g[0] for g in guard_sets if len(g) == 1]
    for t, pol in singles:
        if (t, not pol) in singles:
            return True
    # nested: guards whose extra part comes in both polarities
    for g in guard_sets:
        extra = [x for x in g if x not in cond]
        if len(extra) == 1:
            t, pol = extra[0]
            for g2 in guard_sets:
                extra2 = [x for x in g2 if x not in cond]
                if extra2 == [(t, not pol)]:
                    return True
    return False


def internal_calls(ctx, sm: SystemModel, rule, family):
    """Calls `self.m(...)` between System methods conform to System.m's signature."""
    rep = ctx.rep
    for mname, fn in sm.system.methods.items():
        for c in ast.walk(fn):
            if isinstance(c, ast.Call) and isinstance(c.func, ast.Attribute) and isinstance(c.func.value, ast.Name) and c.func.value.id == "self" \
                    and c.func.attr in sm.system.methods:
                callee = sm.system.methods[c.func.attr]
                if not family(mname, c.func.attr):
                    continue
                construct = f"{SYS}:System.{mname}"
                mn, mx, kws, haskw = arity(callee)
                npos = len(c.args)
                star = any(isinstance(a, ast.Starred) for a in c.args) or any(k.arg is None for k in c.keywords)
                if star:
                    rep.ok(rule, construct, f"{norm_src(c)} (forwarded *args/**kwargs)", trivial=True)
                    continue
                given_kw = [k.arg for k in c.keywords]
                pos_names = [a.arg for a in callee.args.posonlyargs + callee.args.args][1:]
                missing = [p for p in pos_names[npos:mn - 1] if p not in given_kw]
                bad_kw = [k for k in given_kw if k not in kws and not haskw]
                if (mx is not None and npos > mx - 1) or missing or bad_kw:
                    why = (f"unknown keyword(s) {bad_kw}" if bad_kw else (f"missing argument(s) {missing}" if missing else "too many positional arguments"))
                    rep.bad(rule, construct, c, f"call does not match System.{c.func.attr}{norm_src(callee.args)!r}: {why} (TypeError on every call)",
                            f"{SYS}:{c.lineno}")
                else:
                    rep.ok(rule, construct, f"{norm_src(c)} matches System.{c.func.attr}({norm_src(callee.args)})")


def codefinition(ctx, sm: SystemModel, rule, family, require_live=True):
    """For every dispatch (p -> m) selected by `family(p, m)` and every class registered under p,
    m must be provided (or be an explicit `raise NotImplementedError`) with an arity accepting the call."""
    rep = ctx.rep
    model = sm.model
    live = sm.live_methods()
    table = []
    for (sysm, p, m, call) in sm.dispatch_table():
        if not family(p, m):
            continue
        if require_live and sysm not in live:
            rep.note(f"{rule}: System.{sysm} is referenced by no solver/utility code; its dispatch creates no obligation")
            continue
        table.append((sysm, p, m, call))
    if not table:
        raise AnalysisError(f"{rule}: empty dispatch table")
    skip_rel = ("cardillo/system.py", "cardillo/solver/", "cardillo/visualization/", "cardillo/utility/", "cardillo/math/")
    seen = set()
    for ci in model.all_classes():
        if ci.rel.startswith(skip_rel):
            continue
        if any(dotted(b) == "ABC" for b in ci.base_exprs):
            continue  # declared abstract
        for variant in model.variants(ci):
            vtag = ",".join(v for _, v in sorted(variant.items()))
            for (sysm, p, m, call) in table:
                kind, info, gsets = _defines(model, ci, variant, p)
                if kind is None:
                    continue
                if kind == "data":
                    continue  # callability unknown -> no obligation (sound: loses detections only)
                cond = set()
                if kind in ("lambda", "alias"):
                    # registered only when the store executed: condition = guards of the store(s)
                    cond = set(gsets[0]) if gsets else set()
                    # stores made outside __init__/assembler_callback would register late; ignore
                key = (ci.qual, vtag, sysm, m)
                if key in seen:
                    continue
                seen.add(key)
                construct = f"{ci.rel}:{ci.qual}" + (f"[{vtag}]" if vtag else "")
                what = f"registered under '{p}' ⇒ System.{sysm} calls .{m}({len(call.args)} args)"
                k2, info2, g2 = _defines(model, ci, variant, m)
                if k2 is None:
                    rep.bad(rule, construct, f"System.{sysm}: contr.{m}(...)",
                            f"class is registered under '{p}' (System.assemble: callable attribute) but provides no `{m}`: "
                            f"System.{sysm} fails with AttributeError instead of returning the scatter or a declared NotImplementedError",
                            f"{ci.rel}:{ci.node.lineno}")
                    continue
                if k2 == "method":
                    fn = info2
                    if is_raise_notimpl(fn):
                        rep.ok(rule, construct, what, "declared unimplemented (raise NotImplementedError)")
                        continue
                    mn, mx, kws, haskw = arity(fn)
                    is_static = any(dotted(d) in ("staticmethod",) for d in fn.decorator_list)
                    off = 0 if is_static else 1
                    npos = len(call.args)
                    if npos < mn - off or (mx is not None and npos > mx - off):
                        rep.bad(rule, construct, f"System.{sysm}: {norm_src(call)}",
                                f"`{m}` takes {mn - off}..{(mx - off) if mx is not None else '*'} positional arguments but System.{sysm} passes {npos}",
                                f"{ci.rel}:{fn.lineno}")
                        continue
                    badkw = [k.arg for k in call.keywords if k.arg and k.arg not in kws and not haskw]
                    if badkw:
                        rep.bad(rule, construct, f"System.{sysm}: {norm_src(call)}", f"`{m}` does not accept keyword(s) {badkw}", f"{ci.rel}:{fn.lineno}")
                        continue
                    rep.ok(rule, construct, what)
                    continue
                # store
                if kind == "method" and g2 and not _covers(g2, set()):
                    # p always registered, m only conditionally defined
                    st_methods = {s.method for s in info2}
                    if st_methods <= {"__init__", "assembler_callback"}:
                        rep.bad(rule, construct, f"System.{sysm}: contr.{m}(...)",
                                f"`{m}` is only defined under {g2[0]} while the class is always registered under '{p}'",
                                f"{ci.rel}:{info2[0].node.lineno}")
                        continue
                if kind in ("lambda", "alias") and g2 and not _covers(g2, cond):
                    rep.bad(rule, construct, f"System.{sysm}: contr.{m}(...)",
                            f"`{m}` is defined under {g2[0]} but the class is registered under '{p}' under {sorted(cond)}",
                            f"{ci.rel}:{info2[0].node.lineno}")
                    continue
                # lambda arity
                if k2 == "lambda":
                    bad = False
                    for s in info2:
                        mn, mx, kws, haskw = arity(s.value)
                        npos = len(call.args)
                        if npos < mn or (mx is not None and npos > mx):
                            rep.bad(rule, construct, f"System.{sysm}: {norm_src(call)}",
                                    f"lambda `{m}` takes {mn}..{mx} positional arguments but System.{sysm} passes {npos}",
                                    f"{ci.rel}:{s.node.lineno}")
                            bad = True
                            break
                    if bad:
                        continue
                rep.ok(rule, construct, what)
