"""K0 program model: class table, MRO, attribute stores with guards, external setters."""
from __future__ import annotations

import ast

from .core import AnalysisError, Repo, dotted, parent, walk_no_nested, norm_src


class AttrStore:
    __slots__ = ("name", "value", "method", "guards", "node", "kind", "via", "selfname")

    def __init__(self, name, value, method, guards, node):
        self.name = name
        self.value = value
        self.method = method  # name of the method containing the store
        self.guards = guards  # list[(test_src, polarity)]
        self.node = node
        self.via = None
        self.selfname = "self"
        if isinstance(value, ast.Lambda):
            self.kind = "lambda"
        elif value is not None and isinstance(value, ast.Attribute) and dotted(value) and dotted(value).startswith("self."):
            self.kind = "alias"
        else:
            self.kind = "data"


class ClassInfo:
    def __init__(self, name, rel, node, qual):
        self.name = name
        self.rel = rel
        self.node = node
        self.qual = qual
        self.base_exprs = [b for b in node.bases]
        self.methods: dict[str, ast.FunctionDef] = {}
        self.class_attrs: dict[str, ast.AST] = {}
        self.stores: dict[str, list[AttrStore]] = {}
        self.decorators: dict[str, list[ast.AST]] = {}
        for s in node.body:
            if isinstance(s, (ast.FunctionDef, ast.AsyncFunctionDef)):
                self.methods.setdefault(s.name, s)
                self.decorators[s.name] = s.decorator_list
            elif isinstance(s, ast.Assign):
                for t in s.targets:
                    if isinstance(t, ast.Name):
                        self.class_attrs[t.id] = s.value
        for mname, m in self.methods.items():
            selfname = m.args.args[0].arg if m.args.args else "self"
            for n in walk_no_nested(m):
                targets = []
                value = None
                if isinstance(n, ast.Assign):
                    targets, value = n.targets, n.value
                elif isinstance(n, ast.AugAssign):
                    targets, value = [n.target], n.value
                elif isinstance(n, ast.AnnAssign) and n.value is not None:
                    targets, value = [n.target], n.value
                for t in targets:
                    for tt in _flatten_targets(t):
                        if isinstance(tt, ast.Attribute) and isinstance(tt.value, ast.Name) and tt.value.id == selfname:
                            v = value if (len(targets) == 1 and tt is t) else None
                            self.stores.setdefault(tt.attr, []).append(
                                AttrStore(tt.attr, v, mname, guards_of(n, m), n))

    def __repr__(self):
        return f"<class {self.rel}:{self.qual}>"


def _flatten_targets(t):
    if isinstance(t, (ast.Tuple, ast.List)):
        for e in t.elts:
            yield from _flatten_targets(e)
    elif isinstance(t, ast.Starred):
        yield from _flatten_targets(t.value)
    else:
        yield t


def guards_of(node, stop):
    """Enclosing `if` tests (with polarity) between node and the function `stop`."""
    out = []
    child = node
    p = parent(node)
    while p is not None and p is not stop:
        if isinstance(p, ast.If):
            if any(child is s for s in p.body):
                out.append((norm_src(p.test), True))
            elif any(child is s for s in p.orelse):
                out.append((norm_src(p.test), False))
        child = p
        p = parent(p)
    return list(reversed(out))


class Model:
    """Class table over cardillo/.  Dynamic bases (class factories) are resolved from the
    factory's own code: `B = SomeClass`, `B = factory(...)` (classes that factory returns);
    a base that is a *parameter* of the factory is resolved through tables.FACTORY_PARAM_BASES
    (hand-confirmed from the call sites, one line of reason)."""

    def __init__(self, repo: Repo):
        from . import tables
        self.repo = repo
        self.tables = tables
        self.classes: dict[str, list[ClassInfo]] = {}
        self.imports: dict[str, dict[str, str]] = {}
        self.by_node: dict[int, ClassInfo] = {}
        for rel, mod in repo.modules.items():
            if not rel.startswith("cardillo/"):
                continue
            imp = {}
            for n in ast.walk(mod.tree):
                if isinstance(n, ast.ImportFrom):
                    for a in n.names:
                        imp[a.asname or a.name] = a.name
            self.imports[rel] = imp
            for q, n in mod.defs().items():
                if isinstance(n, ast.ClassDef):
                    ci = ClassInfo(n.name, rel, n, q)
                    self.classes.setdefault(n.name, []).append(ci)
                    self.by_node[id(n)] = ci
        self._choices: dict[int, list[list[ClassInfo]]] = {}
        self._setter_functions()

    def _setter_functions(self):
        """Module-level helpers that store attributes on their first parameter (`object.X = ...`), e.g.
        constraints/_base.auxiliary_functions, concatenate_qDOF.  A class whose method calls `f(self, ...)` gets
        those stores (method = the calling method, guards = guards of the call)."""
        setters = {}  # function name -> list[(attr, value, node)]
        for rel, mod in self.repo.modules.items():
            if not rel.startswith("cardillo/"):
                continue
            for s in mod.tree.body:
                if isinstance(s, ast.FunctionDef) and s.args.args:
                    p0 = s.args.args[0].arg
                    sts = []
                    for n in walk_no_nested(s):
                        if isinstance(n, ast.Assign):
                            for t in n.targets:
                                for tt in _flatten_targets(t):
                                    if isinstance(tt, ast.Attribute) and isinstance(tt.value, ast.Name) and tt.value.id == p0:
                                        v = n.value if (len(n.targets) == 1 and tt is t) else None
                                        sts.append((tt.attr, v, n))
                    if sts:
                        setters[s.name] = (p0, sts)
        self.setter_functions = setters
        for ci in self.all_classes():
            for mname, m in ci.methods.items():
                if not m.args.args:
                    continue
                selfname = m.args.args[0].arg
                for n in walk_no_nested(m):
                    if isinstance(n, ast.Call) and isinstance(n.func, ast.Name) and n.func.id in setters and n.args \
                            and isinstance(n.args[0], ast.Name) and n.args[0].id == selfname:
                        p0, sts = setters[n.func.id]
                        g = guards_of(n, m)
                        for (attr, v, node) in sts:
                            st = AttrStore(attr, v, mname, g, node)
                            st.via = n.func.id
                            st.selfname = p0
                            ci.stores.setdefault(attr, []).append(st)

    # ---- lookup -----------------------------------------------------------
    def cls(self, name, rel=None) -> ClassInfo:
        cands = self.classes.get(name, [])
        if rel is not None:
            c2 = [c for c in cands if c.rel == rel]
            if c2:
                return c2[0]
        if not cands:
            raise AnalysisError(f"class {name} not found")
        return cands[0]

    def has_cls(self, name):
        return name in self.classes

    def _factory_returns(self, rel, fname, depth=0) -> list[ClassInfo]:
        """Classes a module-level factory function may return."""
        if depth > 4:
            raise AnalysisError(f"factory recursion too deep at {fname}")
        # locate factory (same module or by import)
        fn = self.repo.maybe(rel, fname)
        frel = rel
        if fn is None:
            real = self.imports.get(rel, {}).get(fname, fname)
            for r2, m2 in self.repo.modules.items():
                if r2.startswith("cardillo/") and real in m2.defs() and isinstance(m2.defs()[real], ast.FunctionDef):
                    fn, frel = m2.defs()[real], r2
                    break
        if fn is None or not isinstance(fn, ast.FunctionDef):
            raise AnalysisError(f"factory {fname} (used in {rel}) not found")
        out = []
        for n in walk_no_nested(fn):
            if isinstance(n, ast.Return) and n.value is not None:
                nm = dotted(n.value)
                if nm is None:
                    raise AnalysisError(f"factory {fname} returns a non-name")
                out.extend(self._resolve_local(frel, fn, nm, depth + 1))
        return out

    def _resolve_local(self, rel, fn, name, depth=0) -> list[ClassInfo]:
        """Classes that local name `name` may denote inside factory function `fn`."""
        # class defined inside fn
        for s in fn.body:
            if isinstance(s, ast.ClassDef) and s.name == name:
                return [self.by_node[id(s)]]
        out = []
        assigned = False
        for n in walk_no_nested(fn):
            if isinstance(n, ast.Assign) and any(isinstance(t, ast.Name) and t.id == name for t in n.targets):
                assigned = True
                v = n.value
                if isinstance(v, ast.Name):
                    real = self.imports.get(rel, {}).get(v.id, v.id)
                    if real in self.classes:
                        out.append(self.cls(real, rel))
                    else:
                        out.extend(self._resolve_local(rel, fn, v.id, depth + 1))
                elif isinstance(v, ast.Call) and isinstance(v.func, ast.Name):
                    out.extend(self._factory_returns(rel, v.func.id, depth + 1))
                else:
                    raise AnalysisError(f"dynamic base {name} in {rel}:{fn.name}: unrecognised binding {norm_src(v)}")
        if assigned:
            return out
        params = [a.arg for a in fn.args.args + fn.args.kwonlyargs]
        if name in params:
            key = (fn.name, name)
            if key not in self.tables.FACTORY_PARAM_BASES:
                raise AnalysisError(f"factory parameter base {key} not in tables.FACTORY_PARAM_BASES")
            return [self.cls(c) for c in self.tables.FACTORY_PARAM_BASES[key][0]]
        real = self.imports.get(rel, {}).get(name, name)
        if real in self.classes:
            return [self.cls(real, rel)]
        raise AnalysisError(f"dynamic base {name} in {rel}:{fn.name} cannot be resolved")

    def base_choices(self, ci: ClassInfo) -> list[list[ClassInfo]]:
        if id(ci) in self._choices:
            return self._choices[id(ci)]
        out = []
        for b in ci.base_exprs:
            bn = dotted(b)
            if bn is None:
                raise AnalysisError(f"unresolvable base expression of {ci}")
            bn = bn.split(".")[-1]
            if bn in ("ABC", "object"):
                continue
            fn = parent(ci.node)
            if isinstance(fn, ast.FunctionDef):
                # class inside a factory: base may be a local
                is_local = any(isinstance(n, ast.Assign) and any(isinstance(t, ast.Name) and t.id == bn for t in n.targets)
                               for n in walk_no_nested(fn)) or bn in [a.arg for a in fn.args.args + fn.args.kwonlyargs]
                if is_local:
                    ch = self._resolve_local(ci.rel, fn, bn)
                    # de-duplicate
                    seen, ch2 = set(), []
                    for c in ch:
                        if id(c) not in seen:
                            seen.add(id(c))
                            ch2.append(c)
                    out.append(ch2)
                    continue
            real = self.imports.get(ci.rel, {}).get(bn, bn)
            if real in self.classes:
                out.append([self.cls(real, ci.rel)])
            else:
                raise AnalysisError(f"base {bn} of {ci} cannot be resolved")
        self._choices[id(ci)] = out
        return out

    def variants(self, ci: ClassInfo) -> list[dict]:
        """All assignments {class qual -> chosen base name} for dynamic bases in ci's hierarchy."""
        res = [dict()]
        for choices in self.base_choices(ci):
            new = []
            for c in choices:
                for sub in self.variants(c):
                    for r in res:
                        d = dict(r)
                        d.update(sub)
                        if len(choices) > 1:
                            d[ci.qual] = c.name
                        new.append(d)
            res = new
        # de-duplicate
        seen, out = set(), []
        for d in res:
            k = tuple(sorted(d.items()))
            if k not in seen:
                seen.add(k)
                out.append(d)
        return out

    def bases(self, ci, variant=None):
        out = []
        for choices in self.base_choices(ci):
            if len(choices) == 1:
                out.append(choices[0])
            else:
                want = (variant or {}).get(ci.qual)
                pick = [c for c in choices if c.name == want]
                out.append(pick[0] if pick else choices[0])
        return out

    def mro(self, ci: ClassInfo, variant=None) -> list[ClassInfo]:
        seen, out = set(), []

        def rec(c):
            if id(c) in seen:
                return
            seen.add(id(c))
            out.append(c)
            for b in self.bases(c, variant):
                rec(b)

        rec(ci)
        return out

    def find_method(self, ci, name, variant=None):
        for c in self.mro(ci, variant):
            if name in c.methods:
                return c, c.methods[name]
        return None, None

    def find_stores(self, ci, name, variant=None) -> list[AttrStore]:
        out = []
        for c in self.mro(ci, variant):
            out.extend(c.stores.get(name, []))
        return out

    def has_attr(self, ci, name, variant=None) -> bool:
        for c in self.mro(ci, variant):
            if name in c.methods or name in c.stores or name in c.class_attrs:
                return True
        return False

    def all_classes(self):
        for lst in self.classes.values():
            yield from lst

    def subclasses(self, ci) -> list[ClassInfo]:
        out = []
        for c in self.all_classes():
            if c is ci:
                continue
            for v in self.variants(c):
                if ci in self.mro(c, v):
                    out.append(c)
                    break
        return out
