"""Sign-domain abstract interpretation of straight-line numeric code.
Domain: '-', '0', '+', '>=0', '<=0', '?'  (strictly negative, zero, strictly positive, non-negative, non-positive, unknown)."""
from __future__ import annotations

import ast

from .core import dotted, norm_src

NEG, ZERO, POS, NONNEG, NONPOS, TOP = "-", "0", "+", ">=0", "<=0", "?"


def neg(s):
    return {NEG: POS, POS: NEG, NONNEG: NONPOS, NONPOS: NONNEG}.get(s, s)


def mul(a, b):
    if ZERO in (a, b):
        return ZERO
    if TOP in (a, b):
        return TOP
    strict = a in (POS, NEG) and b in (POS, NEG)
    pos_a = a in (POS, NONNEG)
    pos_b = b in (POS, NONNEG)
    if pos_a == pos_b:
        return POS if strict else NONNEG
    return NEG if strict else NONPOS


def div(a, b):
    if b in (ZERO, NONNEG, NONPOS, TOP):
        # possible zero denominator: sign of the quotient still follows mul when b is one-signed
        if b == ZERO:
            return TOP
        return mul(a, b) if b != TOP else TOP
    return mul(a, b)


def add(a, b):
    if a == ZERO:
        return b
    if b == ZERO:
        return a
    if a in (POS, NONNEG) and b in (POS, NONNEG):
        return POS if POS in (a, b) else NONNEG
    if a in (NEG, NONPOS) and b in (NEG, NONPOS):
        return NEG if NEG in (a, b) else NONPOS
    return TOP


def is_nonneg(s):
    return s in (ZERO, POS, NONNEG)


def is_nonpos(s):
    return s in (ZERO, NEG, NONPOS)


def can_be_zero(s):
    return s in (ZERO, NONNEG, NONPOS, TOP)


class Signs:
    def __init__(self, env=None):
        self.env = dict(env or {})

    def of(self, e) -> str:
        if isinstance(e, ast.Constant) and isinstance(e.value, (int, float)):
            return ZERO if e.value == 0 else (POS if e.value > 0 else NEG)
        if isinstance(e, ast.Name):
            return self.env.get(e.id, TOP)
        if isinstance(e, ast.Attribute):
            return self.env.get(norm_src(e), TOP)
        if isinstance(e, ast.UnaryOp) and isinstance(e.op, ast.USub):
            return neg(self.of(e.operand))
        if isinstance(e, ast.BinOp):
            if isinstance(e.op, ast.Mult):
                return mul(self.of(e.left), self.of(e.right))
            if isinstance(e.op, ast.Div):
                return div(self.of(e.left), self.of(e.right))
            if isinstance(e.op, ast.Add):
                return add(self.of(e.left), self.of(e.right))
            if isinstance(e.op, ast.Sub):
                return add(self.of(e.left), neg(self.of(e.right)))
            if isinstance(e.op, ast.Pow) and isinstance(e.right, ast.Constant) and isinstance(e.right.value, int) and e.right.value % 2 == 0:
                s = self.of(e.left)
                return POS if s in (POS, NEG) else NONNEG
            return TOP
        if isinstance(e, ast.Call):
            f = (dotted(e.func) or "").split(".")[-1]
            args = e.args
            if f in ("max", "maximum") and len(args) == 2:
                a, b = self.of(args[0]), self.of(args[1])
                if POS in (a, b):
                    return POS
                if is_nonneg(a) or is_nonneg(b):
                    return NONNEG
                return TOP
            if f in ("min", "minimum") and len(args) == 2:
                a, b = self.of(args[0]), self.of(args[1])
                if NEG in (a, b):
                    return NEG
                if is_nonpos(a) or is_nonpos(b):
                    return NONPOS
                return TOP
            if f in ("norm", "abs", "absolute", "sqrt"):
                return NONNEG
            if f in ("zeros_like", "zeros"):
                return ZERO
            if f in ("ones_like", "ones", "eye"):
                return NONNEG
            if f == "exp":
                return POS
            return TOP
        return TOP

    def refine(self, test, truth):
        """Refine env with a comparison `a <= b` / `a < b` / ... assumed `truth`.  Only the pattern
        (name REL expr) with a one-signed expr is used."""
        if not isinstance(test, ast.Compare) or len(test.ops) != 1:
            return
        l, r = test.left, test.comparators[0]
        op = type(test.ops[0])
        if not truth:
            op = {ast.LtE: ast.Gt, ast.Lt: ast.GtE, ast.GtE: ast.Lt, ast.Gt: ast.LtE}.get(op)
            if op is None:
                return
        key = norm_src(l) if isinstance(l, (ast.Name, ast.Attribute)) else None
        if key is None:
            return
        cur = self.env.get(key, TOP)
        rs = self.of(r)
        if op is ast.Gt and is_nonneg(rs):
            self.env[key] = POS
        elif op is ast.GtE and is_nonneg(rs):
            self.env[key] = POS if rs == POS else (cur if cur in (POS,) else NONNEG)
        elif op is ast.Lt and is_nonpos(rs):
            self.env[key] = NEG
        elif op is ast.LtE and is_nonpos(rs):
            self.env[key] = NEG if rs == NEG else NONPOS
