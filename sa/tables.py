"""Frozen, hand-confirmed instance tables.  One line of reason per entry."""

# (factory function, parameter) -> (classes, reason)
FACTORY_PARAM_BASES = {
    ("Meshed", "Base"): (
        ["Frame", "RigidBody", "PointMass"],
        "all call sites of Meshed/Box/Sphere/... in cardillo/, examples/, test/ pass Frame, RigidBody or PointMass "
        "(docstring: 'typically with Base Frame or RigidBody')",
    ),
}

# Subsystems that joints, contacts, forces and interactions are documented to accept (class docstrings:
# "RigidBody or CosseratRod", Frame as prescribed-motion body, PointMass for spherical/two-point use).
KINEMATIC_SUBSYSTEMS = ["Frame", "PointMass", "RigidBody", "CosseratRod"]
# methods that are only required from subsystems having an orientation (`hasattr(subsystem, "A_IB")` idiom)
ORIENTATION_METHODS = {"A_IB", "A_IB_q", "B_Omega", "B_Omega_q", "B_Psi", "B_Psi_q", "B_Psi_u", "B_J_R", "B_J_R_q"}

# Subsystems documented as supported by scalar force laws and actuators ("Object providing the interface for a scalar
# force law, e.g., Revolute, TwoPointInteraction")
SCALAR_SUBSYSTEMS = ["TwoPointInteraction", "Revolute"]
