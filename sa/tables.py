"""Frozen, hand-confirmed instance tables.  One line of reason per entry."""

# (factory function, parameter) -> (classes, reason)
FACTORY_PARAM_BASES = {
    ("Meshed", "Base"): (
        ["Frame", "RigidBody", "PointMass"],
        "all call sites of Meshed/Box/Sphere/... in cardillo/, examples/, test/ pass Frame, RigidBody or PointMass "
        "(docstring: 'typically with Base Frame or RigidBody')",
    ),
}

# Subsystems that joints, contacts, forces and interactions are documented to accept (class docstrings:
# "RigidBody or CosseratRod", Frame as prescribed-motion body, PointMass for spherical/two-point use).
KINEMATIC_SUBSYSTEMS = ["Frame", "PointMass", "RigidBody", "CosseratRod"]
# methods that are only required from subsystems having an orientation (`hasattr(subsystem, "A_IB")` idiom)
ORIENTATION_METHODS = {"A_IB", "A_IB_q", "B_Omega", "B_Omega_q", "B_Psi", "B_Psi_q", "B_Psi_u", "B_J_R", "B_J_R_q"}

# Subsystems documented as supported by scalar force laws and actuators ("Object providing the interface for a scalar
# force law, e.g., Revolute, TwoPointInteraction")
SCALAR_SUBSYSTEMS = ["TwoPointInteraction", "Revolute"]

# Row-group polarities of the joint base classes (K9, sa/twobody.py: rowgroup_polarity), confirmed by hand from the formulas.
# Orientation constraint  g = e_a . e_b  with e_a = A_IJ1[:, a] (body 1), e_b = A_IJ2[:, b] (body 2), n = e_a x e_b:
#   g_q      = [ e_b . dA1[:, a]  |  e_a . dA2[:, b] ]                                          -> basis terms  +1
#   g_dot    = n . (Omega1 - Omega2)                                                          -> rotational   -1
#   g_dot_q  = [ n . dOmega1 + (Omega21 x e_b) . dA1[:, a]  |  -n . dOmega2 - (Omega21 x e_a) . dA2[:, b] ]   (Omega21 = Omega2 - Omega1,
#              cross products written with the non-basis vector first)                          -> rotational -1, basis -1
#   dn/dq    = [ -skew(e_b) dA1[:, a]  |  +skew(e_a) dA2[:, b] ]  (enters Wla_g_q)               -> basis      -1
# key: (class, routine, row subscript text, family, tag kind) -> sign(body 2 terms) / sign(body 1 terms)
JOINT_ROW_POLARITY = {
    ("PositionOrientationBase", "g_q", "3 + i", "B", "q"): 1,
    ("PositionOrientationBase", "g_dot_q", "3 + i", "B", "q"): -1,
    ("PositionOrientationBase", "g_dot_q", "3 + i", "R", "q"): -1,
    ("PositionOrientationBase", "Wla_g_q", ":nu1", "B", "q"): -1,
    ("PositionOrientationBase", "Wla_g_q", "nu1:", "B", "q"): -1,
    ("PositionOrientationBase", "g_dot", "3 + i", "R", ""): -1,
    ("ProjectedPositionOrientationBase", "g_q", "self.nla_g_trans + i", "B", "q"): 1,
    ("ProjectedPositionOrientationBase", "g_dot_q", "self.nla_g_trans + i", "B", "q"): -1,
    ("ProjectedPositionOrientationBase", "g_dot_q", "self.nla_g_trans + i", "R", "q"): -1,
    ("ProjectedPositionOrientationBase", "g_dot", "self.nla_g_trans + i", "R", ""): -1,
}
