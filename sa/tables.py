"""Frozen, hand-confirmed instance tables.  One line of reason per entry."""

# (factory function, parameter) -> (classes, reason)
FACTORY_PARAM_BASES = {
    ("Meshed", "Base"): (
        ["Frame", "RigidBody", "PointMass"],
        "all call sites of Meshed/Box/Sphere/... in cardillo/, examples/, test/ pass Frame, RigidBody or PointMass "
        "(docstring: 'typically with Base Frame or RigidBody')",
    ),
}
