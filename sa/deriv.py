"""K5 derivative-companion coverage (placeholder until the engine lands)."""


def run_c06(ctx):
    return
