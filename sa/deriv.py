"""K5 derivative-companion coverage (chain-rule structure).

For a primal F and a stated derivative F_x of the same class:
  atoms_x(F)  = callables `self.a(...)` evaluated by F with an x-dependent argument
  for every atom a with an existing, not identically zero companion a_x:  F_x must reference a_x
Accepted idioms for F_x: companions present; delegation (`return self.W(t, q).T`); numerical differentiation through
approx_fprime; `raise NotImplementedError`.

Why necessary: if F depends on a(x) and da/dx != 0, the true derivative contains dF/da * a_x; a routine that never
evaluates a_x (nor differentiates numerically) cannot equal it for all states.  Not decided: coefficients, signs.
"""
from __future__ import annotations

import ast
import re

from .core import dotted, norm_src, is_raise_notimpl
from .protocol import ClassView, walk_own

# ---- companion name tables (frozen after reading the code; regex -> candidate names) ------------------
Q_SUFFIXES = ["_q", "_q1", "_q2", "_q1_q2", "_qe"]
U_SUFFIXES = ["_u", "_u1", "_u2", "_ue"]

SUBSYS_RECV = ("subsystem",)
Q_ALIAS = [
    # scalar force-law kernels f(t, l, l_dot[, la_c]) depend on q through l (and l_dot)
    (r"^_la_c$", ["_la_c_l", "_la_c_l_dot"]), (r"^_c$", ["_c_l", "_c_l_dot"]),
    (r"^__c$", ["__c_q"]), (r"^force$", ["force_q"]),
    (r"^_eval$", ["_deval"]),  # rod kernels: _deval returns _eval's outputs plus their qe-derivatives
]
E_ALIAS = [
    # energy atom -> the generalized force direction through which the force enters h  (E_pot <-> h coverage)
    (r"^l$", ["W_l", "l_q", "subsystem.W_l"]), (r"^r_OP$", ["J_P", "r_OP_q"]), (r"^_E_pot$", ["la_c", "_la_c"]),
    (r"^E_pot_el$", ["f_int_el", "f_pot_el"]),
]
U_ALIAS = [
    # velocity-like quantity -> Jacobian w.r.t. u   (reason: naming convention v = J u + ...)
    (r"^v_P$", ["J_P"]), (r"^v_J([12])$", [r"J_J\1"]), (r"^v_C([12])$", [r"J_C\1"]),
    (r"^Omega$", ["J_R"]), (r"^B_Omega$", ["B_J_R", "basis_functions_p", "basis_functions_r"]),  # rods assemble dB_Omega/du = N (x) I inline
    (r"^Omega([12])$", [r"J_R\1", r"J\1_R"]),
    (r"^q_dot$", ["q_dot_u"]), (r"^g_dot$", ["W_g", "g_dot_u"]), (r"^g_N_dot$", ["g_N_dot_u", "W_N"]),
    (r"^gamma_F$", ["gamma_F_u", "W_F"]), (r"^gamma$", ["gamma_u", "W_gamma"]), (r"^l_dot$", ["l_dot_u", "W_l"]),
    (r"^v_P1P2$", []), (r"^_la_c$", ["_la_c_l_dot"]), (r"^_c$", ["_c_l_dot"]),
]
T_ALIAS = [
    # quantity -> its time derivative (or, failing that, the q-derivative used through q_dot)
    (r"^r_OP$", ["v_P"]), (r"^v_P$", ["a_P"]), (r"^r_OJ([12])$", [r"v_J\1"]), (r"^v_J([12])$", [r"a_J\1"]),
    (r"^r_OC([12])$", [r"v_C\1"]), (r"^v_C([12])$", [r"a_C\1"]), (r"^r_OQ$", ["v_Q"]), (r"^v_Q$", ["a_Q"]),
    (r"^A_IB$", ["B_Omega", "Omega"]), (r"^A_IB([12])$", [r"Omega\1"]), (r"^A_IJ([12])$", [r"Omega\1"]),
    (r"^Omega$", ["Psi"]), (r"^B_Omega$", ["B_Psi"]), (r"^Omega([12])$", [r"Psi\1"]),
    (r"^Omega_F_tilde$", ["Psi_F_tilde"]), (r"^n$", ["n_dot", "n_q1_q2"]), (r"^n_dot$", ["n_ddot"]),
    (r"^t1t2$", ["t1t2_dot", "t1t2_q1_q2"]), (r"^t1t2_dot$", ["t1t2_ddot"]),
    (r"^l$", ["l_dot"]), (r"^_n$", ["_n_q", "v_P1", "v_P2"]),
    (r"^r_OP__$", ["r_OP_t__"]), (r"^r_OP_t__$", ["r_OP_tt__"]), (r"^A_IB__$", ["A_IB_t__"]), (r"^A_IB_t__$", ["A_IB_tt__"]),
    (r"^J_P$", ["J_P_q", "kappa_P"]), (r"^J_J([12])$", [r"J_J\1_q\1", r"a_J\1"]), (r"^J_R([12])$", [r"J_R\1_q\1", r"Psi\1"]),
]


def _alias(table, name):
    out = []
    for pat, cands in table:
        m = re.match(pat, name)
        if m:
            out += [m.expand(c) for c in cands]
    return out


class K5:
    def __init__(self, ctx, ci, variant=None):
        self.ctx = ctx
        self.view = ClassView(ctx, ci, variant)
        self.ci = ci

    # ---------------------------------------------------------------
    def callable_kind(self, name):
        k = self.view.kind(name)
        return k if k in ("method", "lambda", "alias") else None

    def is_zero(self, name):
        """companion provably returns zeros (every definition)."""
        bodies = self.view.bodies(name)
        if not bodies:
            return False
        for (c, b, kind, sn) in bodies:
            if kind == "lambda":
                e = b.body
            else:
                st = [s for s in b.body if not (isinstance(s, ast.Expr) and isinstance(s.value, ast.Constant))]
                if len(st) != 1 or not isinstance(st[0], ast.Return) or st[0].value is None:
                    return False
                e = st[0].value
            if not (isinstance(e, ast.Call) and (dotted(e.func) or "") in ("np.zeros", "zeros", "np.zeros_like")):
                return False
        return True

    def tainted_names(self, body, seeds):
        """locals (transitively) assigned from expressions mentioning a seed name."""
        t = set(seeds)
        changed = True
        while changed:
            changed = False
            for n in walk_own(body):
                if isinstance(n, ast.Assign):
                    if {x.id for x in ast.walk(n.value) if isinstance(x, ast.Name)} & t:
                        for tg in n.targets:
                            for e in ast.walk(tg):
                                if isinstance(e, ast.Name) and e.id not in t:
                                    t.add(e.id)
                                    changed = True
        return t

    def atoms(self, name, dep, depth=0):
        """callable self-attributes evaluated by `name` with a dep-dependent argument (helpers without companions are inlined)."""
        out = {}
        for (c, b, kind, sn) in self.view.bodies(name):
            params = [a.arg for a in (b.args.args if hasattr(b, "args") else [])]
            if dep == "t":
                seeds = set(params) - {sn}
            else:
                seeds = {p for p in params if p == dep or p == dep + "e" or p.startswith(dep + "_") and p in (dep + "_pre", dep + "_post")}
                if not seeds:
                    continue
            tn = self.tainted_names(b, seeds)
            for n in walk_own(b):
                if not (isinstance(n, ast.Call) and isinstance(n.func, ast.Attribute)):
                    continue
                recv = n.func.value
                a = None
                if isinstance(recv, ast.Name) and recv.id == sn:
                    a = n.func.attr
                    if self.callable_kind(a) is None:
                        continue
                elif isinstance(recv, ast.Attribute) and isinstance(recv.value, ast.Name) and recv.value.id == sn and recv.attr in SUBSYS_RECV:
                    a = f"{recv.attr}.{n.func.attr}"
                if a is None:
                    continue
                argnames = {x.id for arg in list(n.args) + [k.value for k in n.keywords] for x in ast.walk(arg) if isinstance(x, ast.Name)}
                if dep == "t" or (argnames & tn):
                    out.setdefault(a, n)
        # helpers without any companion are inlined (e.g. W_N -> g_N_dot_u, private _compute helpers)
        if depth < 2:
            for a in list(out):
                ex, nz = self.companions(a, dep)
                if not ex and self.view.bodies(a) and a != name:
                    for a2, n2 in self.atoms(a, dep, depth + 1).items():
                        out.setdefault(a2, n2)
        return out

    def companions(self, a, dep):
        prefix = ""
        base = a
        if "." in a:
            prefix, base = a.rsplit(".", 1)
            prefix += "."
        if dep == "q":
            cands = [base + s for s in Q_SUFFIXES] + _alias(Q_ALIAS, base)
        elif dep == "u":
            cands = [base + s for s in U_SUFFIXES] + _alias(U_ALIAS, base)
        elif dep == "E":
            cands = _alias(E_ALIAS, base)
        else:
            cands = [base + "_dot", base + "_t"] + _alias(T_ALIAS, base)
        if prefix:
            ex = [prefix + c for c in cands if self.subsystem_has(prefix[:-1], c)]
            return ex, list(ex)
        ex = [c for c in cands if (self.subsystem_has(c.split(".")[0], c.split(".")[1]) if "." in c else self.callable_kind(c) is not None)]
        nz = [c for c in ex if "." in c or not self.is_zero(c)]
        return ex, nz

    def subsystem_has(self, recv, name):
        """all supported scalar-interface subsystem classes provide `name`."""
        from . import tables
        model = self.ctx.model
        for cname in tables.SCALAR_SUBSYSTEMS:
            if not model.has_attr(model.cls(cname), name):
                return False
        return True

    def refs(self, name, depth=0, seen=None):
        """self attributes referenced by `name` (following delegations / private helpers one level)."""
        seen = seen if seen is not None else set()
        out = set()
        if name in seen or depth > 2:
            return out
        seen.add(name)
        for (c, b, kind, sn) in self.view.bodies(name):
            for n in walk_own(b):
                if isinstance(n, ast.Attribute) and isinstance(n.value, ast.Name) and n.value.id == sn and isinstance(n.ctx, ast.Load):
                    out.add(n.attr)
                if isinstance(n, ast.Attribute) and isinstance(n.value, ast.Attribute) and isinstance(n.value.value, ast.Name) \
                        and n.value.value.id == sn and n.value.attr in SUBSYS_RECV:
                    out.add(f"{n.value.attr}.{n.attr}")
        for a in list(out):
            if self.callable_kind(a) in ("method",) and depth < 1:
                out |= self.refs(a, depth + 1, seen)
        # alias stores: self.gamma_F = self.__gamma_F
        for (c2, s) in self.view.stores(name):
            if s.kind == "alias" and isinstance(s.value.value, ast.Name):
                out |= self.refs(s.value.attr, depth, seen)
        return out

    def idiom(self, name):
        """'numeric' / 'notimpl' / None."""
        res = None
        for (c, b, kind, sn) in self.view.bodies(name):
            if kind == "method" and is_raise_notimpl(b):
                return "notimpl"
            for n in ast.walk(b):
                if isinstance(n, ast.Call) and (dotted(n.func) or "").split(".")[-1] == "approx_fprime":
                    res = "numeric"
        for (c2, s) in self.view.stores(name):
            if s.kind == "alias" and isinstance(s.value.value, ast.Name):
                r = self.idiom(s.value.attr)
                if r:
                    return r
        return res

    def resolve_alias(self, name):
        for (c2, s) in self.view.stores(name):
            if s.kind == "alias" and isinstance(s.value.value, ast.Name) and not self.view.bodies(name):
                return s.value.attr
        return name

    # ---------------------------------------------------------------
    def check_pair(self, rep, rule, primal, deriv, dep, file_rel):
        primal_r, deriv_r = self.resolve_alias(primal), self.resolve_alias(deriv)
        if not self.view.bodies(primal_r) or not self.view.bodies(deriv_r):
            return
        C = f"{self.ci.rel}:{self.ci.qual}.{deriv}"
        idi = self.idiom(deriv_r)
        label = {"q": "d/dq", "u": "d/du", "t": "d/dt"}[dep]
        if idi:
            rep.ok(rule, C, f"{label} {primal}: accepted idiom ({'numerical differentiation' if idi == 'numeric' else 'declared unimplemented'})", trivial=True)
            return
        atoms = self.atoms(primal_r, dep)
        refs = self.refs(deriv_r)
        missing = []
        n_obl = 0
        for a, call in sorted(atoms.items()):
            ex, nz = self.companions(a, dep)
            if not nz:
                continue
            n_obl += 1
            if not (set(ex) & refs):
                missing.append((a, nz, call))
        if missing:
            for a, nz, call in missing:
                line = self.view.bodies(deriv_r)[0][1].lineno
                rep.bad(rule, C, f"{label} of {primal}: term through {a}",
                        f"`{primal}` evaluates `{a}(...)`, whose {label} companion {nz} is not identically zero, but `{deriv}` never "
                        f"references it: the chain-rule term d{primal}/d{a} * {nz[0]} is missing", f"{self.ci.rel}:{line}")
        else:
            rep.ok(rule, C, f"{label} {primal}: {n_obl} chain-rule companions all referenced ({', '.join(sorted(atoms))[:80]})", trivial=n_obl == 0)


TIME_CHAINS = [("g", "g_dot"), ("g_dot", "g_ddot"), ("g_N", "g_N_dot"), ("g_N_dot", "g_N_ddot"), ("gamma_F", "gamma_F_dot"),
               ("gamma", "gamma_dot"), ("l", "l_dot"), ("r_OP", "v_P"), ("v_P", "a_P")]
W_PAIRS = [("W_g", "Wla_g_q"), ("W_gamma", "Wla_gamma_q"), ("W_c", "Wla_c_q"), ("W_N", "Wla_N_q"), ("W_F", "Wla_F_q"),
           ("W_tau", "Wla_tau_q"), ("W_l", "W_l_q"), ("W_c_el", "Wla_c_el_qe"), ("W_g_el", "Wla_g_q_el"), ("g_el", "g_q_el")]


def pairs_of(k5: K5):
    """(primal, derivative, dep) pairs of a class by naming convention."""
    names = set()
    for c in k5.view.mro:
        names |= set(c.methods) | {a for a, sts in c.stores.items() if all(s.kind in ("lambda", "alias") for s in sts)}
    out = []
    for n in sorted(names):
        for suf, dep in (("_q", "q"), ("_qe", "q"), ("_u", "u"), ("_ue", "u")):
            if n.endswith(suf) and n[: -len(suf)] in names and not n.startswith("Wla_"):
                out.append((n[: -len(suf)], n, dep))
    for p, d in W_PAIRS:
        if p in names and d in names:
            out.append((p, d, "q"))
    for p, d in TIME_CHAINS:
        if p in names and d in names:
            out.append((p, d, "t"))
    # u-derivatives with alias names
    for p, d in (("g_dot", "W_g"), ("g_N_dot", "g_N_dot_u"), ("gamma_F", "gamma_F_u"), ("gamma", "gamma_u"), ("l_dot", "W_l")):
        if p in names and d in names and (p, d, "u") not in out:
            out.append((p, d, "u"))
    return out


def run_class(ctx, rule, ci, variant=None, only=None):
    k5 = K5(ctx, ci, variant)
    n = 0
    for (p, d, dep) in pairs_of(k5):
        if only is not None and not only(p, d, dep):
            continue
        k5.check_pair(ctx.rep, rule, p, d, dep, ci.rel)
        n += 1
    return n


def run_c06(ctx):
    rep = ctx.rep
    rep.rule("C06.R5", "chain-rule coverage of contact derivatives and time chains (K5)", 20)
    n = 0
    for ci in ctx.model.all_classes():
        if ci.rel.startswith("cardillo/contacts/") and "g_N" in ci.methods:
            n += run_class(ctx, "C06.R5", ci)
    return n
