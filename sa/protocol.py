"""K2 protocol rules: attribute resolution per class (MRO + external setters), callable misuse,
reachability of methods from the System dispatch table."""
from __future__ import annotations

import ast

from .core import dotted, norm_src, walk_no_nested

SYS = "cardillo/system.py"


def walk_own(body):
    """ast.walk that does not descend into lambdas stored on attributes / nested defs (those are separate callables);
    when `body` itself is a Lambda its own body is walked."""
    stack = [body]
    first = True
    while stack:
        n = stack.pop()
        if not first and isinstance(n, (ast.Lambda, ast.FunctionDef, ast.ClassDef)):
            # a lambda that is directly assigned to self.X is a separate callable
            par = getattr(n, "_parent", None)
            if isinstance(n, ast.Lambda) and isinstance(par, ast.Assign) and any(
                    isinstance(t, ast.Attribute) and isinstance(t.value, ast.Name) and t.value.id == "self" for t in par.targets):
                continue
            if isinstance(n, (ast.FunctionDef, ast.ClassDef)):
                continue
        first = False
        yield n
        stack.extend(ast.iter_child_nodes(n))


def external_setters(ctx):
    """Attributes that System code stores on contributions: contr.X = ... (derived from cardillo/system.py),
    plus the ones solvers/utilities store.  Returned as a set of names (conditions are ignored: sound direction)."""
    cached = getattr(ctx, "_ext_setters", None)
    if cached is not None:
        return cached
    out = set()
    ctx._ext_setters = out
    mod = ctx.repo.module(SYS)
    for n in ast.walk(mod.tree):
        tg = []
        if isinstance(n, ast.Assign):
            tg = n.targets
        elif isinstance(n, ast.AugAssign):
            tg = [n.target]
        for t in tg:
            for e in (t.elts if isinstance(t, (ast.Tuple, ast.List)) else [t]):
                if isinstance(e, ast.Attribute) and isinstance(e.value, ast.Name) and e.value.id in ("contr", "self.origin"):
                    out.add(e.attr)
                if isinstance(e, ast.Attribute) and dotted(e.value) == "self.origin":
                    out.add(e.attr)
    return out


def mangle(cls_name, attr):
    return attr


class ClassView:
    """Attribute universe of a class variant."""

    def __init__(self, ctx, ci, variant=None):
        self.ctx, self.ci, self.variant = ctx, ci, variant
        self.model = ctx.model
        self.ext = external_setters(ctx)
        self.mro = self.model.mro(ci, variant)

    def kind(self, name):
        for c in self.mro:
            if name in c.methods:
                fn = c.methods[name]
                if any(norm_src(d) == "property" for d in fn.decorator_list):
                    return "data"
                return "method"
            if name in c.stores:
                kinds = {s.kind for s in c.stores[name]}
                if kinds == {"lambda"}:
                    return "lambda"
                if kinds <= {"alias", "lambda"}:
                    return "alias"
                return "data"
            if name in c.class_attrs:
                return "data"
        if name in self.ext:
            return "data"
        return None

    def method(self, name):
        for c in self.mro:
            if name in c.methods:
                return c, c.methods[name]
        return None, None

    def stores(self, name):
        out = []
        for c in self.mro:
            out += [(c, s) for s in c.stores.get(name, [])]
        return out

    def reachable(self, roots):
        """Callables (methods / lambda stores) transitively referenced through `self.X` from the root method names.
        Returns dict name -> list of (class, ast body node, kind)."""
        seen = {}
        work = list(roots)
        while work:
            nm = work.pop()
            if nm in seen:
                continue
            bodies = self.bodies(nm)
            for (c2, s) in self.stores(nm):
                if s.kind == "alias" and isinstance(s.value.value, ast.Name):
                    work.append(s.value.attr)  # self.gamma_F = self.__gamma_F
            seen[nm] = [(c, b, k) for (c, b, k, sn) in bodies]
            for (_, b, _, sn) in bodies:
                for n in walk_own(b):
                    if isinstance(n, ast.Attribute) and isinstance(n.value, ast.Name) and n.value.id == sn and isinstance(n.ctx, ast.Load):
                        if n.attr not in seen:
                            work.append(n.attr)
        return seen

    def bodies(self, nm):
        """[(class, body ast, kind, selfname)] of the callable `nm` (method or lambda stores)."""
        c, fn = self.method(nm)
        if fn is not None:
            sn = fn.args.args[0].arg if fn.args.args else "self"
            return [(c, fn, "method", sn)]
        out = []
        for (c2, s) in self.stores(nm):
            if s.kind == "lambda":
                out.append((c2, s.value, "lambda", s.selfname))
        return out

    def selfname_of(self, body):
        """receiver name used inside a body returned by reachable()."""
        if isinstance(body, ast.FunctionDef):
            return body.args.args[0].arg if body.args.args else "self"
        par = getattr(body, "_parent", None)
        if isinstance(par, ast.Assign):
            for t in par.targets:
                if isinstance(t, ast.Attribute) and isinstance(t.value, ast.Name):
                    return t.value.id
        return "self"


def unresolved_reads(view: ClassView, body, selfname="self"):
    """self.X loads in `body` that resolve to nothing in the MRO / external setters."""
    out = []
    for n in walk_own(body):
        if isinstance(n, ast.Attribute) and isinstance(n.value, ast.Name) and n.value.id == selfname and isinstance(n.ctx, ast.Load):
            if view.kind(n.attr) is None:
                # hasattr-guarded?  `if hasattr(self, "X")`
                out.append(n)
    return out


ARITH = (ast.BinOp, ast.UnaryOp, ast.Compare)


def callable_misuse(view: ClassView, body, selfname="self"):
    """`self.X` used as an arithmetic operand / subscripted although X is a method or a lambda attribute."""
    out = []
    for n in walk_own(body):
        operands = []
        if isinstance(n, ast.BinOp):
            operands = [n.left, n.right]
        elif isinstance(n, ast.UnaryOp) and not isinstance(n.op, ast.Not):
            operands = [n.operand]
        elif isinstance(n, ast.Subscript):
            operands = [n.value]
        elif isinstance(n, ast.Attribute) and n.attr in ("T", "shape") and isinstance(n.value, ast.Attribute):
            operands = [n.value]
        for o in operands:
            if isinstance(o, ast.Attribute) and isinstance(o.value, ast.Name) and o.value.id == selfname:
                k = view.kind(o.attr)
                if k in ("method", "lambda"):
                    out.append((n, o))
    return out


def subsystem_calls(body, recv_names=("subsystem", "subsystem1", "subsystem2", "frame", "rod")):
    """Calls `<x>.<recv>.<m>(...)` in body -> list of (recv, m, call)."""
    out = []
    for n in ast.walk(body):
        if isinstance(n, ast.Call) and isinstance(n.func, ast.Attribute):
            r = n.func.value
            if isinstance(r, ast.Attribute) and r.attr in recv_names and isinstance(r.value, ast.Name):
                out.append((r.attr, n.func.attr, n))
            elif isinstance(r, ast.Name) and r.id in recv_names:
                out.append((r.id, n.func.attr, n))  # closure variable `subsystem` (forces/moments)
    return out


def check_subsystem_protocol(ctx, rule, construct, calls, classes=None, rel=""):
    """Every (method, call) is provided with a compatible signature by every supported subsystem class."""
    from . import tables
    from .core import arity
    rep = ctx.rep
    model = ctx.model
    classes = classes or tables.KINEMATIC_SUBSYSTEMS
    seen = set()
    vcache = ctx.__dict__.setdefault("_view_cache", {})

    def views(cname):
        if cname not in vcache:
            ci = model.cls(cname)
            vcache[cname] = [(variant, ClassView(ctx, ci, variant)) for variant in model.variants(ci)]
        return vcache[cname]

    for (recv, m, call) in calls:
        key = (m, len(call.args), tuple(sorted(k.arg or "**" for k in call.keywords)))
        if key in seen:
            continue
        seen.add(key)
        for cname in classes:
            for variant, view in views(cname):
                if m in tables.ORIENTATION_METHODS and view.kind("A_IB") is None:
                    continue  # hasattr(subsystem, "A_IB") idiom: not required from orientation-less subsystems
                k = view.kind(m)
                vtag = ",".join(v for _, v in sorted(variant.items()))
                if k is None:
                    rep.bad(rule, construct, call, f"supported subsystem class {cname}{'[' + vtag + ']' if vtag else ''} has no `{m}` (AttributeError for this pairing)",
                            f"{rel}:{call.lineno}")
                    break
                if k == "method":
                    c, fn = view.method(m)
                    mn, mx, kws, haskw = arity(fn)
                    npos = len(call.args)
                    given_kw = [kk.arg for kk in call.keywords if kk.arg]
                    pos_names = [a.arg for a in fn.args.posonlyargs + fn.args.args][1:]
                    missing = [p for p in pos_names[npos:mn - 1] if p not in given_kw]
                    bad_kw = [kk for kk in given_kw if kk not in kws and not haskw]
                    dup = [kk for kk in given_kw if kk in pos_names[:npos]]
                    if (mx is not None and npos > mx - 1) or missing or bad_kw or dup:
                        why = f"unknown keyword {bad_kw}" if bad_kw else (f"missing {missing}" if missing else (f"duplicate {dup}" if dup else "too many positional arguments"))
                        rep.bad(rule, construct, call, f"call does not match {cname}.{m}({norm_src(fn.args)}): {why}", f"{rel}:{call.lineno}")
                        break
            else:
                continue
            break
        else:
            rep.ok(rule, construct, f"subsystem.{m}({len(call.args)} positional{', ' + ','.join(k.arg or '**' for k in call.keywords) if call.keywords else ''}) provided by {', '.join(classes)}")


# ------------------------------------------------------------------ point-argument agreement
POINT_METHODS = {"r_OP", "r_OP_t", "r_OP_q", "v_P", "v_P_q", "a_P", "a_P_q", "a_P_u", "J_P", "J_P_q", "kappa_P", "kappa_P_q", "kappa_P_u"}


def point_argument_agreement(ctx, rule, owners, ref_class="RigidBody"):
    """owners: [(construct label, rel, ast node)].  Inside one owner every call of the subsystem point protocol on the same
    receiver (r_OP, v_P, a_P, J_P and their derivatives) must name the same material point, i.e. pass the same `xi` and the
    same `B_r_CP`: force, energy, velocity and Jacobian of a force element / joint / contact belong to ONE point.
    Call arguments are mapped to parameter names through the reference signature of the supported subsystems."""
    rep = ctx.rep
    model = ctx.model
    ref = model.cls(ref_class)
    n_groups = 0
    for label, rel, node in owners:
        groups = {}
        for (recv, m, call) in subsystem_calls(node):
            if m not in POINT_METHODS:
                continue
            # only the kinematic accessor table (lambdas stored on the object); methods such as `export` evaluate other points on purpose
            lam = call
            while lam is not None and not isinstance(lam, ast.Lambda):
                lam = getattr(lam, "_parent", None)
            if lam is None or not isinstance(getattr(lam, "_parent", None), ast.Assign):
                continue
            c, fn = model.find_method(ref, m)
            if fn is None:
                continue
            params = [a.arg for a in fn.args.args][1:]
            got = {}
            for i, a in enumerate(call.args):
                if i < len(params):
                    got[params[i]] = norm_src(a)
            for k in call.keywords:
                if k.arg:
                    got[k.arg] = norm_src(k.value)
            groups.setdefault(recv, []).append((m, call, got.get("xi"), got.get("B_r_CP")))
        for recv, lst in sorted(groups.items()):
            if len(lst) < 2:
                continue
            n_groups += 1
            C = f"{rel}:{label}"
            for key, idx in (("xi", 2), ("B_r_CP", 3)):
                vals = {}
                for item in lst:
                    vals.setdefault(item[idx], []).append(item)
                if len(vals) == 1:
                    rep.ok(rule, C, f"{len(lst)} point-protocol calls on `{recv}` all pass {key}={list(vals)[0]}")
                    continue
                major = max(vals.items(), key=lambda kv: len(kv[1]))[0]
                for v, items in vals.items():
                    if v == major:
                        continue
                    for (m, call, _, _) in items:
                        rep.bad(rule, C, call, f"`{recv}.{m}` is evaluated with {key}={v} while the other {len(vals[major])} point-protocol calls of this element use "
                                f"{key}={major}: position/energy, velocity and force direction no longer refer to the same material point", f"{rel}:{call.lineno}")
    return n_groups


def state_slice_agreement(ctx, rule, owners, ref_class="RigidBody"):
    """owners: [(construct label, rel, ast node)].  The kinematic accessor lambdas of a two-body element (contact, joint) hand each body
    ITS block of the element's coordinates: inside one owner, every call on the same receiver passes the same slice of the lambda's
    q / u / u_dot parameter (`q[:nq1]`, `u[nu1:]`, ...), the lambda parameters being named by position (t, q, u, u_dot) so that
    `a[nu1:]` and `u_dot[nu1:]` are the same thing.  A body evaluated with the other body's block (silent when both blocks have
    the same length, e.g. two rigid bodies) breaks every derivative chain that goes through that accessor."""
    rep = ctx.rep
    model = ctx.model
    ref = model.cls(ref_class)
    canon = ["t", "q", "u", "u_dot"]
    n_groups = 0
    for label, rel, node in owners:
        groups = {}
        for (recv, m, call) in subsystem_calls(node):
            lam = call
            while lam is not None and not isinstance(lam, ast.Lambda):
                lam = getattr(lam, "_parent", None)
            if lam is None or not isinstance(getattr(lam, "_parent", None), ast.Assign):
                continue
            c, fn = model.find_method(ref, m)
            if fn is None:
                continue
            lparams = [a.arg for a in lam.args.args]
            ren = {p: canon[i] for i, p in enumerate(lparams) if i < len(canon)}
            params = [a.arg for a in fn.args.args][1:]
            got = {}
            for i, a in enumerate(call.args):
                if i < len(params):
                    got[params[i]] = a
            for k in call.keywords:
                if k.arg:
                    got[k.arg] = k.value
            for p in ("q", "u", "u_dot"):
                a = got.get(p)
                if a is None:
                    continue
                names = {x.id for x in ast.walk(a) if isinstance(x, ast.Name)}
                if not (names & set(ren)):
                    continue
                import copy
                b = copy.deepcopy(a)
                for x in ast.walk(b):
                    if isinstance(x, ast.Name) and x.id in ren:
                        x.id = ren[x.id]
                groups.setdefault((recv, p), []).append((m, call, norm_src(b)))
        for (recv, p), lst in sorted(groups.items()):
            if len(lst) < 2:
                continue
            n_groups += 1
            C = f"{rel}:{label}"
            vals = {}
            for item in lst:
                vals.setdefault(item[2], []).append(item)
            if len(vals) == 1:
                rep.ok(rule, C, f"{len(lst)} accessor calls on `{recv}` all pass {p} = {list(vals)[0]}")
                continue
            major = max(vals.items(), key=lambda kv: len(kv[1]))[0]
            for v, items in vals.items():
                if v == major:
                    continue
                for (m, call, _) in items:
                    rep.bad(rule, C, call, f"`{recv}.{m}` is evaluated with {p} = {v} while the other {len(vals[major])} accessor calls on `{recv}` pass {p} = {major}: this body is "
                            f"handed the OTHER block of the element's coordinates (no error when both blocks have the same length), so the quantity built from it is not the "
                            f"time derivative / partial derivative of its siblings", f"{rel}:{call.lineno}")
    return n_groups
