"""K7 prox template: every contact fixed-point update has the shape
      la_N = -NegativeOrthant.prox(r_N * kinematic_N - la_N)            (optionally masked / np.where)
      la_F = -reservoir.prox(r_F * kinematic_F - la_F, la_N-of-linked-contact | dt | 1.0)
with the operands classified by provenance."""
from __future__ import annotations

import ast

from .core import dotted, norm_src

KIN_N = {"g_N", "xi_N", "g_N_ddot", "g_N_dot"}
KIN_F = {"gamma_F", "xi_F", "gamma_F_dot"}


def prox_calls(fn):
    out = []
    for n in ast.walk(fn):
        if isinstance(n, ast.Call) and isinstance(n.func, ast.Attribute) and n.func.attr == "prox" and not (isinstance(n.func.value, ast.Name) and n.func.value.id == "self"):
            out.append(n)
    return out


def names_in(e):
    return {x.id for x in ast.walk(e) if isinstance(x, ast.Name)} | {x.attr for x in ast.walk(e) if isinstance(x, ast.Attribute)}


def _stmt_of(call):
    n = call
    while n is not None and not isinstance(n, ast.stmt):
        n = getattr(n, "_parent", None)
    return n


def negated(call):
    """the prox call is the operand of a unary minus (possibly inside np.where / a mask product)."""
    p = getattr(call, "_parent", None)
    return isinstance(p, ast.UnaryOp) and isinstance(p.op, ast.USub)


def analyse_prox(call, resolver, local_kin):
    """Returns dict(kind='N'|'F', ok=bool, problems=[...], desc=str).
    local_kin: dict local name -> 'N'/'F' kinematic tags known from assignments (e.g. g_N_ddot = W_N.T @ u_dot + zeta_N)."""
    problems = []
    recv = norm_src(call.func.value)
    kind = "N" if "NegativeOrthant" in recv else "F"
    if not call.args:
        return dict(kind=kind, ok=False, problems=["prox called without argument"], desc=norm_src(call))
    arg = call.args[0]
    if not negated(call):
        problems.append("the projected force is not the negative of the prox (sign convention la = -prox(...))")
    # argument must be  r * kin - force
    if not (isinstance(arg, ast.BinOp) and isinstance(arg.op, ast.Sub)):
        # allow a local that was assigned r*kin - force
        if isinstance(arg, ast.Name) and arg.id in resolver.local and len(resolver.local[arg.id]) == 1 and isinstance(resolver.local[arg.id][0], ast.BinOp) \
                and isinstance(resolver.local[arg.id][0].op, ast.Sub):
            arg = resolver.local[arg.id][0]
        else:
            problems.append(f"prox argument `{norm_src(arg)}` is not of the form r*kinematic - force")
            return dict(kind=kind, ok=False, problems=problems, desc=norm_src(call))
    left, force = arg.left, arg.right
    if not (isinstance(left, ast.BinOp) and isinstance(left.op, ast.Mult)):
        problems.append(f"`{norm_src(left)}` is not r * kinematic")
        return dict(kind=kind, ok=False, problems=problems, desc=norm_src(call))
    a, b = left.left, left.right
    def is_r(e):
        return any("prox_r" in nm for nm in names_in(e))
    if is_r(a) and not is_r(b):
        r, kin = a, b
    elif is_r(b) and not is_r(a):
        r, kin = b, a
    else:
        problems.append(f"no unique prox parameter in `{norm_src(left)}`")
        return dict(kind=kind, ok=False, problems=problems, desc=norm_src(call))
    want_r = "prox_r_N" if kind == "N" else "prox_r_F"
    if not any(want_r in nm for nm in names_in(r)):
        problems.append(f"prox parameter `{norm_src(r)}` is not {want_r}* (normal/friction parameters swapped)")
    # kinematic provenance
    fam = resolver.families(kin)
    tags = set()
    for nm in names_in(kin):
        if nm in local_kin:
            tags.add(local_kin[nm])
    kinset = KIN_N if kind == "N" else KIN_F
    wrong = KIN_F if kind == "N" else KIN_N
    if (fam & wrong and not fam & kinset) or (tags == {"F" if kind == "N" else "N"}):
        problems.append(f"kinematic quantity `{norm_src(kin)}` is a {'friction' if kind == 'N' else 'normal'} quantity")
    elif not (fam & kinset) and kind not in tags:
        problems.append(f"kinematic quantity `{norm_src(kin)}` has no provenance from {sorted(kinset)}")
    # force operand must not contain prox parameter / kinematics
    fnames = names_in(force)
    if is_r(force) or (fnames & (KIN_N | KIN_F | {"xi_N", "xi_F"})):
        problems.append(f"subtracted operand `{norm_src(force)}` is not the force iterate")
    # friction: second argument = normal force of linked contact or dt / constant
    if kind == "F":
        if len(call.args) < 2:
            problems.append("friction prox without the reservoir scaling argument (normal force of the linked contact)")
        else:
            z = call.args[1]
            zs = norm_src(z)
            ok_z = False
            if isinstance(z, ast.Name) and z.id in resolver.local:
                vals = resolver.local[z.id]
                srcs = [norm_src(v) for v in vals]
                linked = [s for s in srcs if "i_N" in s]
                const = [s for s in srcs if s in ("self.dt", "1.0", "dt")]
                # 0.0: zero reservoir of a law whose normal contact is not active - only under the marker test `<i_N> is None`
                from .model import guards_of as _guards_of, parent as _parent
                for v in vals:
                    if norm_src(v) in ("0.0", "0"):
                        st = _parent(v)
                        fn_ = st
                        while fn_ is not None and not isinstance(fn_, (ast.FunctionDef, ast.Lambda)):
                            fn_ = _parent(fn_)
                        if st is not None and fn_ is not None and any(pol and t.endswith(" is None") and "i_N" in t for (t, pol) in _guards_of(st, fn_)):
                            const.append(norm_src(v))
                if linked and len(linked) + len(const) == len(srcs):
                    ok_z = True
                    # linked normal force must be a normal-force variable, not friction
                    for s in linked:
                        if "_F" in s.split("[")[0] and "_N" not in s.split("[")[0]:
                            ok_z = False
            if not ok_z:
                problems.append(f"reservoir scaling `{zs}` is not (normal force of the linked contact `[...i_N]` | dt | 1.0)")
    # friction: one scalar prox parameter per (vector valued) friction law.  P = -prox_C(r * xi - P) characterises
    # -xi in N_C(-P) (Coulomb: P opposes the slip) only for a scalar r > 0; with a per-component vector r the fixed point
    # satisfies -(r o xi) in N_C(-P), i.e. the friction force opposes the component-wise scaled slip.
    scalar_r, scalar_msg = None, ""
    if kind == "F":
        REDUCE = ("min", "max", "amin", "amax", "mean", "average", "median")
        def reduced(e):
            return isinstance(e, ast.Call) and (dotted(e.func) or "").split(".")[-1] in REDUCE
        def idx_of(e):
            return norm_src(e.slice) if isinstance(e, ast.Subscript) else None
        kin_idx = idx_of(kin) or idx_of(force)
        r_core = r
        if isinstance(r_core, ast.Name) and r_core.id in resolver.local and len(resolver.local[r_core.id]) == 1:
            r_core = resolver.local[r_core.id][0]
        if reduced(r_core) or isinstance(r_core, ast.Constant):
            scalar_r = True
        elif isinstance(r_core, ast.Subscript) and kin_idx is not None and idx_of(r_core) == kin_idx:
            scalar_r = False
            scalar_msg = (f"the friction projection uses the per-component prox parameters `{norm_src(r)}` (same index `{kin_idx}` as the slip components): for a friction "
                          f"law with more than one tangential component the fixed point is then -(r o xi) in N_C(-P) instead of Coulomb's -xi in N_C(-P), so the friction "
                          f"force does not oppose the slip whenever the components of r differ; a single scalar (e.g. min(r[{kin_idx}])) is required")
        else:
            scalar_r = None
    return dict(kind=kind, ok=not problems, problems=problems, desc=norm_src(call)[:140], scalar_r=scalar_r, scalar_msg=scalar_msg)


def local_kinematics(fn, resolver):
    """tags for locals assigned from W_N.T @ u (+...) / W_F.T @ u style expressions or system kinematics."""
    tags = {}
    for name, vals in resolver.local.items():
        for v in vals:
            if v is None:
                continue
            s = norm_src(v)
            fam = resolver.families(v)
            # direct contribution calls: contr.gamma_F(...), contr.g_N(...)
            fam |= {c.func.attr for c in ast.walk(v) if isinstance(c, ast.Call) and isinstance(c.func, ast.Attribute) and c.func.attr in (KIN_N | KIN_F)}
            if fam & KIN_N or "W_N.T" in s:
                tags[name] = "N"
            elif fam & KIN_F or "W_F.T" in s:
                tags[name] = "F"
    return tags


import re as _re

F_ARRAY = _re.compile(r"^(la_F|P_F|Pi_F|dP_F|prox_r_F|gamma_F|xi_F|e_F)")
N_ARRAY = _re.compile(r"^(la_N|P_N|Pi_N|dP_N|prox_r_N|g_N|xi_N|e_N)")


def check_locality(fn, tags):
    """Inside `for i_N, i_F, reservoir in <friction laws>` every friction-level array (kinematics, force iterate, prox parameter)
    defined outside the loop must be used through `[... i_F ...]`, every normal-level array through `[... i_N ...]`: the
    stick/slip decision and the projection of one contact may only look at that contact's own components.
    Returns (n_checked, [(node, message)])."""
    out = []
    n_ok = 0
    # kind by definition beats kind by name: `Pi_Nn1_contr = Pi_Fn1[la_FDOF]` holds friction percussions
    by_def = {}
    for n in ast.walk(fn):
        if isinstance(n, ast.Assign) and len(n.targets) == 1 and isinstance(n.targets[0], ast.Name):
            v = n.value
            while isinstance(v, (ast.Subscript, ast.Attribute)):
                v = v.value
            base = v.id if isinstance(v, ast.Name) else None
            if base and isinstance(n.value, ast.Subscript):
                if F_ARRAY.match(base):
                    by_def[n.targets[0].id] = "F"
                elif N_ARRAY.match(base):
                    by_def[n.targets[0].id] = "N"
    for loop in ast.walk(fn):
        if not (isinstance(loop, ast.For) and isinstance(loop.target, ast.Tuple) and len(loop.target.elts) == 3):
            continue
        names = [e.id for e in loop.target.elts if isinstance(e, ast.Name)]
        if len(names) != 3 or names[0] != "i_N" or names[1] != "i_F":
            continue
        # per-contact locals: assigned inside the loop
        local = set()
        for n in ast.walk(loop):
            if isinstance(n, ast.Assign):
                for t in n.targets:
                    if isinstance(t, ast.Name):
                        local.add(t.id)
        for b in loop.body:
            for n in ast.walk(b):
                nm = None
                if isinstance(n, ast.Name) and isinstance(n.ctx, ast.Load):
                    nm = n.id
                elif isinstance(n, ast.Attribute) and isinstance(n.value, ast.Name) and n.value.id == "self":
                    nm = n.attr
                if nm is None or nm in local or nm in ("i_N", "i_F"):
                    continue
                kind = by_def.get(nm) or ("F" if (F_ARRAY.match(nm) or tags.get(nm) == "F") else ("N" if (N_ARRAY.match(nm) or tags.get(nm) == "N") else None))
                if kind is None:
                    continue
                # climb: the occurrence must sit (as base) under a Subscript whose slice mentions the matching index
                want = "i_F" if kind == "F" else "i_N"
                p, cur, okk = getattr(n, "_parent", None), n, False
                while isinstance(p, (ast.Subscript, ast.Attribute)) and (getattr(p, "value", None) is cur):
                    if isinstance(p, ast.Subscript) and any(isinstance(x, ast.Name) and x.id == want for x in ast.walk(p.slice)):
                        okk = True
                        break
                    cur, p = p, getattr(p, "_parent", None)
                # store targets like y1[self.split_y[0] + la_FDOF[i_F]] = ... are fine (slice mentions i_F)
                if okk:
                    n_ok += 1
                else:
                    # whole-array store target / len(i_N) etc. are not uses of the array's values
                    par = getattr(n, "_parent", None)
                    if isinstance(par, ast.Call) and (dotted(par.func) or "") == "len":
                        continue
                    out.append((n, f"`{nm}` (a {'friction' if kind == 'F' else 'normal'}-level array of ALL contacts) is used inside the per-contact loop "
                                   f"without the contact's own index `{want}`: the decision/projection of one contact depends on the other contacts"))
    return n_ok, out
