"""K7 prox template: every contact fixed-point update has the shape
      la_N = -NegativeOrthant.prox(r_N * kinematic_N - la_N)            (optionally masked / np.where)
      la_F = -reservoir.prox(r_F * kinematic_F - la_F, la_N-of-linked-contact | dt | 1.0)
with the operands classified by provenance."""
from __future__ import annotations

import ast

from .core import dotted, norm_src

KIN_N = {"g_N", "xi_N", "g_N_ddot", "g_N_dot"}
KIN_F = {"gamma_F", "xi_F", "gamma_F_dot"}


def prox_calls(fn):
    out = []
    for n in ast.walk(fn):
        if isinstance(n, ast.Call) and isinstance(n.func, ast.Attribute) and n.func.attr == "prox" and not (isinstance(n.func.value, ast.Name) and n.func.value.id == "self"):
            out.append(n)
    return out


def names_in(e):
    return {x.id for x in ast.walk(e) if isinstance(x, ast.Name)} | {x.attr for x in ast.walk(e) if isinstance(x, ast.Attribute)}


def _stmt_of(call):
    n = call
    while n is not None and not isinstance(n, ast.stmt):
        n = getattr(n, "_parent", None)
    return n


def negated(call):
    """the prox call is the operand of a unary minus (possibly inside np.where / a mask product)."""
    p = getattr(call, "_parent", None)
    return isinstance(p, ast.UnaryOp) and isinstance(p.op, ast.USub)


def analyse_prox(call, resolver, local_kin):
    """Returns dict(kind='N'|'F', ok=bool, problems=[...], desc=str).
    local_kin: dict local name -> 'N'/'F' kinematic tags known from assignments (e.g. g_N_ddot = W_N.T @ u_dot + zeta_N)."""
    problems = []
    recv = norm_src(call.func.value)
    kind = "N" if "NegativeOrthant" in recv else "F"
    if not call.args:
        return dict(kind=kind, ok=False, problems=["prox called without argument"], desc=norm_src(call))
    arg = call.args[0]
    if not negated(call):
        problems.append("the projected force is not the negative of the prox (sign convention la = -prox(...))")
    # argument must be  r * kin - force
    if not (isinstance(arg, ast.BinOp) and isinstance(arg.op, ast.Sub)):
        # allow a local that was assigned r*kin - force
        if isinstance(arg, ast.Name) and arg.id in resolver.local and len(resolver.local[arg.id]) == 1 and isinstance(resolver.local[arg.id][0], ast.BinOp) \
                and isinstance(resolver.local[arg.id][0].op, ast.Sub):
            arg = resolver.local[arg.id][0]
        else:
            problems.append(f"prox argument `{norm_src(arg)}` is not of the form r*kinematic - force")
            return dict(kind=kind, ok=False, problems=problems, desc=norm_src(call))
    left, force = arg.left, arg.right
    if not (isinstance(left, ast.BinOp) and isinstance(left.op, ast.Mult)):
        problems.append(f"`{norm_src(left)}` is not r * kinematic")
        return dict(kind=kind, ok=False, problems=problems, desc=norm_src(call))
    a, b = left.left, left.right
    def is_r(e):
        return any("prox_r" in nm for nm in names_in(e))
    if is_r(a) and not is_r(b):
        r, kin = a, b
    elif is_r(b) and not is_r(a):
        r, kin = b, a
    else:
        problems.append(f"no unique prox parameter in `{norm_src(left)}`")
        return dict(kind=kind, ok=False, problems=problems, desc=norm_src(call))
    want_r = "prox_r_N" if kind == "N" else "prox_r_F"
    if not any(want_r in nm for nm in names_in(r)):
        problems.append(f"prox parameter `{norm_src(r)}` is not {want_r}* (normal/friction parameters swapped)")
    # kinematic provenance
    fam = resolver.families(kin)
    tags = set()
    for nm in names_in(kin):
        if nm in local_kin:
            tags.add(local_kin[nm])
    kinset = KIN_N if kind == "N" else KIN_F
    wrong = KIN_F if kind == "N" else KIN_N
    if (fam & wrong and not fam & kinset) or (tags == {"F" if kind == "N" else "N"}):
        problems.append(f"kinematic quantity `{norm_src(kin)}` is a {'friction' if kind == 'N' else 'normal'} quantity")
    elif not (fam & kinset) and kind not in tags:
        problems.append(f"kinematic quantity `{norm_src(kin)}` has no provenance from {sorted(kinset)}")
    # force operand must not contain prox parameter / kinematics
    fnames = names_in(force)
    if is_r(force) or (fnames & (KIN_N | KIN_F | {"xi_N", "xi_F"})):
        problems.append(f"subtracted operand `{norm_src(force)}` is not the force iterate")
    # friction: second argument = normal force of linked contact or dt / constant
    if kind == "F":
        if len(call.args) < 2:
            problems.append("friction prox without the reservoir scaling argument (normal force of the linked contact)")
        else:
            z = call.args[1]
            zs = norm_src(z)
            ok_z = False
            if isinstance(z, ast.Name) and z.id in resolver.local:
                vals = resolver.local[z.id]
                srcs = [norm_src(v) for v in vals]
                linked = [s for s in srcs if "i_N" in s]
                const = [s for s in srcs if s in ("self.dt", "1.0", "dt")]
                if linked and len(linked) + len(const) == len(srcs):
                    ok_z = True
                    # linked normal force must be a normal-force variable, not friction
                    for s in linked:
                        if "_F" in s.split("[")[0] and "_N" not in s.split("[")[0]:
                            ok_z = False
            if not ok_z:
                problems.append(f"reservoir scaling `{zs}` is not (normal force of the linked contact `[...i_N]` | dt | 1.0)")
    return dict(kind=kind, ok=not problems, problems=problems, desc=norm_src(call)[:140])


def local_kinematics(fn, resolver):
    """tags for locals assigned from W_N.T @ u (+...) / W_F.T @ u style expressions or system kinematics."""
    tags = {}
    for name, vals in resolver.local.items():
        for v in vals:
            if v is None:
                continue
            s = norm_src(v)
            fam = resolver.families(v)
            # direct contribution calls: contr.gamma_F(...), contr.g_N(...)
            fam |= {c.func.attr for c in ast.walk(v) if isinstance(c, ast.Call) and isinstance(c.func, ast.Attribute) and c.func.attr in (KIN_N | KIN_F)}
            if fam & KIN_N or "W_N.T" in s:
                tags[name] = "N"
            elif fam & KIN_F or "W_F.T" in s:
                tags[name] = "F"
    return tags
