"""K3: path walker that tracks the abstract value {T, F, ?} of one boolean flag and whether a
'loud' statement (raise / warn / assert of the flag / return of the flag to the caller) was passed
since the flag last became possibly-false."""
from __future__ import annotations

import ast

from .cfg import CFG, Node
from .core import dotted, norm_src

T, F, U = "T", "F", "?"


def _flag_test(expr, flag):
    """Return +1 if expr is `flag`, -1 if `not flag`, else 0. flag is a normalised source string."""
    s = norm_src(expr)
    if s == flag:
        return 1
    if isinstance(expr, ast.UnaryOp) and isinstance(expr.op, ast.Not) and norm_src(expr.operand) == flag:
        return -1
    if isinstance(expr, ast.Compare) and len(expr.ops) == 1 and norm_src(expr.left) == flag and isinstance(expr.comparators[0], ast.Constant):
        c = expr.comparators[0].value
        if isinstance(expr.ops[0], (ast.Eq, ast.Is)) and c in (True, False):
            return 1 if c else -1
        if isinstance(expr.ops[0], (ast.NotEq, ast.IsNot)) and c in (True, False):
            return -1 if c else 1
    return 0


def assigns_flag(node: Node, flag: str):
    """None if node does not assign the flag; else T/F/U for the assigned abstract value."""
    a = node.ast
    if node.kind == "iter" or a is None:
        return None
    if node.kind != "stmt":
        return None
    if isinstance(a, ast.Assign):
        for t in a.targets:
            tl = list(t.elts) if isinstance(t, (ast.Tuple, ast.List)) else [t]
            for i, tt in enumerate(tl):
                if norm_src(tt) == flag:
                    v = a.value
                    if len(tl) > 1:
                        if isinstance(v, (ast.Tuple, ast.List)) and len(v.elts) == len(tl):
                            v = v.elts[i]
                        else:
                            return U
                    if isinstance(v, ast.Constant) and v.value is True:
                        return T
                    if isinstance(v, ast.Constant) and v.value is False:
                        return F
                    return U
            # assigning the object that owns the flag (sol = fsolve(...); flag sol.success)
            if "." in flag and any(norm_src(tt) == flag.split(".")[0] for tt in tl):
                return U
    if isinstance(a, ast.AugAssign) and norm_src(a.target) == flag:
        return U
    return None


class FlagWalk:
    """Explores (node, val, loud) states."""

    def __init__(self, cfg: CFG, flag: str, is_loud, init=U, start=None, start_label=None, extra_assign=None):
        self.cfg = cfg
        self.flag = flag
        self.is_loud = is_loud
        self.states = set()
        self.prev = {}
        self.extra_assign = extra_assign
        stack = []
        if start is None:
            stack.append((cfg.entry, init, False, None))
        else:
            for (m, lab) in start.succ:
                if start_label is None or lab == start_label:
                    stack.append((m, init, False, (start.id, init, False)))
        while stack:
            n, val, loud, pv = stack.pop()
            st = (n.id, val, loud)
            if st in self.states:
                continue
            self.states.add(st)
            self.prev[st] = pv
            if n is cfg.exit or n is cfg.raise_exit:
                continue
            v2, l2 = val, loud
            av = assigns_flag(n, flag)
            if av is None and extra_assign is not None:
                av = extra_assign(n)
            if av is not None:
                v2 = av
                l2 = False
            if n.kind in ("stmt", "with") and self.is_loud(n):
                l2 = True
            if n.kind == "test":
                # asserting the flag is loud; testing refines
                sgn = _flag_test(n.ast, flag)
                if isinstance(n.owner, ast.Assert):
                    for m, lab in n.succ:
                        if sgn == 1 and lab is True:
                            stack.append((m, T, l2, st))
                        elif sgn == 1:
                            stack.append((m, F, True, st))
                        else:
                            stack.append((m, v2, l2, st))
                    continue
                if sgn != 0:
                    for m, lab in n.succ:
                        if lab not in (True, False):
                            stack.append((m, v2, l2, st))
                            continue
                        branch_val = T if ((lab is True) == (sgn == 1)) else F
                        if v2 != U and v2 != branch_val:
                            continue  # infeasible
                        stack.append((m, branch_val, l2, st))
                    continue
                # compound tests `a and flag` etc: no refinement
            for m, lab in n.succ:
                stack.append((m, v2, l2, st))

    def silent_exits(self):
        """Exit states where the flag may be false and nothing loud was passed."""
        return [s for s in self.states if s[0] == self.cfg.exit.id and s[1] in (F, U) and not s[2]]

    def trace(self, st):
        out = []
        while st is not None:
            n = self.cfg.nodes[st[0]]
            out.append(n)
            st = self.prev.get(st)
        return list(reversed(out))


def loud_default(node: Node):
    """warn(...)/warnings.warn(...)/raise; print and bare RuntimeWarning(...) expressions are NOT loud."""
    a = node.ast
    if a is None:
        return False
    if isinstance(a, ast.Raise):
        return True
    for w in ast.walk(a):
        if isinstance(w, ast.Call):
            d = dotted(w.func) or ""
            if d in ("warn", "warnings.warn") or d.endswith(".warn"):
                return True
    return False
