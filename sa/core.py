"""K0 core: repository loader, finding/report bookkeeping, known findings, evidence.

Pure stdlib.  Nothing here imports or executes code from /repo: every file is
read as text and parsed with `ast`.
"""
from __future__ import annotations

import ast
import hashlib
import json
import os
import re
import sys
import time

REPO_DEFAULT = os.environ.get("VERIF_REPO", "/repo")
VERIF_DIR = os.path.dirname(os.path.dirname(os.path.abspath(__file__)))


class AnalysisError(Exception):
    """The analyser cannot find/recognise what it was built for (exit code 2)."""


# --------------------------------------------------------------------------
# source model
# --------------------------------------------------------------------------
def norm_src(node_or_text) -> str:
    """Normalised statement text (whitespace/format independent)."""
    if isinstance(node_or_text, ast.AST):
        try:
            txt = ast.unparse(node_or_text)
        except Exception:  # pragma: no cover
            txt = ast.dump(node_or_text)
    else:
        txt = str(node_or_text)
    txt = " ".join(txt.split())
    if len(txt) > 240:
        txt = txt[:200] + " …#" + hashlib.sha1(txt.encode()).hexdigest()[:8]
    return txt


class Module:
    def __init__(self, path: str, rel: str, text: str):
        self.path = path
        self.rel = rel  # e.g. cardillo/system.py
        self.text = text
        self.tree = ast.parse(text, filename=rel)
        for parent in ast.walk(self.tree):
            for child in ast.iter_child_nodes(parent):
                child._parent = parent  # type: ignore[attr-defined]
        self.tree._parent = None  # type: ignore[attr-defined]
        self._funcs: dict[str, ast.AST] | None = None

    # qualified name -> FunctionDef/ClassDef (Class.method, func, func.<locals>.Class.method)
    def defs(self) -> dict[str, ast.AST]:
        if self._funcs is None:
            out: dict[str, ast.AST] = {}

            def rec(body, prefix):
                for n in body:
                    if isinstance(n, (ast.FunctionDef, ast.AsyncFunctionDef, ast.ClassDef)):
                        q = prefix + n.name
                        out.setdefault(q, n)
                        rec(n.body, q + ".")
                    elif isinstance(n, (ast.If, ast.Try, ast.With, ast.For, ast.While)):
                        for fld in ("body", "orelse", "finalbody"):
                            rec(getattr(n, fld, []) or [], prefix)
                        for h in getattr(n, "handlers", []) or []:
                            rec(h.body, prefix)

            rec(self.tree.body, "")
            self._funcs = out
        return self._funcs


class Repo:
    """All python sources below <root>/cardillo (plus examples/, test/ on demand)."""

    def __init__(self, root: str = REPO_DEFAULT, overlay: dict[str, str] | None = None,
                 trees=("cardillo",)):
        self.root = root
        self.overlay = overlay or {}
        self.modules: dict[str, Module] = {}
        self.parse_errors: list[str] = []
        for tree in trees:
            base = os.path.join(root, tree)
            if not os.path.isdir(base):
                if tree == "cardillo":
                    raise AnalysisError(f"source tree {base} does not exist")
                continue
            for dirpath, dirnames, filenames in os.walk(base):
                dirnames[:] = sorted(d for d in dirnames if not d.startswith(".") and d != "__pycache__")
                for fn in sorted(filenames):
                    if fn.endswith(".py"):
                        p = os.path.join(dirpath, fn)
                        rel = os.path.relpath(p, root)
                        self._load(p, rel)
        for rel, text in self.overlay.items():
            if rel not in self.modules:
                try:
                    self.modules[rel] = Module(os.path.join(root, rel), rel, text)
                except SyntaxError as e:
                    self.parse_errors.append(f"{rel}: {e}")

    def _load(self, p, rel):
        try:
            if rel in self.overlay:
                text = self.overlay[rel]
            else:
                with open(p, encoding="utf-8", errors="replace") as fh:
                    text = fh.read()
            self.modules[rel] = Module(p, rel, text)
        except SyntaxError as e:
            self.parse_errors.append(f"{rel}: {e}")

    # ---- lookups -----------------------------------------------------------
    def module(self, rel: str) -> Module:
        if rel not in self.modules:
            raise AnalysisError(f"anchor file missing or unparsable: {rel}")
        return self.modules[rel]

    def get(self, rel: str, qual: str):
        m = self.module(rel)
        d = m.defs()
        if qual not in d:
            raise AnalysisError(f"anchor vanished: {rel}:{qual}")
        return d[qual]

    def maybe(self, rel: str, qual: str):
        m = self.modules.get(rel)
        if m is None:
            return None
        return m.defs().get(qual)

    def text(self, rel):
        return self.module(rel).text


# --------------------------------------------------------------------------
# ast helpers
# --------------------------------------------------------------------------
def parent(node):
    return getattr(node, "_parent", None)


def enclosing(node, kinds):
    p = parent(node)
    while p is not None and not isinstance(p, kinds):
        p = parent(p)
    return p


def enclosing_stmt(node):
    n = node
    while n is not None and not isinstance(n, ast.stmt):
        n = parent(n)
    return n


def dotted(node) -> str | None:
    """'self.a.b' for Name/Attribute chains, else None."""
    parts = []
    while isinstance(node, ast.Attribute):
        parts.append(node.attr)
        node = node.value
    if isinstance(node, ast.Name):
        parts.append(node.id)
        return ".".join(reversed(parts))
    return None


def call_name(call: ast.Call) -> str | None:
    return dotted(call.func)


def walk_no_nested(node, include_lambdas=True):
    """ast.walk that does not descend into nested function/class definitions."""
    stack = [node]
    first = True
    while stack:
        n = stack.pop()
        if not first and isinstance(n, (ast.FunctionDef, ast.AsyncFunctionDef, ast.ClassDef)):
            continue
        if not include_lambdas and not first and isinstance(n, ast.Lambda):
            continue
        first = False
        yield n
        stack.extend(reversed(list(ast.iter_child_nodes(n))))


def names_loaded(node) -> set[str]:
    return {n.id for n in ast.walk(node) if isinstance(n, ast.Name) and isinstance(n.ctx, ast.Load)}


def self_attrs_read(node, selfname="self") -> set[str]:
    out = set()
    for n in ast.walk(node):
        if isinstance(n, ast.Attribute) and isinstance(n.value, ast.Name) and n.value.id == selfname \
                and isinstance(n.ctx, ast.Load):
            out.add(n.attr)
    return out


def calls_in(node):
    return [n for n in ast.walk(node) if isinstance(n, ast.Call)]


def func_params(fn: ast.FunctionDef | ast.Lambda) -> list[str]:
    a = fn.args
    return [x.arg for x in a.posonlyargs + a.args] + ([a.vararg.arg] if a.vararg else []) + \
        [x.arg for x in a.kwonlyargs] + ([a.kwarg.arg] if a.kwarg else [])


def arity(fn) -> tuple[int, int | None, set[str], bool]:
    """(min positional, max positional or None for *args, keyword names, has **kw); self excluded by caller."""
    a = fn.args
    pos = a.posonlyargs + a.args
    nd = len(a.defaults)
    mn = len(pos) - nd
    mx = None if a.vararg else len(pos)
    kws = {x.arg for x in a.args + a.kwonlyargs}
    return mn, mx, kws, a.kwarg is not None


def is_raise_notimpl(fn) -> bool:
    """Body is (docstring +) `raise NotImplementedError[(...)]`."""
    body = [s for s in fn.body if not (isinstance(s, ast.Expr) and isinstance(s.value, ast.Constant)
                                       and isinstance(s.value.value, str))]
    if not body:
        return False
    s = body[0]
    if isinstance(s, ast.Raise) and s.exc is not None:
        e = s.exc.func if isinstance(s.exc, ast.Call) else s.exc
        return isinstance(e, ast.Name) and e.id == "NotImplementedError"
    return False


def stmt_loc(mod: Module, node) -> str:
    return f"{mod.rel}:{getattr(node, 'lineno', '?')}"


# --------------------------------------------------------------------------
# results
# --------------------------------------------------------------------------
class Finding:
    def __init__(self, prop, rule, construct, stmt, msg, loc=""):
        self.prop = prop
        self.rule = rule
        self.construct = construct  # e.g. cardillo/system.py:System.remove
        self.stmt = norm_src(stmt) if stmt is not None else ""
        self.msg = msg
        self.loc = loc

    def key(self):
        return (self.prop, self.rule, self.construct, self.stmt)

    def as_dict(self):
        return {"property": self.prop, "rule": self.rule, "construct": self.construct,
                "statement": self.stmt, "message": self.msg, "location": self.loc}

    def __repr__(self):
        return f"{self.rule} @ {self.construct} [{self.loc}]: {self.msg} :: {self.stmt}"


class Report:
    """Collects rule instances (what was analysed) and findings for one property."""

    def __init__(self, prop: str):
        self.prop = prop
        self.instances: list[dict] = []  # every obligation evaluated
        self.findings: list[Finding] = []
        self.notes: list[str] = []
        self.rule_counts: dict[str, int] = {}
        self.floors: dict[str, int] = {}
        self.rules_doc: dict[str, str] = {}

    def rule(self, rid: str, doc: str, floor: int = 1):
        self.rules_doc[rid] = doc
        self.floors[rid] = floor
        self.rule_counts.setdefault(rid, 0)

    def ok(self, rule, construct, what, verdict="holds", trivial=False):
        self.rule_counts[rule] = self.rule_counts.get(rule, 0) + 1
        self.instances.append({"rule": rule, "construct": construct, "obligation": norm_src(what),
                               "verdict": verdict, "trivial": trivial})

    def bad(self, rule, construct, stmt, msg, loc=""):
        self.rule_counts[rule] = self.rule_counts.get(rule, 0) + 1
        f = Finding(self.prop, rule, construct, stmt, msg, loc)
        # de-duplicate on key
        if f.key() not in {g.key() for g in self.findings}:
            self.findings.append(f)
        self.instances.append({"rule": rule, "construct": construct, "obligation": f.stmt,
                               "verdict": "VIOLATED: " + msg, "trivial": False})

    def note(self, txt):
        self.notes.append(txt)

    def check_floors(self):
        with_findings = {f.rule for f in self.findings}
        known = load_known()
        unlisted = [f for f in self.findings if match_known(f, known) is None]
        for rid, floor in self.floors.items():
            n = self.rule_counts.get(rid, 0)
            if rid in with_findings:
                continue  # a rule that reports a violation is not vacuous
            if n < floor and unlisted:
                # the run already reports a violation that is not a known finding; the construct that breaks another rule
                # usually is what made this rule lose instances (e.g. an unresolvable attribute)
                self.note(f"rule {rid}: only {n} instances (< {floor}) in a run that reports violations of other rules")
                continue
            if n < floor:
                raise AnalysisError(
                    f"rule {rid}: only {n} instances analysed, fewer than the {floor} confirmed by hand "
                    f"(the rule would pass vacuously)")


# --------------------------------------------------------------------------
# known findings
# --------------------------------------------------------------------------
def load_known():
    p = os.path.join(VERIF_DIR, "known_findings.json")
    if not os.path.exists(p):
        return []
    with open(p) as fh:
        return json.load(fh).get("findings", [])


def match_known(f: Finding, known) -> dict | None:
    for k in known:
        if k.get("status") != "open":
            continue  # fixed entries suppress nothing
        if k["property"] != f.prop or k["rule"] != f.rule or k["construct"] != f.construct:
            continue
        ks = k.get("statement")
        if ks is None or " ".join(ks.split()) == f.stmt:
            return k
    return None
