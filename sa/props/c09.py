"""C09  Scalar force laws default to a stress-free initial configuration.

Structural clauses decided:
 R1 protocol        every attribute the three assembler_callbacks read from `self.subsystem` on the `l_ref is None` path
                    (l, t0, q0, qDOF, uDOF, assembler_callback) is provided by BOTH supported subsystem classes
                    (TwoPointInteraction, Revolute): method, store anywhere in the MRO (incl. setter helpers), or a
                    System.assemble setter
 R2 sibling idiom   in Spring, KelvinVoigtElement and MaxwellElement the default is
                    `self.l_ref = self.subsystem.l(self.subsystem.t0, self.subsystem.q0)` under `if self.l_ref is None`,
                    evaluated after the subsystem's own assembler_callback has run
 R3 zero at l_ref   in every force / energy expression of the three laws the length enters only through the difference
                    `(l - ... - self.l_ref)` (so force and energy vanish structurally at l = l_ref with zero rate / zero
                    damper elongation)
 R5 interface shapes   where the supported subsystems return arrays of different rank for the same scalar-interface method (W_l: 1-D in
                    TwoPointInteraction, (nu, 1) in Revolute; W_l_q: 2-D vs (nu, 1, nq)) every use in a force law is shape-normalised
                    (`.reshape(...)`, `.ravel()`, an argument of np.outer): otherwise the element cannot be assembled/evaluated on one of them
 R6 fresh tracking    `subsystem.l` of a Revolute reads and updates tracking fields (n_full_rotations, previous_quadrant); the default
                    l_ref = l(t0, q0) is the angle of the *initial configuration* only if the subsystem's assembler_callback (which every
                    law runs first) assigns each of these fields unconditionally.  (C24.R2 reports the other side of this design
                    as the open finding F15: the unconditional reset forgets the turn count at a restart.)
 R4 no overwrite    an explicitly given l_ref is never overwritten (all stores to self.l_ref are __init__ or guarded)
"""
from __future__ import annotations

import ast

from ..core import AnalysisError, dotted, norm_src
from ..cfg import CFG
from ..model import guards_of
from .. import protocol, tables

EXPLANATION = ("Class-table resolution of the subsystem protocol on the default-l_ref path; AST comparison of the three "
               "sibling callbacks; dominance of the subsystem callback over the read; syntactic flow of the length "
               "variable into Sub-chains ending in self.l_ref.")
NOT_DECIDED = "nothing value-dependent beyond R3 (zero relative velocity / zero initial damper elongation are inputs)."
ASSUMPTIONS = ["supported subsystems = tables.SCALAR_SUBSYSTEMS (class docstrings)",
               "a subsystem that is a joint is itself a contribution of the system (System.assemble sets its t0)"]
BLIND_SPOTS = ["a wrong value returned by subsystem.l itself"]

LAWS = [("cardillo/force_laws/spring.py", "Spring"), ("cardillo/force_laws/kelvin_voigt_element.py", "KelvinVoigtElement"),
        ("cardillo/force_laws/maxwell_element.py", "MaxwellElement")]
WANT = "self.l_ref = self.subsystem.l(self.subsystem.t0, self.subsystem.q0)"


INIT_SUFFIXES = ("q0", "u0")
R7_DIRS = ("cardillo/interactions/", "cardillo/constraints/", "cardillo/force_laws/", "cardillo/actuators/")
R7_BODIES = [("cardillo/discrete/point_mass.py", "PointMass"), ("cardillo/discrete/rigid_body.py", "RigidBody")]


def r7_initial_dtype(ctx):
    """The default reference length is evaluated on the RAW initial coordinates of the subsystems (l(t0, q0) at assembly), forces and
    energies later on System.q0.  Both have to be the same real numbers:
      (a) a body stores user-supplied q0 / u0 as floating point (np.asarray(q0, dtype=float)); an integer array survives np.asarray,
          is truncated by the in-place normalisation and breaks Exp_SO3_quat;
      (b) where initial coordinates of several subsystems are joined, the join promotes (np.concatenate / hstack) - a buffer
          allocated with the dtype of ONE part truncates the others."""
    rep = ctx.rep
    def init_chain(e, local):
        """dotted name ending in q0/u0 that e (a Name or attribute chain, through single-assignment locals) stands for"""
        for _ in range(4):
            while isinstance(e, ast.Subscript):
                e = e.value
            d = dotted(e)
            if d and d.split(".")[-1] in INIT_SUFFIXES and "." in d:
                return d
            if isinstance(e, ast.Name) and len(local.get(e.id, [])) == 1:
                e = local[e.id][0]
                continue
            return None
        return None
    raw_bodies = []
    for rel, cname in R7_BODIES:
        cls = ctx.repo.get(rel, cname)
        init = next((m for m in cls.body if isinstance(m, ast.FunctionDef) and m.name == "__init__"), None)
        if init is None:
            raise AnalysisError(f"{rel}:{cname}.__init__ vanished")
        params = {a.arg for a in init.args.args}
        for attr in INIT_SUFFIXES:
            if attr not in params:
                continue
            st = [n for n in ast.walk(init) if isinstance(n, ast.Assign) and any(dotted(t) == f"self.{attr}" for t in n.targets)]
            if not st:
                raise AnalysisError(f"{rel}:{cname}.__init__: store to self.{attr} not found")
            C = f"{rel}:{cname}.__init__"
            conv = [c for c in ast.walk(st[0].value) if isinstance(c, ast.Call) and (dotted(c.func) or "").split(".")[-1] in ("asarray", "array", "asfarray", "astype")
                    and any(isinstance(x, ast.Name) and x.id == attr for x in ast.walk(c))]
            raw = [x for x in ast.walk(st[0].value) if isinstance(x, ast.Name) and x.id == attr]
            def floaty(c):
                last = (dotted(c.func) or "").split(".")[-1]
                if last == "asfarray":
                    return True
                vals = [k.value for k in c.keywords if k.arg == "dtype"] + ([c.args[0]] if last == "astype" and c.args else []) + (c.args[1:2] if last in ("asarray", "array") else [])
                return any(norm_src(v) in ("float", "np.float64", "np.double", "'float64'", "'float'", "np.float_") for v in vals)
            if conv and all(floaty(c) for c in conv):
                rep.ok("C09.R7", C, f"self.{attr} = {norm_src(conv[0])}: user data stored as floating point")
            elif raw:
                raw_bodies.append(f"{cname}.{attr}")
                rep.bad("C09.R7", C, st[0], f"user-supplied `{attr}` is stored with whatever dtype it has: an integer array (q0 = np.array([0, 0, 0, 1, 0, 0, 0])) reaches "
                        "l(t0, q0) of a default reference length and Exp_SO3_quat's in-place normalisation (UFuncTypeError at assembly), and in-place updates truncate",
                        f"{rel}:{st[0].lineno}")
    nfn = 0
    for rel, mod in sorted(ctx.repo.modules.items()):
        if not rel.startswith(R7_DIRS):
            continue
        for q, fn in mod.defs().items():
            if not isinstance(fn, ast.FunctionDef):
                continue
            nfn += 1
            local = {}
            for n in ast.walk(fn):
                if isinstance(n, ast.Assign) and len(n.targets) == 1 and isinstance(n.targets[0], ast.Name):
                    local.setdefault(n.targets[0].id, []).append(n.value)
            C = f"{rel}:{q}"
            for n in ast.walk(fn):
                if not (isinstance(n, ast.Assign) and len(n.targets) == 1 and isinstance(n.value, ast.Call)):
                    continue
                last = (dotted(n.value.func) or "").split(".")[-1]
                carrier = None
                if last in ("zeros", "empty", "ones", "full"):
                    for k in n.value.keywords:
                        if k.arg == "dtype" and isinstance(k.value, ast.Attribute) and k.value.attr == "dtype":
                            carrier = init_chain(k.value.value, local)
                elif last in ("zeros_like", "empty_like", "ones_like") and n.value.args:
                    carrier = init_chain(n.value.args[0], local)
                if carrier is None:
                    continue
                tgt = norm_src(n.targets[0])
                others = []
                for w in ast.walk(fn):
                    if isinstance(w, (ast.Assign, ast.AugAssign)):
                        ts = w.targets if isinstance(w, ast.Assign) else [w.target]
                        if any(isinstance(t, ast.Subscript) and norm_src(t.value) == tgt for t in ts):
                            for x in ast.walk(w.value):
                                if isinstance(x, (ast.Name, ast.Attribute)):
                                    c2 = init_chain(x, local)
                                    if c2 and c2 != carrier:
                                        others.append((w, c2))
                if others and not raw_bodies:
                    w, c2 = others[0]
                    rep.note(f"C09.R7: {C}: `{tgt}` is allocated with the dtype of `{carrier}` and filled from `{c2}` as well; harmless as long as every body stores its "
                             "initial coordinates as float (checked above), since all parts then have one dtype")
                elif others:
                    w, c2 = others[0]
                    rep.bad("C09.R7", C, n, f"`{tgt}` is allocated with the dtype of `{carrier}` and then filled from `{c2}`: initial coordinates given as integers for the first "
                            "subsystem truncate the second subsystem's coordinates, so the default l_ref = l(t0, q0) is evaluated at a different configuration than "
                            f"the assembled System.q0 and the element is pre-stressed (bodies that keep an integer dtype: {', '.join(raw_bodies)})", f"{rel}:{n.lineno}")
                else:
                    rep.ok("C09.R7", C, f"`{tgt}` typed by `{carrier}` is filled from it alone")
    rep.note(f"C09.R7: {nfn} functions of interactions / constraints / force laws / actuators scanned for buffers typed by initial coordinates")


def r8_shared_initial_state(ctx):
    """A force law's default l_ref assumes the internal state it was CONSTRUCTED with (Maxwell: relaxed damper, q0 = 0).  Two sites can
    break that together: (S1) a constructor that stores a parameter whose default is a mutable array (q0=np.zeros(1)) without copying - all
    instances built with the default share ONE array, the default itself; (S2) an in-place write into another object's q0 / u0
    (`contr.q0[:] = ...` in System.set_new_initial_state).  With both, a restart writes the reached damper elongation into the default, and
    every element constructed afterwards starts pre-stressed.  Each site alone is harmless; the rule reports S2 when S1 exists."""
    rep = ctx.rep
    s1 = []
    for rel, mod in sorted(ctx.repo.modules.items()):
        if not rel.startswith("cardillo/"):
            continue
        for q, fn in mod.defs().items():
            if not (isinstance(fn, ast.FunctionDef) and fn.name == "__init__"):
                continue
            args = fn.args.args
            defaults = dict(zip([a.arg for a in args[len(args) - len(fn.args.defaults):]], fn.args.defaults))
            for name, d in defaults.items():
                if name in INIT_SUFFIXES and isinstance(d, ast.Call) and (dotted(d.func) or "").split(".")[-1] in ("zeros", "ones", "array", "empty", "full"):
                    for st in ast.walk(fn):
                        if isinstance(st, ast.Assign) and any(dotted(t) == f"self.{name}" for t in st.targets) and isinstance(st.value, ast.Name) and st.value.id == name:
                            s1.append((rel, q, name, st))
    s2 = []
    for rel in ("cardillo/system.py",):
        mod = ctx.repo.module(rel)
        for q, fn in mod.defs().items():
            if not isinstance(fn, ast.FunctionDef):
                continue
            for st in ast.walk(fn):
                tg = st.targets if isinstance(st, ast.Assign) else ([st.target] if isinstance(st, ast.AugAssign) else [])
                for t in tg:
                    b = t
                    sub = False
                    while isinstance(b, ast.Subscript):
                        b, sub = b.value, True
                    inplace = sub or isinstance(st, ast.AugAssign)
                    if inplace and isinstance(b, ast.Attribute) and b.attr in INIT_SUFFIXES and isinstance(b.value, ast.Name) and b.value.id != "self":
                        s2.append((rel, q, st))
    for rel, q, name, st in s1:
        if not s2:
            rep.ok("C09.R8", f"{rel}:{q}", f"`self.{name} = {name}` stores the shared default array uncopied; harmless because System never writes into a contribution's {name} in place (it re-binds it)")
    for rel, q, st in s2:
        if s1:
            who = ", ".join(f"{r.split('/')[-1]}:{qq}" for r, qq, _, _ in s1)
            rep.bad("C09.R8", f"{rel}:{q}", st, f"`{norm_src(st)}` overwrites a contribution's initial state in place; {who} store(s) the mutable default array of the parameter uncopied, so all "
                    "elements built with the default share that one array: after a restart every force law constructed later starts from the restart's internal state while its default "
                    "l_ref assumes the relaxed one (pre-stressed in the initial configuration)", f"{rel}:{st.lineno}")
        else:
            rep.ok("C09.R8", f"{rel}:{q}", f"`{norm_src(st)}`: in-place write, but no constructor stores a shared default array")
    if not s1 and not s2:
        rep.ok("C09.R8", "cardillo/", "no constructor stores a mutable default of q0 / u0 uncopied and System re-binds the contributions' initial state")


def r10_initial_time(ctx, rule="C09.R10"):
    """The default reference length is `subsystem.l(subsystem.t0, subsystem.q0)`: the time at which the (possibly moving) attachment points
    are evaluated.  `t0` of a contribution is bound by System.assemble (`contr.t0 = self.t0`); an interaction that is only the subsystem of
    a force law is NOT a contribution and has to take the initial time from one of its own subsystems.  Every store to `self.t0` in a
    supported scalar-interface subsystem (and its bases) must therefore read a `.t0` - a literal or anything else pins the reference length
    to a time that is not the system's initial time."""
    rep = ctx.rep
    model = ctx.model
    ext = protocol.external_setters(ctx)
    for sub in tables.SCALAR_SUBSYSTEMS:
        ci = model.cls(sub)
        view = protocol.ClassView(ctx, ci)
        C = f"{ci.rel}:{sub}"
        sts = view.stores("t0")
        bad = False
        for (cc, st) in sts:
            reads = [n for n in ast.walk(st.value) if isinstance(n, ast.Attribute) and n.attr == "t0"] if getattr(st, "value", None) is not None else []
            if reads:
                rep.ok(rule, C, f"{cc.qual}.{st.method}: `{norm_src(st.node)[:80]}` takes the initial time from a subsystem")
            else:
                bad = True
                rep.bad(rule, C, st.node, f"`{norm_src(st.node)[:80]}` in {cc.qual}.{st.method} binds the initial time to something that is not the initial time of a subsystem / the system: "
                        "a force law without explicit l_ref evaluates its reference length at that time, so with System(t0 != 0) and a moving attachment frame the element is "
                        "pre-stressed at the initial configuration", f"{cc.rel}:{st.node.lineno}")
        if not sts:
            if "t0" in ext:
                rep.ok(rule, C, "no own store of t0: bound by System.assemble only (the class must be a contribution of the system)")
            else:
                rep.bad(rule, C, sub, "t0 is neither stored by the class nor bound by System.assemble", f"{ci.rel}:{ci.node.lineno}")


def run(ctx):
    rep = ctx.rep
    rep.rule("C09.R11", "nothing on the default-l_ref path modifies in place what the (possibly memoised) subsystem kinematics hand out (K18 on interactions and force laws): the length evaluated for l_ref is the length of the initial configuration, not of a cache entry rewritten a moment earlier", 3)
    from .. import cachepurity as _cp
    _cp.report(ctx, "C09.R11", ("cardillo/interactions/", "cardillo/force_laws/"), check_returns=False, floor_note=False)
    rep.rule("C09.R10", "initial-time provenance: a scalar-interface subsystem takes `t0` (the time at which the default l_ref is evaluated) from a subsystem or from System.assemble, never from a literal", 2)
    r10_initial_time(ctx)
    rep.rule("C09.R9", "the default l_ref is evaluated on the RAW q0 while forces use the projected System.q0: a rigid body's pose must not depend on the length of its quaternion (normalising rotation kernel)", 4)
    from .c11 import normalising_rule
    normalising_rule(ctx, "C09.R9", lambda rel: rel == "cardillo/discrete/rigid_body.py", 4)
    rep.rule("C09.R8", "initial internal state of force laws is not shared: no in-place write into a contribution's q0 / u0 while a constructor stores a mutable default array uncopied", 1)
    r8_shared_initial_state(ctx)
    rep.rule("C09.R7", "initial coordinates reach the default reference length as floating point and un-truncated", 4)
    r7_initial_dtype(ctx)
    rep.rule("C09.R1", "subsystem protocol on the default l_ref path", 12)
    rep.rule("C09.R2", "sibling idiom of the default reference length", 6)
    rep.rule("C09.R3", "length enters force/energy only through (l - ... - l_ref)", 6)
    rep.rule("C09.R4", "explicit l_ref is never overwritten", 3)
    rep.rule("C09.R6", "tracking state read by subsystem.l is (re)initialised unconditionally before the default l_ref is evaluated", 2)
    r6_fresh_tracking(ctx)
    rep.rule("C09.R5", "rank-normalised use of scalar-interface arrays whose rank differs between the supported subsystems", 5)
    r5_interface_shapes(ctx)
    model = ctx.model
    ext = protocol.external_setters(ctx)
    for rel, cname in LAWS:
        ci = model.cls(cname, rel)
        view = protocol.ClassView(ctx, ci)
        c, fn = view.method("assembler_callback")
        if fn is None:
            raise AnalysisError(f"{cname}.assembler_callback vanished")
        C = f"{rel}:{cname}.assembler_callback"
        # ---- R2
        stores = [n for n in ast.walk(fn) if isinstance(n, ast.Assign) and any(dotted(t) == "self.l_ref" for t in n.targets)]
        if len(stores) != 1:
            rep.bad("C09.R2", C, fn.name, f"{len(stores)} stores to self.l_ref in the callback (expected exactly one default)", f"{rel}:{fn.lineno}")
            continue
        st = stores[0]
        g = guards_of(st, fn)
        if norm_src(st) != WANT:
            rep.bad("C09.R2", C, st, f"default reference length deviates from the sibling idiom `{WANT}` (element is not stress-free in the initial configuration)",
                    f"{rel}:{st.lineno}")
        elif ("self.l_ref is None", True) not in g:
            rep.bad("C09.R2", C, st, "default is not guarded by `if self.l_ref is None`", f"{rel}:{st.lineno}")
        else:
            rep.ok("C09.R2", C, f"if self.l_ref is None: {WANT}")
        # subsystem callback runs before: follow super() chain
        chain = [(c, fn)]
        cur = c
        while True:
            has_super = any(isinstance(n, ast.Call) and norm_src(n.func) == "super().assembler_callback" for n in ast.walk(chain[-1][1]))
            if not has_super:
                break
            mro = view.mro
            idx = mro.index(chain[-1][0])
            nxt = next(((cc, cc.methods["assembler_callback"]) for cc in mro[idx + 1:] if "assembler_callback" in cc.methods), None)
            if nxt is None:
                break
            chain.append(nxt)
        runs_sub = False
        cfg = CFG(fn)
        stn = cfg.node_of(st)
        for node in cfg.nodes:
            if node.kind == "stmt" and isinstance(node.ast, ast.Expr) and isinstance(node.ast.value, ast.Call):
                s = norm_src(node.ast.value.func)
                if s == "self.subsystem.assembler_callback" and cfg.dominates(node, stn):
                    runs_sub = True
                if s == "super().assembler_callback" and cfg.dominates(node, stn):
                    for (cc, f2) in chain[1:]:
                        c2 = CFG(f2)
                        for n2 in c2.nodes:
                            if n2.kind == "stmt" and isinstance(n2.ast, ast.Expr) and isinstance(n2.ast.value, ast.Call) \
                                    and norm_src(n2.ast.value.func) == "self.subsystem.assembler_callback" and c2.dominates(n2, c2.exit):
                                runs_sub = True
        if runs_sub:
            rep.ok("C09.R2", C, "self.subsystem.assembler_callback() dominates the evaluation of the default l_ref")
        else:
            rep.bad("C09.R2", C, "self.subsystem.assembler_callback()",
                    "the subsystem's assembler_callback is not run before its q0/qDOF are read (the sibling laws run it first): assembly fails "
                    "unless the subsystem happens to be a system contribution that was added earlier", f"{rel}:{fn.lineno}")
        # ---- R1
        reads = {}
        for (cc, f2) in chain:
            for n in ast.walk(f2):
                if isinstance(n, ast.Attribute) and dotted(n.value) == "self.subsystem" and isinstance(n.ctx, ast.Load):
                    reads.setdefault(n.attr, n)
        for a, n in sorted(reads.items()):
            for sub in tables.SCALAR_SUBSYSTEMS:
                sci = model.cls(sub)
                if model.has_attr(sci, a):
                    rep.ok("C09.R1", C, f"self.subsystem.{a}: provided by {sub}")
                elif a in ext and a == "t0":
                    rep.ok("C09.R1", C, f"self.subsystem.{a}: set by System.assemble on {sub} (a contribution)")
                else:
                    rep.bad("C09.R1", C, f"self.subsystem.{a} [{sub}]",
                            f"`self.subsystem.{a}` is read on the default-l_ref path but supported subsystem class {sub} (and its bases/setter helpers) never "
                            f"defines it: {cname}({sub}(...)) without explicit l_ref raises AttributeError at assembly", f"{rel}:{n.lineno}")
        # ---- R4
        all_stores = view.stores("l_ref")
        bad = [s for (cc, s) in all_stores if s.method != "__init__" and ("self.l_ref is None", True) not in s.guards]
        if bad:
            rep.bad("C09.R4", f"{rel}:{cname}", bad[0].node, "self.l_ref is overwritten outside __init__ without the `is None` guard", f"{rel}:{bad[0].node.lineno}")
        else:
            rep.ok("C09.R4", f"{rel}:{cname}", f"{len(all_stores)} stores to self.l_ref: __init__ or guarded by `is None`")
        # ---- R3
        for m in ("_la_c", "_E_pot", "_c", "force", "E_pot", "q_dot"):
            if m not in ci.methods:
                continue
            f3 = ci.methods[m]
            params = [a.arg for a in f3.args.args]
            occ = []
            for n in ast.walk(f3):
                if isinstance(n, ast.Name) and n.id == "l" and isinstance(n.ctx, ast.Load) and "l" in params:
                    occ.append(n)
                if isinstance(n, ast.Call) and norm_src(n.func) == "self.subsystem.l":
                    occ.append(n)
            if not occ:
                continue
            Cm = f"{rel}:{cname}.{m}"
            okk = True
            for o in occ:
                if not _in_lref_difference(o):
                    okk = False
                    rep.bad("C09.R3", Cm, _stmt(o), "the length enters the expression outside a difference `(l - ... - self.l_ref)`: force/energy do not vanish at l = l_ref",
                            f"{rel}:{o.lineno}")
            if okk:
                rep.ok("C09.R3", Cm, f"{len(occ)} occurrence(s) of the length, all inside (l - ... - self.l_ref)")


def _rank_of(fn):
    """rank of the array a provider method returns, from its syntax: (...).reshape(a, b) -> 2, np.zeros((a, b, c)) -> 3,
    np.concatenate/hstack of 1-D parts -> 1; None when not recognised."""
    rets = [n for n in ast.walk(fn) if isinstance(n, ast.Return) and n.value is not None]
    if len(rets) != 1:
        return None
    v = rets[0].value

    def rank(e, depth=0):
        if isinstance(e, ast.Call):
            if isinstance(e.func, ast.Attribute) and e.func.attr == "reshape":
                args = e.args[0].elts if len(e.args) == 1 and isinstance(e.args[0], ast.Tuple) else e.args
                return len(args)
            f = (dotted(e.func) or "").split(".")[-1]
            if f in ("zeros", "empty", "ones") and e.args:
                a0 = e.args[0]
                return len(a0.elts) if isinstance(a0, ast.Tuple) else 1
            if f in ("concatenate", "hstack"):
                return 1
        if isinstance(e, ast.Name) and depth < 3:
            defs = [a.value for a in ast.walk(fn) if isinstance(a, ast.Assign) and any(isinstance(t, ast.Name) and t.id == e.id for t in a.targets)]
            if defs:
                return rank(defs[0], depth + 1)
        return None
    return rank(v)


def r5_interface_shapes(ctx):
    rep = ctx.rep
    model = ctx.model
    differing = {}
    for m in ("W_l", "W_l_q", "l_q", "l_dot_q", "l_dot_u"):
        ranks = {}
        for cname in tables.SCALAR_SUBSYSTEMS:
            ci = model.cls(cname)
            fn = model.find_method(ci, m)
            fn = fn[1] if isinstance(fn, tuple) else fn
            if fn is None:
                raise AnalysisError(f"{cname}.{m} vanished")
            ranks[cname] = _rank_of(fn)
        if None not in ranks.values() and len(set(ranks.values())) > 1:
            differing[m] = ranks
    if "W_l" not in differing or "W_l_q" not in differing:
        rep.note(f"C09.R5: providers now agree on the rank of W_l / W_l_q ({differing}); normalisation no longer required")
    consumers = [("cardillo/force_laws/_base.py", "ScalarForceLawBase"), ("cardillo/force_laws/maxwell_element.py", "MaxwellElement")]
    n = 0
    for rel, cname in consumers:
        cls = ctx.repo.get(rel, cname)
        for fn in [x for x in cls.body if isinstance(x, ast.FunctionDef)]:
            for call in [c for c in ast.walk(fn) if isinstance(c, ast.Call) and isinstance(c.func, ast.Attribute) and c.func.attr in differing
                         and norm_src(c.func.value) == "self.subsystem"]:
                n += 1
                par = getattr(call, "_parent", None)
                C = f"{rel}:{cname}.{fn.name}"
                ok = (isinstance(par, ast.Attribute) and par.attr in ("reshape", "ravel", "flatten")) or \
                     (isinstance(par, ast.Call) and (dotted(par.func) or "").split(".")[-1] in ("outer", "ravel"))
                r = differing[call.func.attr]
                if ok:
                    rep.ok("C09.R5", C, f"{norm_src(par)[:90]}: rank-normalised")
                else:
                    rep.bad("C09.R5", C, _stmt(call), f"`{norm_src(call)}` is used without shape normalisation although the supported subsystems return different ranks "
                            f"({', '.join(f'{k}: {v}-D' for k, v in r.items())}); on one of them the expression broadcasts to the wrong shape or fails "
                            f"(the sibling ScalarForceLawBase always applies .reshape)", f"{rel}:{call.lineno}")
    if n < 5:   # 8 on the pinned tree; an interaction that stops calling a point Jacobian directly is not an analysis failure
        raise AnalysisError(f"only {n} uses of rank-differing interface methods found in the force laws")


def r6_fresh_tracking(ctx):
    rep = ctx.rep
    model = ctx.model
    for cname in tables.SCALAR_SUBSYSTEMS:
        ci = model.cls(cname)
        c, lfn = model.find_method(ci, "l")
        if lfn is None:
            raise AnalysisError(f"{cname}.l vanished")
        hist = set()
        for n in ast.walk(lfn):
            tg = n.targets if isinstance(n, ast.Assign) else ([n.target] if isinstance(n, ast.AugAssign) else [])
            for t in tg:
                if isinstance(t, ast.Attribute) and dotted(t.value) == "self":
                    hist.add(t.attr)
        C = f"{ci.rel}:{cname}.assembler_callback"
        if not hist:
            rep.ok("C09.R6", f"{ci.rel}:{cname}.l", "the length query keeps no tracking state (pure)")
            continue
        c2, ac = model.find_method(ci, "assembler_callback")
        if ac is None:
            raise AnalysisError(f"{cname}.assembler_callback vanished")
        for h in sorted(hist):
            top = [st for st in ac.body if isinstance(st, ast.Assign) and any(isinstance(t, ast.Attribute) and t.attr == h and dotted(t.value) == "self" for t in st.targets)]
            if not top:
                # initialisation delegated to a method that is called unconditionally (self.reset())
                for st in ac.body:
                    if isinstance(st, ast.Expr) and isinstance(st.value, ast.Call) and norm_src(st.value.func).startswith("self."):
                        c3, m3 = model.find_method(ci, norm_src(st.value.func)[5:])
                        if m3 is not None:
                            top += [s3 for s3 in m3.body if isinstance(s3, ast.Assign) and any(isinstance(t, ast.Attribute) and t.attr == h and dotted(t.value) == "self" for t in s3.targets)]
            anywhere = [st for st in ast.walk(ac) if isinstance(st, ast.Assign) and any(isinstance(t, ast.Attribute) and t.attr == h and dotted(t.value) == "self" for t in st.targets)]
            if top:
                rep.ok("C09.R6", C, f"self.{h} = {norm_src(top[0].value)} on every path of the callback")
            else:
                where = anywhere[0] if anywhere else ac
                rep.bad("C09.R6", C, where if anywhere else f"self.{h}", f"`{cname}.l` updates the tracking field `self.{h}`, but assembler_callback does not assign it on every path"
                        f"{' (only under a guard)' if anywhere else ''}: a force law attached after the joint was used gets its default l_ref = l(t0, q0) from stale tracking "
                        f"state, so force and energy are not zero in the initial configuration once the joint is reset", f"{ci.rel}:{getattr(where, 'lineno', ac.lineno)}")


def _stmt(n):
    from ..core import enclosing_stmt
    return enclosing_stmt(n)


def _in_lref_difference(o):
    """o is the leftmost operand of a chain of Sub whose subtrahends include self.l_ref."""
    cur = o
    p = getattr(cur, "_parent", None)
    subs = []
    while isinstance(p, ast.BinOp) and isinstance(p.op, ast.Sub) and p.left is cur:
        subs.append(norm_src(p.right))
        cur = p
        p = getattr(cur, "_parent", None)
    return "self.l_ref" in subs


SP = "cardillo/force_laws/spring.py"
KV = "cardillo/force_laws/kelvin_voigt_element.py"
MX = "cardillo/force_laws/maxwell_element.py"
MUTANTS = [
    dict(id="c09-m1", canary=True, what="joints stop providing q0 (original defect)", file="cardillo/constraints/_base.py",
         old="    object.q0 = np.concatenate(\n        (object.subsystem1.q0[local_qDOF1], object.subsystem2.q0[local_qDOF2])\n    )\n", new="", expect="C09.R1"),
    dict(id="c09-m2", canary=True, what="KelvinVoigtElement default l_ref evaluated at t0 with u0 (wrong argument)", file=KV,
         old="            self.l_ref = self.subsystem.l(self.subsystem.t0, self.subsystem.q0)", new="            self.l_ref = self.subsystem.l(self.subsystem.t0, self.subsystem.u0)", expect="C09.R2"),
    dict(id="c09-m3", what="Spring: guard removed, explicit l_ref overwritten", file=SP,
         old="        if self.l_ref is None:\n            self.l_ref = self.subsystem.l(self.subsystem.t0, self.subsystem.q0)", new="        self.l_ref = self.subsystem.l(self.subsystem.t0, self.subsystem.q0)", expect=["C09.R2", "C09.R4"]),
    dict(id="c09-m4", what="Spring force no longer relative to l_ref", file=SP,
         old="        return -self.k * (l - self.l_ref)", new="        return -self.k * l + self.k * 0.0 * self.l_ref", expect="C09.R3"),
    dict(id="c09-m5", what="Spring: default evaluated before the subsystem callback", file=SP,
         old="        super().assembler_callback()\n        if self.l_ref is None:\n            self.l_ref = self.subsystem.l(self.subsystem.t0, self.subsystem.q0)",
         new="        if self.l_ref is None:\n            self.l_ref = self.subsystem.l(self.subsystem.t0, self.subsystem.q0)\n        super().assembler_callback()", expect="C09.R2"),
    dict(id="c09-m6", what="TwoPointInteraction stops storing q0", file="cardillo/interactions/two_point_interaction.py",
         old="        self.q0 = np.concatenate((q01[local_qDOF1], q02[local_qDOF2]))\n", new="        q0 = np.concatenate((q01[local_qDOF1], q02[local_qDOF2]))\n", expect="C09.R1", optional=True),
    dict(id="c09-m7", what="Maxwell energy uses l_ref with the wrong sign", file=MX,
         old="        return 0.5 * self.k * (self.subsystem.l(t, q[1:]) - l_d - self.l_ref) ** 2", new="        return 0.5 * self.k * (self.subsystem.l(t, q[1:]) - l_d + self.l_ref) ** 2", expect="C09.R3"),
]
MUTANTS = [m for m in MUTANTS if not m.get("optional")]
MUTANTS += [
    dict(id="c09-r5-1", canary=True, what="MaxwellElement.h uses W_l without reshape (original defect: cannot be assembled on a Revolute)", file=MX,
         old="        return self.force(t, q, u) * self.subsystem.W_l(t, q[1:]).reshape(self._nu)", new="        return self.force(t, q, u) * self.subsystem.W_l(t, q[1:])", expect="C09.R5"),
    dict(id="c09-r5-2", what="ScalarForceLawBase._h drops the reshape", file="cardillo/force_laws/_base.py",
         old="        return self.la_c(t, q, u) * self.subsystem.W_l(t, q).reshape(self.subsystem._nu)\n", new="        return self.la_c(t, q, u) * self.subsystem.W_l(t, q)\n", expect="C09.R5"),
]
MUTANTS += [
    dict(id="c09-seed", canary=True, what="[seeded by sub-agent] Revolute.assembler_callback initialises the tracking fields only on the first assembly", file="cardillo/constraints/revolute.py",
         old="    def assembler_callback(self):\n        self.n_full_rotations = 0\n        self.previous_quadrant = 1\n",
         new="    def assembler_callback(self):\n        if not hasattr(self, \"n_full_rotations\"):\n            self.n_full_rotations = 0\n            self.previous_quadrant = 1\n", expect="C09.R6"),
]
TPI = "cardillo/interactions/two_point_interaction.py"
MUTANTS += [
    dict(id="c09-r7-seed", canary=True, what="[seeded by sub-agent, on the tree before fix F46] TwoPointInteraction joins the subsystems' q0 in a buffer typed by the first one while bodies keep integer q0", file=TPI,
         edits=[(TPI, "        self.q0 = np.concatenate((q01[local_qDOF1], q02[local_qDOF2]))\n",
                 "        self.q0 = np.zeros(self._nq, dtype=q01.dtype)\n        self.q0[: self._nq1] = q01[local_qDOF1]\n        self.q0[self._nq1 :] = q02[local_qDOF2]\n"),
                ("cardillo/discrete/point_mass.py", "np.asarray(q0, dtype=float)", "np.asarray(q0)")], expect="C09.R7"),
    dict(id="c09-r7-1", what="RigidBody keeps the dtype of a user-supplied q0 (original defect F46)", file="cardillo/discrete/rigid_body.py",
         old="            else np.asarray(q0, dtype=float)\n", new="            else np.asarray(q0)\n", expect="C09.R7"),
]
MUTANTS += [
    dict(id="c09-r9-seed", canary=True, what="[seeded by sub-agent] RigidBody.A_IB built with the non-normalising quaternion map", file="cardillo/discrete/rigid_body.py",
         old="        return Exp_SO3_quat(q[3:])\n", new="        return Exp_SO3_quat(q[3:], normalize=False)\n", expect="C09.R9"),
]
SYS_ = "cardillo/system.py"
MUTANTS += [
    dict(id="c09-r8-seed", canary=True, what="[seeded by sub-agent] set_new_initial_state copies the restart state into the contributions' q0 / u0 in place (MaxwellElement stores its default q0 uncopied)", file=SYS_,
         old="                contr.q0 = q0[contr.my_qDOF]\n", new="                contr.q0[:] = q0[contr.my_qDOF]\n", expect="C09.R8"),
]
NEUTRAL = [
    dict(id="c09-n-r7b", canary=True, what="TwoPointInteraction joins q0 in a buffer typed by the first part (harmless since bodies store float: the sub-agent's change after fix F46)", file=TPI,
         old="        self.q0 = np.concatenate((q01[local_qDOF1], q02[local_qDOF2]))\n",
         new="        self.q0 = np.zeros(self._nq, dtype=q01.dtype)\n        self.q0[: self._nq1] = q01[local_qDOF1]\n        self.q0[self._nq1 :] = q02[local_qDOF2]\n"),
    dict(id="c09-n-r7", what="TwoPointInteraction joins q0 in a float buffer", file=TPI,
         old="        self.q0 = np.concatenate((q01[local_qDOF1], q02[local_qDOF2]))\n",
         new="        self.q0 = np.zeros(self._nq)\n        self.q0[: self._nq1] = q01[local_qDOF1]\n        self.q0[self._nq1 :] = q02[local_qDOF2]\n"),
    dict(id="c09-n-r5", canary=True, what="MaxwellElement.h normalises with ravel()", file=MX,
         old="        return self.force(t, q, u) * self.subsystem.W_l(t, q[1:]).reshape(self._nu)", new="        return self.force(t, q, u) * self.subsystem.W_l(t, q[1:]).ravel()"),
    dict(id="c09-n1", canary=True, what="Spring energy written with a local", file=SP,
         old="        return 0.5 * self.k * (l - self.l_ref) ** 2", new="        dl = l - self.l_ref\n        return 0.5 * self.k * dl**2"),
]

MUTANTS += [
    dict(id="c09-r10-seed", canary=True, what="[seeded by sub-agent] TwoPointInteraction pins t0 = 0.0 in the constructor path instead of taking it from subsystem1", file='cardillo/interactions/two_point_interaction.py',
         old="        self.t0 = self.subsystem1.t0\n", new="        self.t0 = 0.0\n", expect="C09.R10"),
]
NEUTRAL += [
    dict(id="c09-n-r10", canary=True, what="TwoPointInteraction takes t0 from subsystem2 (same system, same initial time)", file='cardillo/interactions/two_point_interaction.py',
         old="        self.t0 = self.subsystem1.t0\n", new="        self.t0 = self.subsystem2.t0\n"),
]

MUTANTS += [
    dict(id="c09-r11-seed", canary=True, what="[seeded by sub-agent] TwoPointInteraction's initial-distance check builds the connection vector in place in the array returned by the (memoised) r_OP of body 2", file='cardillo/interactions/two_point_interaction.py',
         old="        l0 = norm(self.r_OP2(self.t0, self.q0) - self.r_OP1(self.t0, self.q0))\n", new="        r_P1P2 = self.r_OP2(self.t0, self.q0)\n        r_P1P2 -= self.r_OP1(self.t0, self.q0)\n        l0 = norm(r_P1P2)\n", expect="C09.R11"),
]
