"""C08  Force-element and actuator Jacobians are exact.

Structural clauses decided:
 R1 chain-rule coverage   every stated q/u-derivative of force laws (both forms), MaxwellElement, Force/B_Force/Moment/
                          B_Moment, PD/PID controllers, TwoPointInteraction and Revolute's scalar interface references the
                          companions of everything its primal evaluates (engine K5)
 R2 product rule          BaseActuator.Wla_tau_q references W_tau_q, la_tau, W_tau and la_tau_q; Wla_tau_u references
                          W_tau and la_tau_u
 R3 subsystem protocol    the scalar interface (l, l_q, l_dot, l_dot_q, l_dot_u, W_l, W_l_q, _nq, _nu, qDOF, uDOF) used by
                          force laws and actuators is provided, with compatible signatures, by both supported subsystem
                          classes (TwoPointInteraction, Revolute); kinematic calls of forces/moments/interactions are
                          provided by all kinematic subsystems
 R4 mirror symmetry       TwoPointInteraction's subsystem-1 / subsystem-2 lambdas are mirror images
"""
from __future__ import annotations

import ast

from ..core import AnalysisError, dotted, norm_src
from .. import deriv, mirror, protocol, tables

EXPLANATION = ("K5 chain-rule coverage over cardillo/force_laws, actuators, forces, interactions and Revolute's scalar "
               "interface; product-rule coverage of actuator Jacobians; signature conformance of every subsystem call "
               "against the class table; mirror comparison of TwoPointInteraction's glue lambdas.")
NOT_DECIDED = "numerical exactness: signs and coefficients of terms that are present (e.g. a sign error in one column)."
ASSUMPTIONS = ["scalar-interface subsystems = tables.SCALAR_SUBSYSTEMS; kinematic subsystems = tables.KINEMATIC_SUBSYSTEMS"]
BLIND_SPOTS = ["MaxwellElement.h_q: the l_d column has the wrong sign on the pinned tree (found by reading, confirmed numerically); "
               "no structural rule here can see a sign", "a dropped term whose companion is referenced elsewhere in the routine"]

CLASSES = [
    ("cardillo/force_laws/_base.py", "ScalarForceLawBase"), ("cardillo/force_laws/_base.py", "ScalarForceLawComplianceForm"),
    ("cardillo/force_laws/spring.py", "Spring"), ("cardillo/force_laws/kelvin_voigt_element.py", "KelvinVoigtElement"),
    ("cardillo/force_laws/maxwell_element.py", "MaxwellElement"),
    ("cardillo/actuators/PD_controller.py", "PDcontroller"), ("cardillo/actuators/PID_controller.py", "PIDcontroller"),
    ("cardillo/actuators/motor.py", "Motor"),
    ("cardillo/forces/force.py", "Force"), ("cardillo/forces/force.py", "B_Force"),
    ("cardillo/forces/moment.py", "Moment"), ("cardillo/forces/moment.py", "B_Moment"),
    ("cardillo/interactions/two_point_interaction.py", "TwoPointInteraction"),
    ("cardillo/constraints/revolute.py", "Revolute"),
]
REV_ONLY = {"l", "l_q", "l_dot", "l_dot_q", "l_dot_u", "W_l", "W_l_q"}


def r8_maxwell_polarity(ctx):
    """MaxwellElement: the elongation l(q_ext) and the damper coordinate l_d = q[0] enter every primal only through the
    difference (l - l_d - l_ref).  Hence in each q-derivative routine the l_d column (index 0) carries the opposite sign of the
    l_q term of the q_ext columns (index 1:)."""
    from .. import twobody
    rep = ctx.rep
    ci = ctx.model.cls("MaxwellElement")
    # premise: the difference form in the primals
    prem = 0
    for name in ("q_dot", "force", "E_pot"):
        fn = ci.methods.get(name)
        if fn is None:
            raise AnalysisError(f"MaxwellElement.{name} vanished")
        for b in ast.walk(fn):
            if isinstance(b, ast.BinOp) and isinstance(b.op, ast.Sub) and isinstance(b.left, ast.BinOp) and isinstance(b.left.op, ast.Sub) \
                    and norm_src(b.right) == "self.l_ref" and norm_src(b.left.right) in ("l_d", "q[0]") and "subsystem.l(" in norm_src(b.left.left):
                prem += 1
    if prem < 3:
        rep.note("C08.R8: MaxwellElement primals no longer have the form (l - l_d - l_ref); polarity rule not applicable")
        return
    for name in ("q_dot_q", "h_q"):
        fn = ci.methods.get(name)
        if fn is None:
            raise AnalysisError(f"MaxwellElement.{name} vanished")
        C = f"{ci.rel}:MaxwellElement.{name}"
        defs = {}
        for n in ast.walk(fn):
            if isinstance(n, ast.Assign) and len(n.targets) == 1 and isinstance(n.targets[0], ast.Name):
                defs.setdefault(n.targets[0].id, []).append(n.value)
        s_l, s_d, st_d = set(), set(), None
        for n in ast.walk(fn):
            tgt = n.targets[0] if isinstance(n, ast.Assign) and len(n.targets) == 1 else (n.target if isinstance(n, ast.AugAssign) else None)
            if not isinstance(tgt, ast.Subscript) or norm_src(tgt.value) != name:
                continue
            sl = tgt.slice
            last = sl.elts[-1] if isinstance(sl, ast.Tuple) else sl
            base = -1 if isinstance(n, ast.AugAssign) and isinstance(n.op, ast.Sub) else 1
            if isinstance(last, ast.Constant) and last.value == 0:
                s_d.add(base * twobody.csign(n.value, defs))
                st_d = n
            elif isinstance(last, ast.Slice) and last.lower is not None and norm_src(last.lower) == "1" and last.upper is None:
                for d, sg, call in twobody.signed_calls(n.value, defs, base):
                    if d.endswith("subsystem.l_q"):
                        s_l.add(sg)
        if len(s_l) == 1 and len(s_d) == 1:
            if list(s_l)[0] == -list(s_d)[0]:
                rep.ok("C08.R8", C, f"l_q term enters with sign {list(s_l)[0]:+d}, the damper column with {list(s_d)[0]:+d} (opposite, as in l - l_d)")
            else:
                rep.bad("C08.R8", C, st_d, f"the damper-coordinate column has the same sign ({list(s_d)[0]:+d}) as the l_q term of the other columns, but l and l_d enter "
                        f"`{name[:-2]}` only through (l - l_d - l_ref): d/dl_d must be minus d/dl", f"{ci.rel}:{st_d.lineno}")
        else:
            rep.note(f"C08.R8: {C}: signs not determinate (l_q: {sorted(s_l)}, damper column: {sorted(s_d)})")


def r13_zero_shortcuts(ctx):
    """A derivative routine may return zeros early only where the derivative IS zero.  `if not np.any(x): return zeros` is sound iff every additive
    term of the general result contains x as a factor; the product rule d(W x) = W_q x + W x_q has a term without x, so "no force, hence no
    derivative" is false for a controller on its set point (x = 0, x_q = -kp l_q)."""
    from ..wterms import Terms
    rep = ctx.rep
    n = 0
    for rel, mod in sorted(ctx.repo.modules.items()):
        if not rel.startswith(("cardillo/actuators/", "cardillo/force_laws/", "cardillo/interactions/", "cardillo/forces/")):
            continue
        for q, fn in mod.defs().items():
            if not (isinstance(fn, ast.FunctionDef) and fn.name.endswith(("_q", "_u", "_la_c"))):
                continue
            n += 1
            C = f"{rel}:{q}"
            local = {}
            for x in ast.walk(fn):
                if isinstance(x, ast.Assign) and len(x.targets) == 1 and isinstance(x.targets[0], ast.Name):
                    local[x.targets[0].id] = x.value
            finals = [st.value for st in fn.body if isinstance(st, ast.Return) and st.value is not None]
            for st in fn.body:
                if not isinstance(st, ast.If):
                    continue
                early = [r for r in st.body if isinstance(r, ast.Return) and r.value is not None and isinstance(r.value, ast.Call)
                         and (dotted(r.value.func) or "").split(".")[-1] in ("zeros", "zeros_like")]
                if not early or not finals:
                    continue
                tested = {w.id for w in ast.walk(st.test) if isinstance(w, ast.Name) and w.id in local}
                tested_calls = {norm_src(w) for w in ast.walk(st.test) if isinstance(w, ast.Call) and norm_src(w.func).startswith("self.")}
                if not tested and not tested_calls:
                    continue        # a test on configuration data (flags, sizes), not on evaluated values
                names = set(tested)

                def atom(e):
                    if isinstance(e, ast.Name):
                        return e.id if e.id in names or e.id not in local else None
                    if isinstance(e, ast.Call):
                        s_ = norm_src(e)
                        return s_
                    if isinstance(e, (ast.Attribute, ast.Subscript, ast.Constant)):
                        return norm_src(e)
                    return None
                T = Terms(fn, atom)
                T.local = {k: [v] for k, v in local.items() if k not in names}
                terms = T.expand(finals[-1])
                keys = names | tested_calls
                import re as _re
                has = lambda a: a in keys or any(_re.search(r"(?<![\w.])" + _re.escape(k) + r"(?![\w])", a) for k in keys)
                free = [f for c, f in terms if not any(has(a) for a in f)]
                if free:
                    rep.bad("C08.R13", C, st.test, f"`if {norm_src(st.test)}: return zeros` - but the general result has the term `{' * '.join(free[0])[:80]}` that does not contain "
                            f"{sorted(keys)}: where the tested quantity vanishes its derivative need not (a PD / PID controller exactly on its set point has la_tau = 0 and "
                            "la_tau_q = -kp l_q), so the reported Jacobian is zero where the true one is not", f"{rel}:{st.lineno}")
                else:
                    rep.ok("C08.R13", C, f"early zero return under `{norm_src(st.test)[:50]}`: every term of the general result contains the tested quantity")
    rep.ok("C08.R13", "cardillo/{actuators,force_laws,interactions,forces}", f"{n} derivative routines scanned for value-dependent early zero returns")


def r12_tau_rank(ctx):
    """`contr.tau` has two writers: the constructor (whatever the user passes: for a one-input actuator a scalar or a scalar function) and
    System.set_tau, which always stores a slice `tau(t)[contr.tauDOF]`, i.e. an ARRAY of ntau entries.  A reader that wraps `self.tau(t)` into a
    new array (np.array([self.tau(t)])) produces la_tau of shape (1, 1) on the set_tau path and BaseActuator.Wla_tau_q's einsum raises: the
    actuator Jacobian is unavailable.  Readers must be rank-agnostic: index an entry (`self.tau(t)[k]`, what PD / PID do) or normalise the shape
    (np.reshape / np.atleast_1d / ravel)."""
    rep = ctx.rep
    sys_fn = ctx.repo.maybe("cardillo/system.py", "System.set_tau")
    slices = bool(sys_fn) and any(isinstance(w, ast.Subscript) and norm_src(w.slice) == "contr.tauDOF" for w in ast.walk(sys_fn))
    n = 0
    for rel, mod in sorted(ctx.repo.modules.items()):
        if not rel.startswith("cardillo/actuators/"):
            continue
        for q, fn in mod.defs().items():
            if not isinstance(fn, ast.FunctionDef):
                continue
            for w in ast.walk(fn):
                if isinstance(w, ast.Call) and norm_src(w.func) == "self.tau":
                    n += 1
                    par = getattr(w, "_parent", None)
                    C = f"{rel}:{q}"
                    if isinstance(par, (ast.List, ast.Tuple)) and isinstance(getattr(par, "_parent", None), ast.Call) \
                            and (dotted(par._parent.func) or "").split(".")[-1] in ("array", "asarray", "hstack", "concatenate") and slices:
                        rep.bad("C08.R12", C, par._parent, f"`{norm_src(par._parent)}` wraps the control input into a new array: System.set_tau stores `tau(t)[contr.tauDOF]`, an array, so "
                                "la_tau becomes two-dimensional and Wla_tau_q (einsum 'ijk,j->ik') raises - the actuator Jacobian is unavailable after set_tau", f"{rel}:{w.lineno}")
                    else:
                        rep.ok("C08.R12", C, f"`{norm_src(par)[:60]}`: rank-agnostic use of the control input")
    if n < 3:
        raise AnalysisError(f"C08.R12: only {n} reads of self.tau(t) found in cardillo/actuators")


def r9_angle_homogeneity(ctx):
    """Revolute's angle is a function of the ratio y/x of two projections of the body-2 joint axis e_a2 on body-1 axes: it does
    not change when the (non-orthonormal, off-manifold) basis A_IJ2 is scaled.  Its stated derivative l_q must then be of
    degree 0 under A_IJ2 -> s A_IJ2 (A_IJ2_q2 -> s A_IJ2_q2) as well, and likewise under A_IJ1 -> s A_IJ1 (engine K6)."""
    from ..degrees import Interp, fmt, is_ground, TOP
    from fractions import Fraction as F
    rep = ctx.rep
    ci = ctx.model.cls("Revolute")
    fns = dict(ci.methods)
    for scaled in ("2", "1"):
        attr = {"self.angle0": F(0), "self.n_full_rotations": F(0), "self.previous_quadrant": F(0), "self.plane_axes": F(0), "self.axis": F(0)}
        for b in ("1", "2"):
            d = F(1) if b == scaled else F(0)
            attr[f"self.A_IJ{b}"] = d
            attr[f"self.A_IJ{b}_q{b}"] = d
        for name, want in (("l", F(0)), ("l_q", F(0))):
            if name not in fns:
                raise AnalysisError(f"Revolute.{name} vanished")
            it = Interp(fns, attr_degs=attr)
            d = it.run(name, {"t": F(0), "q": F(0)}, {})
            C = f"{ci.rel}:Revolute.{name}"
            what = f"under A_IJ{scaled} -> s A_IJ{scaled}"
            if it.violations:
                v = it.violations[0]
                rep.bad("C08.R9", C, v.node, f"{what}: {v.msg} in `{norm_src(v.node)[:90]}`; the angle / its derivative must not depend on the length of the joint axes",
                        f"{ci.rel}:{getattr(v.node, 'lineno', 0)}")
            elif d == want:
                rep.ok("C08.R9", C, f"{what}: degree {fmt(d)} (angle and its q-derivative are functions of the direction only)")
            elif is_ground(d):
                rep.bad("C08.R9", C, f"{name}: degree {fmt(d)} {what}", f"{what} `{name}` scales with degree {fmt(d)} although the angle `l` has degree 0: the derivative is exact only for "
                        f"orthonormal joint bases, i.e. on the constraint manifold (a normalisation such as / (x**2 + y**2) is missing)", f"{ci.rel}:{fns[name].lineno}")
            else:
                rep.ok("C08.R9", C, f"{what}: degree of Revolute.{name} not inferred ({fmt(d)}); no verdict", verdict="unknown", trivial=True)


def run(ctx):
    rep = ctx.rep
    rep.rule("C08.R14", "a force element's Jacobian routines differentiate the kinematics of the SAME material point (xi, B_r_CP) its force routine uses (h = F . J_P(P), h_q = F . J_P_q(P))", 4)
    _owners = [(ci.qual, ci.rel, ci.node) for ci in ctx.model.all_classes() if ci.rel.startswith(("cardillo/forces/", "cardillo/interactions/"))]
    protocol.point_argument_agreement(ctx, "C08.R14", _owners)
    rep.rule("C08.R10", "dependence monotonicity (K13) over every primal/derivative pair of K5: a stated derivative reads no datum its primal does not read", 30)
    from .. import depmono as _dm
    _dm.check_k5_pairs(ctx, "C08.R10", ['TwoPointInteraction', 'Revolute', 'KelvinVoigtElement', 'Spring', 'MaxwellElement', 'PDcontroller', 'PIDcontroller', 'Force', 'B_Force', 'Moment', 'B_Moment'])
    rep.rule("C08.R11", "memoised helpers of interactions / force laws / actuators (none on the pinned tree) key on every argument and, for a cache shared by all instances, on the instance", 0)
    from . import c26 as _c26
    _sites = [s_ for s_ in _c26.find_sites(ctx) if s_.rel.startswith(("cardillo/interactions/", "cardillo/force_laws/", "cardillo/actuators/", "cardillo/forces/"))]
    _c26.r1_keys(ctx, _sites, rule="C08.R11")
    rep.ok("C08.R11", "cardillo/interactions + force_laws + actuators + forces", f"{len(_sites)} memoised methods found", trivial=True)
    rep.rule("C08.R1", "chain-rule coverage of force-element / actuator derivatives (K5)", 40)
    rep.rule("C08.R2", "product rule in actuator Jacobians", 2)
    rep.rule("C08.R3", "subsystem protocol (scalar interface and kinematic calls)", 25)
    rep.rule("C08.R4", "mirror symmetry of TwoPointInteraction glue", 6)
    rep.rule("C08.R6", "two-body block typing of the scalar-interface derivatives of Revolute / TwoPointInteraction (K9)", 12)
    rep.rule("C08.R7", "relative polarity of body-2 vs body-1 terms across l_dot, l_q, l_dot_q, l_dot_u, W_l, W_l_q (K9)", 10)
    from .. import twobody
    for cname, chain in (("Revolute", ["l_dot", "l_dot_q", "l_dot_u", "l_q", "W_l", "W_l_q"]), ("TwoPointInteraction", ["l_dot", "l_q", "l_dot_q", "l_dot_u", "W_l", "W_l_q", "_n", "_n_q"])):
        ci = ctx.model.cls(cname)
        for name in chain:
            fn = ci.methods.get(name)
            if fn is None:
                raise AnalysisError(f"{ci.rel}:{cname}.{name} vanished")
            twobody.check_typing(rep, "C08.R6", f"{ci.rel}:{cname}.{name}", ci.rel, fn)
        twobody.check_polarity(rep, "C08.R7", ci, chain)
    rep.rule("C08.R13", "derivative routines return zeros early only under tests whose vanishing quantity is a factor of every term of the general result", 1)
    r13_zero_shortcuts(ctx)
    rep.rule("C08.R12", "actuators read their control input rank-agnostically (constructor passes scalars, System.set_tau array slices)", 3)
    r12_tau_rank(ctx)
    rep.rule("C08.R9", "Revolute: angle and its q-derivative are homogeneous of degree 0 in each joint basis (K6)", 4)
    r9_angle_homogeneity(ctx)
    rep.rule("C08.R8", "MaxwellElement: damper-coordinate column has the opposite sign of the l_q term", 2)
    r8_maxwell_polarity(ctx)
    rep.rule("C08.R5", "Leibniz image of the primal's factor monomials equals the derivative routine's monomials (K10)", 8)
    from .. import support
    for cname in ("Revolute", "TwoPointInteraction"):
        ci = ctx.model.cls(cname)
        view = protocol.ClassView(ctx, ci)
        for p, d, mode, extra in (("l_dot", "l_dot_q", "q", None), ("l_dot", "l_dot_u", "u", None), ("l_dot", "W_l", "u", None), ("W_l", "W_l_q", "q", None)):
            c, fn = view.method(d)
            support.check(rep, "C08.R5", view, f"{ci.rel}:{cname}.{d}", ci.rel, p, d, mode, extra, lineno=getattr(fn, "lineno", 0))
    for cname in ("Force", "B_Force", "Moment", "B_Moment"):
        ci = ctx.model.cls(cname)
        view = protocol.ClassView(ctx, ci)
        c, fn = view.method("h_q")
        if fn is None:
            raise AnalysisError(f"{cname}.h_q vanished")
        support.check(rep, "C08.R5", view, f"{ci.rel}:{cname}.h_q", ci.rel, "h", "h_q", "q", None, lineno=getattr(fn, "lineno", 0))
    model = ctx.model
    for rel, cname in CLASSES:
        ci = model.cls(cname, rel)
        only = None
        if cname == "Revolute":
            only = lambda p, d, dep: p in REV_ONLY and d in REV_ONLY
        deriv.run_class(ctx, "C08.R1", ci, only=only)
    # R2
    ba = model.cls("BaseActuator")
    for m, need in (("Wla_tau_q", {"W_tau_q", "la_tau", "W_tau", "la_tau_q"}), ("Wla_tau_u", {"W_tau", "la_tau_u"})):
        fn = ba.methods.get(m)
        if fn is None:
            raise AnalysisError(f"BaseActuator.{m} vanished")
        have = {n.attr for n in ast.walk(fn) if isinstance(n, ast.Attribute) and isinstance(n.value, ast.Name) and n.value.id == "self"}
        C = f"{ba.rel}:BaseActuator.{m}"
        miss = sorted(need - have)
        if miss:
            rep.bad("C08.R2", C, fn.body[-1], f"product rule d(W_tau la_tau): factor(s) {miss} never referenced", f"{ba.rel}:{fn.lineno}")
        else:
            rep.ok("C08.R2", C, f"references {sorted(need)}")
    # R3 scalar interface
    calls = []
    attrs = {}
    for rel, cname in CLASSES[:8]:
        ci = model.cls(cname, rel)
        for mname, fn in ci.methods.items():
            calls += [(r, m, c) for (r, m, c) in protocol.subsystem_calls(fn, ("subsystem",))]
            for n in ast.walk(fn):
                if isinstance(n, ast.Attribute) and dotted(n.value) == "self.subsystem" and isinstance(n.ctx, ast.Load):
                    par = getattr(n, "_parent", None)
                    if not (isinstance(par, ast.Call) and par.func is n):
                        attrs.setdefault(n.attr, (rel, cname, mname, n))
    calls = [c for c in calls if c[1] not in ("assembler_callback", "export")]
    protocol.check_subsystem_protocol(ctx, "C08.R3", "cardillo/force_laws+actuators: self.subsystem.*", calls,
                                      classes=tables.SCALAR_SUBSYSTEMS, rel="cardillo/force_laws")
    ext = protocol.external_setters(ctx)
    for a, (rel, cname, mname, n) in sorted(attrs.items()):
        if a in ("q0", "t0", "u0"):
            continue  # default reference length path: decided under C09
        for sub in tables.SCALAR_SUBSYSTEMS:
            sci = model.cls(sub)
            C = f"{rel}:{cname}.{mname}"
            if model.has_attr(sci, a) or a in ext:
                rep.ok("C08.R3", C, f"self.subsystem.{a} provided by {sub}")
            else:
                rep.bad("C08.R3", C, n, f"`self.subsystem.{a}` is read but supported subsystem class {sub} never defines it", f"{rel}:{n.lineno}")
    # kinematic calls of forces / moments / two-point interaction
    kcalls = []
    for rel, cname in CLASSES[8:13]:
        ci = model.cls(cname, rel)
        for mname, fn in ci.methods.items():
            kcalls += protocol.subsystem_calls(fn, ("subsystem", "subsystem1", "subsystem2"))
    kcalls = [c for c in kcalls if c[1] not in ("local_qDOF_P", "local_uDOF_P")]
    protocol.check_subsystem_protocol(ctx, "C08.R3", "cardillo/forces+interactions: subsystem.*", kcalls, rel="cardillo/forces")
    # R4 mirror
    tpi = model.cls("TwoPointInteraction")
    lam = {a: sts[0] for a, sts in tpi.stores.items() if len(sts) == 1 and sts[0].kind == "lambda"}
    n = 0
    for name, st in sorted(lam.items()):
        other = mirror.swap_ident(name)
        if "1" not in name or other == name:
            continue
        n += 1
        C = f"{tpi.rel}:TwoPointInteraction.{name}"
        if other not in lam:
            rep.bad("C08.R4", C, st.node, f"lambda `{name}` has no mirror `{other}`", f"{tpi.rel}:{st.node.lineno}")
        elif mirror.mirror_equal(st.value, lam[other].value):
            rep.ok("C08.R4", C, f"{name} <-> {other} are mirror images")
        else:
            a, b = mirror.first_difference(st.value, lam[other].value)
            rep.bad("C08.R4", C, lam[other].node, f"`{other}` is not the mirror image of `{name}`: expected `{a[:140]}` found `{b[:140]}`",
                    f"{tpi.rel}:{lam[other].node.lineno}")
    if n < 6:
        raise AnalysisError("TwoPointInteraction glue lambdas not found")


FB = "cardillo/force_laws/_base.py"
MX = "cardillo/force_laws/maxwell_element.py"
TPI = "cardillo/interactions/two_point_interaction.py"
REV = "cardillo/constraints/revolute.py"
MUTANTS = [
    dict(id="c08-m1", canary=True, what="ScalarForceLawBase.la_c_q drops the damping path (l_dot_q term)", file=FB,
         old="        return self._la_c_l(t, self.l(t, q), self.l_dot(t, q, u)) * self.l_q(\n            t, q\n        ) + self._la_c_l_dot(t, self.l(t, q), self.l_dot(t, q, u)) * self.l_dot_q(\n            t, q, u\n        )",
         new="        return self._la_c_l(t, self.l(t, q), self.l_dot(t, q, u)) * self.l_q(\n            t, q\n        )", expect="C08.R1"),
    dict(id="c08-m2", what="_h_q drops the geometric stiffness W_l_q", file=FB,
         old="        return self.la_c(t, q, u) * self.subsystem.W_l_q(t, q).reshape(\n            self.subsystem._nu, self.subsystem._nq\n        ) + np.outer(",
         new="        return 0 * self.la_c(t, q, u) + np.outer(", expect="C08.R1"),
    dict(id="c08-m3", canary=True, what="BaseActuator.Wla_tau_q forgets W_tau @ la_tau_q", file="cardillo/actuators/_base.py",
         old="        return np.einsum(\n            \"ijk,j->ik\", self.W_tau_q(t, q), self.la_tau(t, q, u)\n        ) + self.W_tau(t, q) @ self.la_tau_q(t, q, u)",
         new="        return np.einsum(\n            \"ijk,j->ik\", self.W_tau_q(t, q), self.la_tau(t, q, u)\n        )", expect="C08.R2"),
    dict(id="c08-m4", what="PIDcontroller.la_tau_q drops the derivative-gain path", file="cardillo/actuators/PID_controller.py",
         old="                self.kp * self.subsystem.l_q(t, q[1:])\n                + self.kd * self.subsystem.l_dot_q(t, q[1:], u)\n            ]\n        )\n        return la_tau_q",
         new="                self.kp * self.subsystem.l_q(t, q[1:])\n            ]\n        )\n        return la_tau_q", expect="C08.R1"),
    dict(id="c08-m5", what="MaxwellElement.h_q drops the W_l_q term", file=MX,
         old="            self.subsystem.W_l_q(t, qext).reshape(self._nu, self._nq - 1)\n            * self.k\n            * (self.subsystem.l(t, qext) - l_d - self.l_ref)\n            + np.outer(", new="            np.outer(", expect="C08.R1"),
    dict(id="c08-m6", what="TwoPointInteraction.W_l_q forgets the direction derivative n_q", file=TPI,
         old="        n_q1, n_q2 = self._n_q(t, q)\n        J_P1 = self.J_P1(t, q)\n        J_P2 = self.J_P2(t, q)\n        J_P1_q",
         new="        n_q1, n_q2 = 0 * q[:3, None].T, 0 * q[:3, None].T\n        J_P1 = self.J_P1(t, q)\n        J_P2 = self.J_P2(t, q)\n        J_P1_q", expect="C08.R1"),
    dict(id="c08-m7", what="TwoPointInteraction: J_P2 evaluated with the first body's coordinates", file=TPI,
         old="        self.J_P2 = lambda t, q: self.subsystem2.J_P(\n            t, q[self._nq1 :], self.xi2, self.B_r_CP2\n        )",
         new="        self.J_P2 = lambda t, q: self.subsystem2.J_P(\n            t, q[: self._nq1], self.xi2, self.B_r_CP2\n        )", expect="C08.R4"),
    dict(id="c08-m8", what="Revolute.l_dot_q forgets the Omega2 dependence on q2", file=REV,
         old="                - e_c1 @ self.Omega1_q1(t, q, u),\n                e_c1 @ self.Omega2_q2(t, q, u),",
         new="                - e_c1 @ self.Omega1_q1(t, q, u),\n                0 * e_c1 @ self.Omega1_q1(t, q, u),", expect="C08.R1"),
    dict(id="c08-m9", what="B_Force.h_q loses the A_IB_q term", file="cardillo/forces/force.py",
         old="        return einsum(\n            \"ijk,j,il->lk\", self.A_IB_q(t, q), self.force(t), self.J_P(t, q)\n        ) + einsum(", new="        return einsum(", expect="C08.R1"),
    dict(id="c08-m10", what="Revolute.l_dot_u loses its u parameter (force laws pass t, q, u)", file=REV,
         old="    def l_dot_u(self, t, q, u):\n        e_c1", new="    def l_dot_u(self, t, q):\n        e_c1", expect="C08.R3"),
]
MUTANTS += [
    dict(id="c08-k10-1", canary=True, what="TwoPointInteraction.W_l_q: the (u2, q2) block contracts the direction with body 1's Jacobian derivative", file=TPI,
         old="        W_q[nu1:, nq1:] = J_P2.T @ n_q2 + np.einsum(\"i,ijk->jk\", n, J_P2_q)", new="        W_q[nu1:, nq1:] = J_P2.T @ n_q2 + np.einsum(\"i,ijk->jk\", n, J_P1_q)", expect="C08.R5"),
    dict(id="c08-k10-2", what="Revolute.W_l_q: the (u2, q1) block uses J_R1 instead of J_R2", file=REV,
         old="        W_angle_q[nu1:, 0, :nq1] = J_R2.T @ e_c1_q1", new="        W_angle_q[nu1:, 0, :nq1] = J_R1.T @ e_c1_q1", expect="C08.R5"),
]
MUTANTS += [
    dict(id="c08-k9-1", canary=True, what="TwoPointInteraction.l_dot_q: sign of the body-2 velocity term flipped", file=TPI,
         old="        gamma_q[nq1:] = n @ self.v_P2_q(t, q, u) + v_P1P2 @ n_q2", new="        gamma_q[nq1:] = -n @ self.v_P2_q(t, q, u) + v_P1P2 @ n_q2", expect="C08.R7"),
    dict(id="c08-k9-2", what="Revolute.W_l_q: the J_R2_q2 term is stored in the body-1 coordinate block", file=REV,
         old="        W_angle_q[nu1:, 0, nq1:] = np.einsum(\"i,ijk->jk\", e_c1, J_R2_q2)", new="        W_angle_q[nu1:, 0, :nq1] += np.einsum(\"i,ijk->jk\", e_c1, J_R2_q2)", expect="C08.R6"),
]
MUTANTS += [
    dict(id="c08-r8-1", canary=True, what="MaxwellElement.h_q: damper column subtracted (original defect)", file=MX,
         old="        h_q[:, 0] += self.subsystem.W_l(t, q[1:]).reshape(self._nu) * self.k", new="        h_q[:, 0] -= self.subsystem.W_l(t, q[1:]).reshape(self._nu) * self.k", expect="C08.R8"),
    dict(id="c08-r8-2", what="MaxwellElement.q_dot_q: damper entry added instead of subtracted", file=MX,
         old="        q_dot_q[0] -= self.k / self.eta", new="        q_dot_q[0] += self.k / self.eta", expect="C08.R8"),
]
MUTANTS += [
    dict(id="c08-seed", canary=True, what="[seeded by sub-agent] Revolute.l_q drops the normalisation 1 / (x**2 + y**2)", file=REV,
         old="        return (x * y_q - y * x_q) / (x**2 + y**2)", new="        return x * y_q - y * x_q", expect="C08.R9"),
]
TPI_ = "cardillo/interactions/two_point_interaction.py"
MUTANTS += [
    dict(id="c08-r11-seed", canary=True, what="[seeded by sub-agent] TwoPointInteraction._n_q memoised with cachetools.cached: one cache for all interactions, key without the instance", file=TPI_,
         edits=[(TPI_, "import numpy as np\n", "import numpy as np\nfrom cachetools import cached, LRUCache\nfrom cachetools.keys import hashkey\n"),
                (TPI_, "    def _n_q(self, t, q):\n", "    @cached(LRUCache(maxsize=1), key=lambda self, t, q: hashkey(t, *q))\n    def _n_q(self, t, q):\n")], expect="C08.R11"),
]
NEUTRAL = [
    dict(id="c08-n-r8", canary=True, what="MaxwellElement.h_q: damper column written as a plain assignment", file=MX,
         old="        h_q[:, 0] += self.subsystem.W_l(t, q[1:]).reshape(self._nu) * self.k", new="        h_q[:, 0] = self.k * self.subsystem.W_l(t, q[1:]).reshape(self._nu)"),
    dict(id="c08-n1", canary=True, what="la_c_q with locals", file=FB,
         old="        return self._la_c_l(t, self.l(t, q), self.l_dot(t, q, u)) * self.l_q(\n            t, q\n        ) + self._la_c_l_dot(t, self.l(t, q), self.l_dot(t, q, u)) * self.l_dot_q(\n            t, q, u\n        )",
         new="        l, l_dot = self.l(t, q), self.l_dot(t, q, u)\n        a = self._la_c_l(t, l, l_dot) * self.l_q(t, q)\n        b = self._la_c_l_dot(t, l, l_dot) * self.l_dot_q(t, q, u)\n        return a + b"),
]
MUTANTS += [
    dict(id="c08-r12-orig", canary=True, what="Motor wraps tau(t) into a new array (original defect F50)", file="cardillo/actuators/motor.py",
         old="        return np.reshape(self.tau(t), self.nla_tau)\n", new="        return np.array([self.tau(t)])\n", expect="C08.R12"),
]
MUTANTS += [
    dict(id="c08-r5-seed", canary=True, what="[seeded by sub-agent] B_Force.h_q: second product-rule term contracts the body-fixed force with J_P_q without rotating it", file="cardillo/forces/force.py",
         old="        ) + einsum(\"i,ijk->jk\", self.A_IB(t, q) @ self.force(t), self.J_P_q(t, q))\n\n    def export(self, sol_i, **kwargs):\n        r_OP = self.r_OP(sol_i.t, sol_i.q[self.qDOF])\n        A_IB",
         new="        ) + einsum(\"i,ijk->jk\", self.force(t), self.J_P_q(t, q))\n\n    def export(self, sol_i, **kwargs):\n        r_OP = self.r_OP(sol_i.t, sol_i.q[self.qDOF])\n        A_IB", expect="C08.R5"),
]
MUTANTS += [
    dict(id="c08-r13-seed", canary=True, what="[seeded by sub-agent] BaseActuator.Wla_tau_q returns zeros for an idle actuator (la_tau == 0)", file="cardillo/actuators/_base.py",
         old="        return np.einsum(\n            \"ijk,j->ik\", self.W_tau_q(t, q), self.la_tau(t, q, u)\n        ) + self.W_tau(t, q) @ self.la_tau_q(t, q, u)\n",
         new="        la_tau = self.la_tau(t, q, u)\n        if not np.any(la_tau):\n            return np.zeros((self._nu, self._nq))\n        return np.einsum(\"ijk,j->ik\", self.W_tau_q(t, q), la_tau) + self.W_tau(t, q) @ self.la_tau_q(t, q, u)\n",
         expect="C08.R13"),
]

MUTANTS += [
    dict(id="c08-r14-seed", canary=True, what="[seeded by sub-agent] Force.__init__: the closure used by h_q (J_P_q) loses the offset B_r_CP of the point of attack", file='cardillo/forces/force.py',
         old="        self.J_P_q = lambda t, q: subsystem.J_P_q(t, q, xi, B_r_CP)\n", new="        self.J_P_q = lambda t, q: subsystem.J_P_q(t, q, xi)\n", expect="C08.R14"),
]
