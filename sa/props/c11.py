"""C11  Rod discretization derivatives and nodal interpolation are consistent.

Structural clauses decided (cardillo/rods/_base.py, cosseratRod.py):
 R1 chain-rule coverage   every derivative the rod reports references the companions of what its primal evaluates (engine K5,
                          all 15 rod class variants; `_eval` -> `_deval`); f_int_el_qe, c_el_qe, g_q_el, Wla_*_qe evaluate `_deval`
                          and the internal-force Jacobian references all four material tangents
 R2 clone agreement       per interpolation, `_deval` computes r_OP, A_IB, B_Gamma_bar, B_Kappa_bar exactly as `_eval` does (AST
                          equality after copy-propagation): the derivative kernel differentiates the function that is used
 R3 normalising variant   every rotation built from an interpolated or nodal quaternion in rods/ and discrete/rigid_body.py uses the
                          normalising variant of Exp_SO3_quat / Exp_SO3_quat_P / T_SO3_quat / T_SO3_quat_P ("quaternion ...
                          interpolations always produce rotations"), while the kinematic equation uses the non-normalising
                          inverse tangent map in q_dot, q_dot_q and q_dot_u alike
 R4 kernel agreement      the matrix multiplying u in q_dot and the matrix stored by q_dot_u are the same kernel applied to the same
                          argument (so q_dot_u is the u-derivative of q_dot also for non-unit nodal quaternions)
 R5 mass / energy data    M_el, E_kin_el and f_gyr_el integrate the same inertia data with the same quadrature
"""
from __future__ import annotations

import ast

from ..core import AnalysisError, dotted, norm_src, walk_no_nested
from .. import deriv, protocol

EXPLANATION = ("K5 over all resolved rod variants; AST comparison of _eval/_deval after copy-propagation; constant "
               "propagation of the `normalize` keyword (with the defaults read from math/rotations.py) at every quaternion-kernel "
               "call site; copy-propagated comparison of the q_dot / q_dot_u kernels; attribute-read comparison of M_el / E_kin_el.")
NOT_DECIDED = "exactness of the derivatives, nodal interpolation identities (value facts of the basis), positive semi-definiteness of M."
ASSUMPTIONS = ["defaults of the `normalize` keyword are those in cardillo/math/rotations.py (parsed on every run)"]
BLIND_SPOTS = ["an index or sign error inside f_int_el_qe that keeps all companions referenced"]
RB, CR, ROT = "cardillo/rods/_base.py", "cardillo/rods/cosseratRod.py", "cardillo/math/rotations.py"
NORMALISING = ("Exp_SO3_quat", "Exp_SO3_quat_P", "T_SO3_quat", "T_SO3_quat_P")
KINEQ = ("T_SO3_inv_quat", "T_SO3_inv_quat_P")


def _rooted_at_qe(e):
    while isinstance(e, ast.Subscript):
        e = e.value
    return isinstance(e, ast.Name) and e.id == "qe"


class _Leaf(ast.NodeTransformer):
    """selections from the element coordinates `qe[...]` (any index chain) become the placeholder qe[SEL]."""

    def visit_Subscript(self, n):
        if _rooted_at_qe(n):
            return ast.parse("qe[SEL]", mode="eval").body
        self.generic_visit(n)
        return n


def _inline(expr, env, depth=0):
    """copy-propagate single-assignment locals into expr and abstract qe-selections; returns source text."""
    src = ast.unparse(expr)
    e2 = ast.parse(src, mode="eval").body
    if depth <= 25:
        class T(ast.NodeTransformer):
            def visit_Name(self, n):
                if isinstance(n.ctx, ast.Load) and n.id in env:
                    v = env[n.id]
                    if isinstance(v, str):
                        return ast.parse(v, mode="eval").body
                    return ast.parse(_inline(v, {k: w for k, w in env.items() if k != n.id}, depth + 1), mode="eval").body
                return n
        e2 = T().visit(e2)
    e2 = _Leaf().visit(e2)
    return " ".join(ast.unparse(e2).split())


def _single_assign_env(fn, only=None):
    """locals bound exactly once (Store context); tuple-unpacked selections of qe map to the placeholder."""
    cnt, val = {}, {}
    for n in walk_no_nested(fn):
        tgts = []
        if isinstance(n, ast.Assign):
            tgts = n.targets
        elif isinstance(n, ast.AugAssign):
            tgts = [n.target]
        elif isinstance(n, ast.For):
            tgts = [n.target]
        for t in tgts:
            if isinstance(t, ast.Name):
                cnt[t.id] = cnt.get(t.id, 0) + (1 if isinstance(n, ast.Assign) else 2)
                if isinstance(n, ast.Assign):
                    val[t.id] = n.value
            elif isinstance(t, (ast.Tuple, ast.List)):
                for e in t.elts:
                    if isinstance(e, ast.Name):
                        cnt[e.id] = cnt.get(e.id, 0) + 1
                        if isinstance(n, ast.Assign) and _rooted_at_qe(n.value):
                            val[e.id] = "qe[SEL]"
                        else:
                            cnt[e.id] += 1
    return {k: v for k, v in val.items() if cnt.get(k) == 1 and (only is None or k in only)}


def normalising_rule(ctx, rule, want_file, floor):
    """Every Exp_SO3_quat / Exp_SO3_quat_P / T_SO3_quat / T_SO3_quat_P call on a state quaternion is the normalising variant
    (the result is a rotation for ANY nonzero quaternion); the kinematic-equation family is the non-normalising, linear one."""
    rep = ctx.rep
    rot = ctx.repo.module(ROT)
    defaults = {}
    for n in rot.tree.body:
        if isinstance(n, ast.FunctionDef) and n.name in NORMALISING + KINEQ:
            a = n.args
            for arg, d in zip(reversed(a.args), reversed(a.defaults)):
                if arg.arg == "normalize" and isinstance(d, ast.Constant):
                    defaults[n.name] = d.value
    if len(defaults) < 6:
        raise AnalysisError("normalize defaults of the quaternion kernels not found in math/rotations.py")
    nsite = 0
    for rel, mod in ctx.repo.modules.items():
        if not want_file(rel):
            continue
        for qn, fn in mod.defs().items():
            if not isinstance(fn, ast.FunctionDef):
                continue
            for n in walk_no_nested(fn):
                if isinstance(n, ast.Call) and isinstance(n.func, ast.Name) and n.func.id in NORMALISING + KINEQ:
                    nsite += 1
                    kw = {k.arg: k.value for k in n.keywords}
                    if "normalize" in kw:
                        v = kw["normalize"]
                        flag = v.value if isinstance(v, ast.Constant) else None
                    elif len(n.args) > 1 and isinstance(n.args[1], ast.Constant):
                        flag = n.args[1].value
                    else:
                        flag = defaults[n.func.id]
                    C = f"{rel}:{qn}"
                    if flag is None:
                        rep.note(f"{rule}: normalize flag not constant at {C}: {norm_src(n)}")
                        continue
                    if n.func.id in NORMALISING:
                        if flag is True:
                            rep.ok(rule, C, f"{norm_src(n)[:70]} (normalising)")
                        else:
                            rep.bad(rule, C, n, f"`{n.func.id}` is evaluated without normalisation on a nodal/interpolated quaternion: the result is a rotation only "
                                    f"for unit quaternions", f"{rel}:{n.lineno}")
                    else:
                        if flag is False:
                            rep.ok(rule, C, f"{norm_src(n)[:70]} (kinematic equation, linear in p)")
                        else:
                            rep.bad(rule, C, n, f"the kinematic equation family must use the non-normalising `{n.func.id}` consistently", f"{rel}:{n.lineno}")
    if nsite < floor:
        raise AnalysisError(f"only {nsite} quaternion-kernel call sites found")


def constraint_order(ctx):
    """g_el / g_q_el select their rows as strains[self.idx_constraints] (list order); W_g_el / Wla_g_q_el address the multipliers as
    nodalDOF_la_g[: nconstraints_gamma] (shear / dilatation) followed by the kappa ones.  The two orders agree iff the list is sorted.
    The factory must therefore sort it (np.sort / np.unique / sorted) - or every consumer must use one order."""
    rep = ctx.rep
    fn = ctx.repo.get("cardillo/rods/_base.py", "make_CosseratRodConstrained")
    C = "cardillo/rods/_base.py:make_CosseratRodConstrained"
    defs = [n for n in ast.walk(fn) if isinstance(n, ast.Assign) and any(norm_src(t) in ("idx_constraints", "self.idx_constraints") for t in n.targets)]
    if not defs:
        raise AnalysisError(f"{C}: idx_constraints not found")
    src = {norm_src(t): n for n in defs for t in n.targets}
    root = src.get("idx_constraints")
    uses_split = any("nconstraints_gamma" in norm_src(w) for w in ast.walk(fn) if isinstance(w, ast.Subscript))
    uses_list_order = any(isinstance(w, ast.Subscript) and norm_src(w.slice) == "self.idx_constraints" for w in ast.walk(fn))
    if not (uses_split and uses_list_order):
        rep.ok("C11.R9", C, "residual rows and force directions no longer use the two different orders (premise gone; no verdict)", verdict="unknown", trivial=True)
        return
    call = root.value if root is not None else None
    sorted_ = isinstance(call, ast.Call) and (dotted(call.func) or "").split(".")[-1] in ("sort", "unique", "sorted")
    if isinstance(call, ast.Call) and (dotted(call.func) or "").split(".")[-1] in ("array", "asarray") and call.args and isinstance(call.args[0], ast.Call) \
            and (dotted(call.args[0].func) or "").split(".")[-1] in ("sorted", "sort", "unique"):
        sorted_ = True
    if sorted_:
        rep.ok("C11.R9", C, f"{norm_src(root)}: sorted, so rows of g (list order) and columns of W_g (gamma first) pair up")
    else:
        rep.bad("C11.R9", C, root if root is not None else fn.name, "the constraint index list is used in the order given by the caller for the rows of g / g_q, but W_g / Wla_g_q put the gamma "
                "constraints first: for an unsorted list (e.g. [3, 0]) multiplier k acts along another constraint's force direction and W_g is not the transposed velocity "
                "Jacobian of g_dot", f"cardillo/rods/_base.py:{(root or fn).lineno}")


def element_index_agreement(ctx):
    """The element routines depend on the element through the reference data of that element (J[el], B_Gamma0[el], quadrature
    points, ...).  In every assembly loop `for el in range(self.nelement)` of the rod classes, `self.<X>_el(...)` must receive the
    loop variable, the element tables `self.elDOF*[...]` must be subscripted with it, and no element routine evaluated for a fixed
    element outside the loop may be scattered into all elements."""
    rep = ctx.rep
    n = 0
    seen = set()
    for rel, mod in ctx.repo.modules.items():
        if not rel.startswith("cardillo/rods/"):
            continue
        for q, fn in mod.defs().items():
            if not isinstance(fn, ast.FunctionDef) or id(fn) in seen:
                continue
            seen.add(id(fn))
            loops = [w for w in walk_no_nested(fn) if isinstance(w, ast.For) and isinstance(w.target, ast.Name)
                     and norm_src(w.iter) in ("range(self.nelement)", "range(0, self.nelement)")]
            if not loops:
                continue
            C = f"{rel}:{q}"
            inside = set()
            for lp in loops:
                var = lp.target.id
                for w in ast.walk(lp):
                    inside.add(id(w))
                    if isinstance(w, ast.Call) and isinstance(w.func, ast.Attribute) and dotted(w.func.value) == "self" and w.func.attr.endswith("_el"):
                        n += 1
                        args = [norm_src(a) for a in w.args] + [norm_src(k.value) for k in w.keywords]
                        if var in args:
                            rep.ok("C11.R7", C, f"self.{w.func.attr}(..., {var})")
                        else:
                            rep.bad("C11.R7", C, w, f"`self.{w.func.attr}` is evaluated inside the loop over the elements without the loop variable `{var}` "
                                    f"(arguments {args}): every element gets the contribution of another element", f"{rel}:{w.lineno}")
                    if isinstance(w, ast.Subscript) and (dotted(w.value) or "").startswith("self.elDOF"):
                        n += 1
                        idx = norm_src(w.slice)
                        if idx == var or idx.startswith(var + ","):
                            rep.ok("C11.R7", C, f"{norm_src(w)}")
                        else:
                            rep.bad("C11.R7", C, w, f"element table `{norm_src(w.value)}` is subscripted with `{idx}` inside the loop over `{var}`", f"{rel}:{w.lineno}")
            # element routines evaluated outside the loop but used inside it
            outer = {}
            for st in walk_no_nested(fn):
                if isinstance(st, ast.Assign) and id(st) not in inside and isinstance(st.targets[0], ast.Name):
                    for w in ast.walk(st.value):
                        if isinstance(w, ast.Call) and isinstance(w.func, ast.Attribute) and dotted(w.func.value) == "self" and w.func.attr.endswith("_el"):
                            outer[st.targets[0].id] = (st, w)
            for name, (st, call) in outer.items():
                used = any(isinstance(w, ast.Name) and w.id == name and id(w) in inside for lp in loops for w in ast.walk(lp))
                if used:
                    n += 1
                    rep.bad("C11.R7", C, st, f"`{norm_src(call)}` is evaluated once, for a fixed element, outside the loop over the elements and `{name}` is then used for every "
                            "element: the element routines depend on the element's own reference data (J[el], reference strains), so the assembled quantity is wrong whenever "
                            "the elements are not congruent", f"{rel}:{st.lineno}")
    if n < 25:
        raise AnalysisError(f"C11.R7: only {n} element-loop instances found")


BASIS_ATOMS = {"A_IB": "A_IB", "A_IB_q": "A_IB"}
BASIS_PAIRS = [("v_P", "J_P"), ("v_P", "v_P_q"), ("a_P", "a_P_u"), ("a_P", "a_P_q")]


def element_lookup_rule(ctx, rule="C11.R11"):
    """Which element a parameter xi belongs to is decided in ONE place, LagrangeKnotVector.element_number (a comparison with the stored knots):
    the mesh picks the shape functions with it, the rod picks the element's DOF tables with it.  At an interior element boundary the two
    lookups must give the same element, otherwise shape functions N = (1, 0, ...) of element k are combined with the coordinates of element k-1
    and the rod reports the state of a node one element away.  A second, arithmetic decider (`int(xi * nelement)`) disagrees with the knot
    comparison exactly at those boundaries where the floating-point product rounds down (0.7142857142857142 * 7 = 4.999...).  Rule: every
    `element_number` of the rod classes and every element choice in the mesh's basis evaluation is (a projection of) a call to the knot
    vector's `element_number`."""
    rep = ctx.rep
    n = 0
    for rel in ("cardillo/rods/_base.py", "cardillo/rods/cosseratRod.py", "cardillo/rods/discretization/mesh1D.py", "cardillo/rods/discretization/lagrange.py"):
        mod = ctx.repo.modules.get(rel)
        if mod is None:
            continue
        for q, fn in mod.defs().items():
            if not isinstance(fn, ast.FunctionDef):
                continue
            C = f"{rel}:{q}"
            if fn.name == "element_number" and "KnotVector" not in q:
                n += 1
                rets = [r.value for r in ast.walk(fn) if isinstance(r, ast.Return) and r.value is not None]
                ok = rets and all(any(isinstance(w, ast.Call) and isinstance(w.func, ast.Attribute) and w.func.attr == "element_number" and "knot_vector" in norm_src(w.func.value)
                                      for w in ast.walk(r)) for r in rets)
                if ok:
                    rep.ok(rule, C, f"delegates to the knot vector: `{norm_src(rets[0])[:60]}`")
                else:
                    rep.bad(rule, C, rets[0] if rets else fn.name, f"`{norm_src(rets[0])[:70] if rets else fn.name}` decides the element without the knot vector's element_number, which the mesh uses to pick "
                            "the shape functions: at interior element boundaries where the arithmetic rounds the other way the DOF tables of element k-1 are combined with the shape "
                            "functions of element k (the rod reports the state of a node one element away)", f"{rel}:{fn.lineno}")
            else:
                # arithmetic element choices elsewhere:  int(xi * nelement) / floor(xi * nelement)
                for w in ast.walk(fn):
                    if isinstance(w, ast.Call) and (dotted(w.func) or "").split(".")[-1] in ("int", "floor") and w.args \
                            and any(isinstance(x, (ast.Attribute, ast.Name)) and (dotted(x) or "").split(".")[-1] in ("nelement", "nel") for x in ast.walk(w.args[0])) \
                            and any(isinstance(x, ast.Name) and x.id in ("xi", "xis") for x in ast.walk(w.args[0])):
                        n += 1
                        rep.bad(rule, C, w, f"`{norm_src(w)[:60]}` computes an element number arithmetically next to the knot-vector lookup", f"{rel}:{w.lineno}")
    if n < 1:
        raise AnalysisError(f"{rule}: the rod's element_number vanished")


def basis_degree_rule(ctx, rule="C11.R10"):
    """Differentiation with respect to q or u never changes how often the cross-section basis enters a product: d/du leaves A_IB alone,
    d/dq turns one factor A_IB into A_IB_q.  So the number of basis factors (A_IB and A_IB_q together) of every monomial of a stated
    derivative must occur among the monomials of its primal (K10 supports keep multiplicities).  The interpolated basis of the R12 rod is
    NOT orthogonal between nodes, so `A (Omega x r)` and `(A Omega) x (A r)` differ there: a primal rewritten with the basis entering
    twice no longer has J_P / v_P_q as its derivatives although both forms agree for every rotation matrix."""
    from .. import support, protocol
    rep = ctx.rep
    cis = [c for c in ctx.model.all_classes() if c.qual == "CosseratRod_PetrovGalerkin"]
    if not cis:
        raise AnalysisError("CosseratRod_PetrovGalerkin vanished")
    ci = cis[0]
    view = protocol.ClassView(ctx, ci, ctx.model.variants(ci)[0])

    def degs(name):
        S, why = support.support_of(view, name)
        if S is support.TOP:
            return None, why
        return {sum(1 for a in m if a in BASIS_ATOMS) for m in S}, None
    for p_, d_ in BASIS_PAIRS:
        C = f"{ci.rel}:{ci.qual}.{d_}"
        dp, wp = degs(p_)
        dd, wd = degs(d_)
        if dp is None or dd is None:
            rep.ok(rule, C, f"({p_} -> {d_}): support not polynomial ({wp or wd}); no verdict", verdict="unknown", trivial=True)
            continue
        extra = sorted(dd - dp)
        if extra:
            c_, fn = view.method(d_)
            rep.bad(rule, C, f"{p_} -> {d_}", f"`{d_}` has monomials with {extra} factor(s) of the cross-section basis (A_IB / A_IB_q) but its primal `{p_}` only has monomials with {sorted(dp)}: "
                    "differentiation cannot change that count, so one of the two is not written in the form the other differentiates (they agree only where the interpolated basis is "
                    "orthogonal - not for R12 rods between nodes)", f"{ci.rel}:{getattr(fn, 'lineno', 0)}")
        else:
            rep.ok(rule, C, f"({p_} -> {d_}): basis multiplicities {sorted(dd)} of the derivative occur in the primal {sorted(dp)}")


def force_codefinition(ctx, rule="C11.R12"):
    """System sums `h`, `h_q`, `h_u` over the contributions that HAVE the respective method.  A class that offers `h_u` without `h`
    contributes a Jacobian of forces that are not in the equations of motion: System.h_u is then not the derivative of System.h (and the
    forces themselves are missing from the dynamics).  make_CosseratRodConstrained selects its base class at run time
    (`CosseratRodBase = ...`); the class table resolves one of the alternatives, so each alternative is checked here."""
    rep = ctx.rep
    model = ctx.model
    fn = ctx.repo.get(RB, "make_CosseratRodConstrained")
    alts = []
    inner = [c for c in ast.walk(fn) if isinstance(c, ast.ClassDef)]
    basevar = {b.id for c in inner for b in c.bases if isinstance(b, ast.Name)}
    for w in ast.walk(fn):
        if isinstance(w, ast.Assign) and len(w.targets) == 1 and isinstance(w.targets[0], ast.Name) and w.targets[0].id in basevar and isinstance(w.value, ast.Name):
            if w.value.id not in alts:
                alts.append(w.value.id)
    if len(alts) < 2 or not inner:
        raise AnalysisError(f"{RB}:make_CosseratRodConstrained: base-class alternatives not found")
    own = {f.name for f in inner[0].body if isinstance(f, ast.FunctionDef)}
    for a in alts:
        ci = model.cls(a, RB)
        view = protocol.ClassView(ctx, ci)
        have = set(own)
        for c in view.mro:
            have |= set(c.methods)
        C = f"{RB}:make_CosseratRodConstrained[{a}]"
        for d in ("h_q", "h_u"):
            if d in have and "h" not in have:
                rep.bad(rule, C, a, f"with base `{a}` the constrained rod offers `{d}` but no `h`: System.{d} contains the Jacobian of this rod's gyroscopic forces while System.h does not "
                        f"contain the forces - `{d}` is not the derivative of `h`, and a spinning rigid rod is integrated without its gyroscopic term", f"{RB}:{fn.lineno}")
            elif d in have:
                rep.ok(rule, C, f"`{d}` and `h` are both provided")
            else:
                rep.ok(rule, C, f"`{d}` not provided", trivial=True)


def run(ctx):
    rep = ctx.rep
    rep.rule("C11.R12", "a rod class reports the Jacobian of a generalized force only together with the force: for EVERY base the constrained-rod factory can choose, h_u / h_q imply h (System collects them independently)", 3)
    force_codefinition(ctx)
    rep.rule("C11.R11", "one decider for 'which element contains xi': the rod's element lookup delegates to the knot vector the mesh evaluates the shape functions with", 1)
    element_lookup_rule(ctx)
    rep.rule("C11.R10", "a stated derivative has the same number of cross-section-basis factors per monomial as its primal (K10 multiplicities; the R12 basis is not orthogonal)", 4)
    basis_degree_rule(ctx)
    rep.rule("C11.R8", "dependence monotonicity (K13) over every primal/derivative pair of K5: a stated derivative reads no datum its primal does not read", 20)
    from .. import depmono as _dm
    _dm.check_k5_pairs(ctx, "C11.R8", ['CosseratRod'])
    rep.rule("C11.R1", "chain-rule coverage of rod derivatives (K5) and material tangents", 20)
    rep.rule("C11.R2", "_deval reproduces _eval's primal outputs", 8)
    rep.rule("C11.R3", "normalising quaternion kernels / non-normalising kinematic equation", 20)
    rep.rule("C11.R4", "q_dot / q_dot_u kernel agreement", 2)
    rep.rule("C11.R5", "mass matrix, kinetic energy and gyroscopic forces integrate the same data", 3)
    rep.rule("C11.R9", "internally constrained rods: the constraint index list is sorted, because g lists its rows in list order while W_g / Wla_g_q put the gamma constraints first", 1)
    constraint_order(ctx)
    rep.rule("C11.R7", "element loops: every element routine and every element index table inside `for el in range(self.nelement)` is evaluated for THAT element", 25)
    element_index_agreement(ctx)
    rep.rule("C11.R6", "rod routines never modify the (memoised) output of the interpolation kernels in place: a reported derivative is the same on every call", 30)
    from . import c26
    c26.r3_poison(ctx, c26.find_sites(ctx), rule="C11.R6", want_file=lambda rel: rel.startswith("cardillo/rods/"), floor=30)
    model = ctx.model
    ci = model.cls("CosseratRod")
    seen = set()
    for v in model.variants(ci):
        k5 = deriv.K5(ctx, ci, v)
        for (p, d, dep) in deriv.pairs_of(k5):
            if dep == "t":
                continue
            c, fn = k5.view.method(k5.resolve_alias(d))
            key = (c.qual if c else None, d, dep)
            if key in seen or c is None:
                continue
            seen.add(key)
            k5.ci = c  # report under the defining class
            k5.check_pair(rep, "C11.R1", p, d, dep, c.rel)
            k5.ci = ci
    # element Jacobians must go through _deval
    for cname, methods in (("CosseratRodDisplacementBased", ["f_int_el_qe"]), ("CosseratRodMixed", ["c_el_qe", "Wla_c_el_qe"]),
                           ("CosseratRodConstrained", ["g_q_el", "Wla_g_q_el"])):
        c = model.cls(cname)
        for m in methods:
            fn = c.methods.get(m)
            if fn is None:
                raise AnalysisError(f"{cname}.{m} vanished")
            C = f"{c.rel}:{c.qual}.{m}"
            calls = {n.func.attr for n in ast.walk(fn) if isinstance(n, ast.Call) and isinstance(n.func, ast.Attribute) and dotted(n.func.value) == "self"}
            if "_deval" in calls or any(isinstance(n, ast.Call) and (dotted(n.func) or "").endswith("approx_fprime") for n in ast.walk(fn)):
                rep.ok("C11.R1", C, "evaluates self._deval(...) (strains together with their qe-derivatives)")
            else:
                rep.bad("C11.R1", C, fn.name, "the element Jacobian never evaluates the derivative kernel _deval", f"{c.rel}:{fn.lineno}")
    fi = model.cls("CosseratRodDisplacementBased").methods["f_int_el_qe"]
    mats = {n.func.attr for n in ast.walk(fi) if isinstance(n, ast.Call) and isinstance(n.func, ast.Attribute) and dotted(n.func.value) == "self.material_model"}
    C = f"{RB}:CosseratRodDisplacementBased.f_int_el_qe"
    need = {"B_n", "B_m", "B_n_B_Gamma", "B_n_B_Kappa", "B_m_B_Gamma", "B_m_B_Kappa"}
    if need <= mats:
        rep.ok("C11.R1", C, f"material model: {sorted(need)}")
    else:
        rep.bad("C11.R1", C, f"material tangents {sorted(need - mats)}", f"the internal-force Jacobian never evaluates {sorted(need - mats)}: a coupling block of the tangent is missing",
                f"{RB}:{fi.lineno}")
    # every tangent that is evaluated is also used
    for t in ("B_n_B_Gamma", "B_n_B_Kappa", "B_m_B_Gamma", "B_m_B_Kappa"):
        uses = [n for n in ast.walk(fi) if isinstance(n, ast.Name) and n.id == t and isinstance(n.ctx, ast.Load)]
        if uses:
            par = getattr(uses[0], "_parent", None)
            want = "B_Gamma_qe" if t.endswith("Gamma") else "B_Kappa_qe"
            if isinstance(par, ast.BinOp) and isinstance(par.op, ast.MatMult) and norm_src(par.right) == want:
                rep.ok("C11.R1", C, f"{t} @ {want}")
            else:
                rep.bad("C11.R1", C, par if par is not None else t, f"tangent {t} must multiply {want}", f"{RB}:{uses[0].lineno}")
        elif t in mats:
            rep.bad("C11.R1", C, t, f"tangent {t} is evaluated but never used", f"{RB}:{fi.lineno}")
    # ---- R2
    for q in ("make_CosseratRod_Quat.CosseratRod_Quat", "make_CosseratRod_SE3.CosseratRod_SE3", "make_CosseratRod_R12.CosseratRod_R12"):
        ev, dv = ctx.repo.get(CR, q + "._eval"), ctx.repo.get(CR, q + "._deval")
        r1 = [n for n in ast.walk(ev) if isinstance(n, ast.Return)][-1]
        r2 = [n for n in ast.walk(dv) if isinstance(n, ast.Return)][-1]
        outs1 = [norm_src(e) for e in r1.value.elts]
        outs2 = [norm_src(e) for e in r2.value.elts]
        C = f"{CR}:{q}._deval"
        if outs1 != outs2[:4]:
            rep.bad("C11.R2", C, r2, f"_deval's first four outputs {outs2[:4]} are not _eval's outputs {outs1}", f"{CR}:{r2.lineno}")
            continue
        # slice containment: everything that influences a primal output in _eval (data and control) also influences it in _deval
        from ..cfg import CFG as _CFG
        from ..dataflow import ReachingDefs as _RD
        sl = {}
        for tag, f_, r_ in (("eval", ev, r1), ("deval", dv, r2)):
            cfg_ = _CFG(f_)
            rd_ = _RD(cfg_)
            node_ = cfg_.node_of(r_)
            for name in outs1:
                nodes_, _ = rd_.backward_slice(node_, names={name}, control=True)
                # only the CONDITIONS under which the output is computed are compared as text (the data flow is compared by the inlined
                # expressions below; statement texts differ legitimately between the two kernels)
                sl[(tag, name)] = {norm_src(n_.ast) for n_ in nodes_ if n_.ast is not None and n_ is not node_ and n_.kind == "test"}
        for name in outs1:
            only_eval = sorted(sl[("eval", name)] - sl[("deval", name)])
            if only_eval:
                rep.bad("C11.R2", C, f"slice of {name}: {only_eval[0][:100]}", f"in _eval `{name}` is computed under the condition `{only_eval[0][:100]}`" + (f" (and {len(only_eval) - 1} more)" if len(only_eval) > 1 else "")
                        + ", which _deval does not test: the two kernels take different branches, so the derivatives _deval reports are not those of what _eval evaluates",
                        f"{CR}:{dv.lineno}")
            else:
                rep.ok("C11.R2", C, f"{name}: every condition it is computed under in _eval ({len(sl[('eval', name)])}) is tested in _deval too")
        env1, env2 = _single_assign_env(ev), _single_assign_env(dv)
        for name in outs1:
            if name in env1 and name in env2:
                a, b = _inline(env1[name], env1), _inline(env2[name], env2)
                if a == b:
                    rep.ok("C11.R2", C, f"{name}: same expression as in _eval")
                else:
                    rep.bad("C11.R2", C, f"{name} = {norm_src(env2[name])[:100]}", f"`{name}` is computed differently in _deval than in _eval: the reported derivatives are "
                            f"not those of the function that is evaluated. _eval: `{a[:120]}` _deval: `{b[:120]}`", f"{CR}:{env2[name].lineno}")
            else:
                # accumulated in loops: compare the set of statements that update it
                s1 = sorted(norm_src(n) for n in ast.walk(ev) if isinstance(n, (ast.AugAssign, ast.Assign)) and any(isinstance(x, ast.Name) and x.id == name for t in (n.targets if isinstance(n, ast.Assign) else [n.target]) for x in ast.walk(t)))
                s2 = sorted(norm_src(n) for n in ast.walk(dv) if isinstance(n, (ast.AugAssign, ast.Assign)) and any(isinstance(x, ast.Name) and x.id == name for t in (n.targets if isinstance(n, ast.Assign) else [n.target]) for x in ast.walk(t)))
                s1i = sorted(_norm_updates(ev, name))
                s2i = sorted(_norm_updates(dv, name))
                if s1i == s2i:
                    rep.ok("C11.R2", C, f"{name}: same update statements as in _eval")
                else:
                    rep.bad("C11.R2", C, f"updates of {name}", f"`{name}` is accumulated differently in _deval ({s2i}) than in _eval ({s1i})", f"{CR}:{dv.lineno}")
    # ---- R3
    normalising_rule(ctx, "C11.R3", lambda rel: rel.startswith("cardillo/rods/") or rel == "cardillo/discrete/rigid_body.py", 20)
    # ---- R4
    pg = model.cls("CosseratRod_PetrovGalerkin")
    qd, qdu = pg.methods.get("q_dot"), pg.methods.get("q_dot_u")
    if qd is None or qdu is None:
        raise AnalysisError("rod q_dot / q_dot_u vanished")

    def kernel(fn):
        calls = [n for n in ast.walk(fn) if isinstance(n, ast.Call) and isinstance(n.func, ast.Name) and n.func.id == "T_SO3_inv_quat"]
        if not calls:
            return None, None
        c = calls[0]
        # reaching definitions of the argument (multi-assignment aware, in statement order)
        arg = c.args[0]
        hist = []
        if isinstance(arg, ast.Name):
            for n in ast.walk(fn):
                if isinstance(n, ast.Assign) and any(isinstance(t, ast.Name) and t.id == arg.id for t in n.targets) and n.lineno < c.lineno:
                    hist.append(norm_src(n.value))
        return norm_src(c), hist
    k1, h1 = kernel(qd)
    k2, h2 = kernel(qdu)
    C = f"{RB}:CosseratRod_PetrovGalerkin.q_dot_u"
    if k1 is None or k2 is None:
        rep.bad("C11.R4", C, "T_SO3_inv_quat(...)", "q_dot / q_dot_u no longer use the inverse tangent map", f"{RB}:{qdu.lineno}")
    elif (k1, h1) == (k2, h2):
        rep.ok("C11.R4", C, f"both use {k1} with p defined by {h1}")
    else:
        rep.bad("C11.R4", C, f"p: {h2} ; {k2}", f"q_dot multiplies u with `{k1}` where p = {h1}, but q_dot_u stores `{k2}` where p = {h2}: for non-unit nodal quaternions "
                f"q_dot_u is not the u-derivative of q_dot", f"{RB}:{qdu.lineno}")
    # u in q_dot is multiplied by the kernel
    mm = [n for n in ast.walk(qd) if isinstance(n, ast.BinOp) and isinstance(n.op, ast.MatMult) and isinstance(n.left, ast.Call) and dotted(n.left.func) == "T_SO3_inv_quat"]
    if mm and norm_src(mm[0].right) == "B_omega_IB":
        rep.ok("C11.R4", f"{RB}:CosseratRod_PetrovGalerkin.q_dot", norm_src(mm[0]))
    else:
        rep.bad("C11.R4", f"{RB}:CosseratRod_PetrovGalerkin.q_dot", mm[0] if mm else "T_SO3_inv_quat(p) @ B_omega_IB", "quaternion rate is not kernel @ angular velocity", f"{RB}:{qd.lineno}")
    # ---- R5
    def reads(fn):
        return {dotted(n) for n in ast.walk(fn) if isinstance(n, ast.Attribute) and (dotted(n) or "").startswith("self.") and isinstance(n.ctx, ast.Load)
                and not isinstance(getattr(n, "_parent", None), ast.Attribute)}
    M, E, G = pg.methods.get("M_el"), pg.methods.get("E_kin_el"), pg.methods.get("f_gyr_el")
    core = {"self.cross_section_inertias.A_rho0", "self.cross_section_inertias.B_I_rho0", "self.J_dyn", "self.qw_dyn", "self.N_r_dyn", "self.N_p_dyn", "self.nquadrature_dyn"}
    rm, re_, rg = reads(M), reads(E), reads(G)
    for name, r, need in (("M_el", rm, core), ("E_kin_el", re_, core), ("f_gyr_el", rg, core - {"self.cross_section_inertias.A_rho0", "self.N_r_dyn"})):
        C = f"{RB}:CosseratRod_PetrovGalerkin.{name}"
        miss = sorted(need - r)
        alien = sorted(x for x in r if x in ("self.J", "self.qw", "self.N_r", "self.N_p", "self.nquadrature"))
        if miss or alien:
            rep.bad("C11.R5", C, f"reads {sorted(r & (core | set(alien)))}", f"{name} does not integrate the inertia terms with the dynamic quadrature data "
                    f"(missing {miss}, foreign {alien}): kinetic energy and mass matrix no longer match", f"{RB}:{pg.methods[name].lineno}")
        else:
            rep.ok("C11.R5", C, f"integrates {sorted(need)}")


def _norm_updates(fn, name):
    out = []
    env = _single_assign_env(fn)
    for n in ast.walk(fn):
        if isinstance(n, ast.AugAssign) and isinstance(n.target, ast.Name) and n.target.id == name:
            out.append(type(n.op).__name__ + " " + _inline(n.value, {k: v for k, v in env.items() if k != name}))
        if isinstance(n, ast.Assign) and any(isinstance(t, ast.Name) and t.id == name for t in n.targets):
            out.append("= " + _inline(n.value, {k: v for k, v in env.items() if k != name}))
    return out


MUTANTS = [
    dict(id="c11-m1", canary=True, what="rod q_dot_u normalises the quaternion (original defect)", file=RB,
         old="            p = q[nodalDOF_p]\n            coo[nodalDOF_p, nodalDOF_p_u] = T_SO3_inv_quat(p, normalize=False)",
         new="            p = q[nodalDOF_p]\n            p = p / norm(p)\n            coo[nodalDOF_p, nodalDOF_p_u] = T_SO3_inv_quat(p, normalize=False)", expect="C11.R4"),
    dict(id="c11-m2", canary=True, what="Quaternion _deval builds A_IB without normalisation while _eval normalises", file=CR,
         old="            # transformation matrix\n            A_IB = Exp_SO3_quat(p, normalize=True)\n\n            # derivative w.r.t. generalized coordinates",
         new="            # transformation matrix\n            A_IB = Exp_SO3_quat(p, normalize=False)\n\n            # derivative w.r.t. generalized coordinates", expect=["C11.R2", "C11.R3"]),
    dict(id="c11-m3", what="f_int_el_qe drops the bending-shear coupling tangent", file=RB,
         old="            B_n_qe = B_n_B_Gamma @ B_Gamma_qe + B_n_B_Kappa @ B_Kappa_qe", new="            B_n_qe = B_n_B_Gamma @ B_Gamma_qe", expect="C11.R1"),
    dict(id="c11-m4", what="kinetic energy integrated with the static quadrature weights", file=RB,
         old="        E_kin_el = 0.0\n\n        for i in range(self.nquadrature_dyn):\n            # extract reference state variables\n            qwi = self.qw_dyn[el, i]",
         new="        E_kin_el = 0.0\n\n        for i in range(self.nquadrature_dyn):\n            # extract reference state variables\n            qwi = self.qw[el, i]", expect="C11.R5"),
    dict(id="c11-m5", what="R12 _eval interpolates rotations without normalising the nodal quaternion", file=CR,
         old="                A_IB_node = Exp_SO3_quat(qe[self.nodalDOF_element_p[node]])", new="                A_IB_node = Exp_SO3_quat(qe[self.nodalDOF_element_p[node]], normalize=False)", expect=["C11.R3", "C11.R2"]),
    dict(id="c11-m6", what="Quaternion _deval differentiates the curvature of the un-normalised tangent map", file=CR,
         old="            T = T_SO3_quat(p, normalize=True)\n            B_Kappa_bar = T @ p_xi", new="            T = T_SO3_quat(p, normalize=False)\n            B_Kappa_bar = T @ p_xi", expect=["C11.R2", "C11.R3"]),
    dict(id="c11-m7", what="c_el_qe computed from _eval only (no derivative kernel)", file=RB,
         old="            ) = self._deval(qe, qpi, N=self.N_r[el, i], N_xi=self.N_r_xi[el, i])\n\n            B_Gamma_qe = B_Gamma_bar_qe / Ji",
         new="            ) = (*self._eval(qe, qpi, N=self.N_r[el, i], N_xi=self.N_r_xi[el, i]), 0, 0, 0, 0)\n\n            B_Gamma_qe = B_Gamma_bar_qe / Ji", expect="C11.R1", optional=True),
    dict(id="c11-m8", what="rod q_dot uses the normalising inverse tangent map", file=RB,
         old="            q_dot[nodalDOF_p] = T_SO3_inv_quat(p, normalize=False) @ B_omega_IB", new="            q_dot[nodalDOF_p] = T_SO3_inv_quat(p, normalize=True) @ B_omega_IB", expect=["C11.R3", "C11.R4"]),
]
MUTANTS = [m for m in MUTANTS if not m.get("optional")]
RODB_ = "cardillo/rods/_base.py"
MUTANTS += [
    dict(id="c11-r6-seed", canary=True, what="[seeded by sub-agent] rod r_OP_q adds the offset term in place to the memoised centerline Jacobian", file=RODB_,
         old="        return r_OC_q + np.einsum(\"ijk,j->ik\", A_IB_q, B_r_CP)\n\n    def v_P(", new="        r_OC_q += np.einsum(\"ijk,j->ik\", A_IB_q, B_r_CP)\n        return r_OC_q\n\n    def v_P(", expect="C11.R6"),
]
MUTANTS += [
    dict(id="c11-r7-seed", canary=True, what="[seeded by sub-agent] _M_coo integrates the element mass matrix once (element 0) and scatters it into all elements", file=RODB_,
         old="        for el in range(self.nelement):\n            # extract element degrees of freedom\n            elDOF_u = self.elDOF_u[el]\n\n            # sparse assemble element mass matrix\n            self.__M[elDOF_u, elDOF_u] = self.M_el(el)",
         new="        M_el = self.M_el(0)\n        for el in range(self.nelement):\n            # extract element degrees of freedom\n            elDOF_u = self.elDOF_u[el]\n\n            # sparse assemble element mass matrix\n            self.__M[elDOF_u, elDOF_u] = M_el", expect="C11.R7"),
    dict(id="c11-r7-2", what="rod h scatters the internal forces of the previous element", file=RODB_,
         old="            h[elDOF_u] += self.f_int_el(q[elDOF], el) - self.f_gyr_el(", new="            h[elDOF_u] += self.f_int_el(q[elDOF], el - 1) - self.f_gyr_el(", expect="C11.R7"),
]
MUTANTS += [
    dict(id="c11-r9-orig", canary=True, what="constrained rod keeps the caller's order of the constraint indices (original defect)", file=RODB_,
         old="    idx_constraints = np.unique(constraints)\n", new="    idx_constraints = np.array(constraints)\n", expect="C11.R9"),
]
MUTANTS += [
    dict(id="c11-r2-seed", canary=True, what="[seeded by sub-agent] Quaternion _eval flips nodal quaternions onto the hemisphere of the first node, _deval does not", file=CR,
         old='            p_xi = np.zeros(4, dtype=float)\n            for node in range(self.nnodes_element_r):\n                r_OP_node = qe[self.nodalDOF_element_r[node]]\n                r_OP += N[node] * r_OP_node\n                r_OP_xi += N_xi[node] * r_OP_node\n\n                p_node = qe[self.nodalDOF_element_p[node]]\n                p += N[node] * p_node\n                p_xi += N_xi[node] * p_node\n\n            # transformation matrix\n            A_IB = Exp_SO3_quat(p, normalize=True)\n\n            # dilatation and shear strains\n            B_Gamma_bar = A_IB.T @ r_OP_xi\n\n            # curvature, Rucker2018 (17)\n            B_Kappa_bar = T_SO3_quat(p, normalize=True) @ p_xi\n\n            return r_OP, A_IB, B_Gamma_bar, B_Kappa_bar\n',
         new='            p_xi = np.zeros(4, dtype=float)\n            for node in range(self.nnodes_element_r):\n                r_OP_node = qe[self.nodalDOF_element_r[node]]\n                r_OP += N[node] * r_OP_node\n                r_OP_xi += N_xi[node] * r_OP_node\n\n                p_node = qe[self.nodalDOF_element_p[node]]\n                if p_node @ qe[self.nodalDOF_element_p[0]] < 0:\n                    p_node = -p_node\n                p += N[node] * p_node\n                p_xi += N_xi[node] * p_node\n\n            # transformation matrix\n            A_IB = Exp_SO3_quat(p, normalize=True)\n\n            # dilatation and shear strains\n            B_Gamma_bar = A_IB.T @ r_OP_xi\n\n            # curvature, Rucker2018 (17)\n            B_Kappa_bar = T_SO3_quat(p, normalize=True) @ p_xi\n\n            return r_OP, A_IB, B_Gamma_bar, B_Kappa_bar\n', expect="C11.R2"),
]
NEUTRAL = [
    dict(id="c11-n-r7", what="rod _M_coo: loop variable renamed", file=RODB_,
         old="        for el in range(self.nelement):\n            # extract element degrees of freedom\n            elDOF_u = self.elDOF_u[el]\n\n            # sparse assemble element mass matrix\n            self.__M[elDOF_u, elDOF_u] = self.M_el(el)",
         new="        for e in range(self.nelement):\n            elDOF_u = self.elDOF_u[e]\n            self.__M[elDOF_u, elDOF_u] = self.M_el(e)"),
    dict(id="c11-n-r6", what="rod r_OP_q accumulates into a private copy", file=RODB_,
         old="        return r_OC_q + np.einsum(\"ijk,j->ik\", A_IB_q, B_r_CP)\n\n    def v_P(", new="        r_OP_q = r_OC_q.copy()\n        r_OP_q += np.einsum(\"ijk,j->ik\", A_IB_q, B_r_CP)\n        return r_OP_q\n\n    def v_P("),
]
MUTANTS += [
    dict(id="c11-r10-seed", canary=True, what="[seeded by sub-agent] rod v_P written as v_C + (A Omega) x (A r)", file="cardillo/rods/_base.py",
         old="        return v_C + A_IB @ cross3(B_Omega, B_r_CP)\n", new="        return v_C + cross3(A_IB @ B_Omega, A_IB @ B_r_CP)\n", expect="C11.R10"),
]
MUTANTS += [
    dict(id="c11-r11-seed", canary=True, what="[seeded by sub-agent] rod element lookup computed as int(xi * nelement)", file="cardillo/rods/_base.py",
         old="        return self.knot_vector_r.element_number(xi)[0]\n", new="        xi = np.atleast_1d(xi)[0]\n        return min(int(xi * self.nelement), self.nelement - 1)\n", expect="C11.R11"),
]

MUTANTS += [
    dict(id="c11-r12-f55", canary=True, what="fix F55 reverted: CosseratRod_PetrovGalerkin (the base of the fully constrained rod) defines h_u but no h", file='cardillo/rods/_base.py',
         old='    def h(self, t, q, u):\n        h = np.zeros(self.nu, dtype=np.common_type(q, u))\n        for el in range(self.nelement):\n            elDOF = self.elDOF[el]\n            elDOF_u = self.elDOF_u[el]\n            h[elDOF_u] -= self.f_gyr_el(t, q[elDOF], u[elDOF_u], el)\n        return h\n\n    def h_u(self, t, q, u):\n        coo = CooMatrix((self.nu, self.nu))\n', new="    def h_u(self, t, q, u):\n        coo = CooMatrix((self.nu, self.nu))\n", expect="C11.R12"),
]
