"""C22  Nonlinear and fixed-point helpers honour their convergence contract.

Structural clauses decided:
 R1 tolerance influence   every tolerance the helper is given lies in the backward (data + control) slice of its
                          success return (a dead store on the way is a violation)
 R2 freshness             the iterate a helper returns on success is the argument or the result of the last
                          evaluation whose error was tested (no stale iterate)
 R3 failure paths         fixed-point helpers cannot reach their normal exit with the convergence flag false;
                          fsolve reaches it only after warn(...) and returns the flag as `success`
 R4 difference pairing    in approx_fprime every method branch forms df and dx from the same two points in the
                          same order
"""
from __future__ import annotations

import ast

from ..core import AnalysisError, dotted, enclosing, norm_src, walk_no_nested
from ..cfg import CFG, control_deps
from ..dataflow import ReachingDefs
from ..flagwalk import FlagWalk, loud_default, F, U, T

EXPLANATION = ("Reaching definitions + control dependence over the CFGs of fsolve, fixed_point_iteration and "
               "fixed_point_iteration_with_momentum: backward slices of the success returns must contain every tolerance; "
               "the returned iterate must be the tested one; a flag-tracking path walker proves that non-convergence "
               "cannot reach the normal exit silently; structural pairing of df/dx in approx_fprime.")
NOT_DECIDED = "accuracy of the finite differences; that the criterion holds numerically at the returned point (value facts)."
ASSUMPTIONS = ["the helper's first parameter (`fun`) is the map being iterated / solved"]
BLIND_SPOTS = ["a tolerance used with the wrong power or sign", "wrong norm"]

FS = "cardillo/math/fsolve.py"
DSV = "cardillo/solver/dual_stormer_verlet.py"
AF = "cardillo/math/approx_fprime.py"

HELPERS = [
    # (file, function, tolerance sources, kind)
    (FS, "fsolve", ["options.newton_atol", "options.newton_rtol"], "warns"),
    (DSV, "fixed_point_iteration", ["atol", "rtol"], "raises"),
    (DSV, "fixed_point_iteration_with_momentum", ["atol", "rtol"], "raises"),
]


def _returns(cfg):
    return [n for n in cfg.nodes if n.kind == "stmt" and isinstance(n.ast, ast.Return) and n.ast.value is not None]


def _returned_iterate(ret: ast.Return):
    v = ret.value
    if isinstance(v, ast.Tuple) and v.elts:
        return v.elts[0]
    if isinstance(v, ast.Call):
        for k in v.keywords:
            if k.arg == "x":
                return k.value
        if v.args:
            return v.args[0]
    return v


def relative_scale_fresh(ctx):
    """The fixed-point helpers promise points that meet the absolute / RELATIVE tolerance they were given: relative to the returned point.  The
    scale `atol + rtol |x|` that divides the tested step therefore has to be computed from the iterates of the tested step (inside the loop,
    from the evaluation whose result is returned).  A scale frozen at the initial guess accepts a step of size rtol |x0|: from a guess 1e4
    times larger than the fixed point the returned point misses the tolerance by that factor (and from a guess near zero only atol is left)."""
    rep = ctx.rep
    for rel, fname, tols, kind in HELPERS:
        if kind != "raises":
            continue
        fn = ctx.repo.get(rel, fname)
        C = f"{rel}:{fname}"
        cfg = CFG(fn)
        rd = ReachingDefs(cfg)
        loops = [w for w in ast.walk(fn) if isinstance(w, (ast.For, ast.While))]
        if not loops:
            raise AnalysisError(f"{C}: iteration loop vanished")
        loop = loops[0]
        inloop = {id(x) for x in ast.walk(loop)}
        rets = _returns(cfg)
        p0 = fn.args.args[0].arg
        # evaluations of the map inside the loop: v = fun(...)
        evals = [n for n in cfg.nodes if n.kind == "stmt" and isinstance(n.ast, ast.Assign) and id(n.ast) in inloop
                 and any(isinstance(c, ast.Call) and isinstance(c.func, ast.Name) and c.func.id == p0 for c in ast.walk(n.ast.value))]
        if not evals:
            raise AnalysisError(f"{C}: no evaluation of the map inside the loop")
        tests = [n for n in cfg.nodes if n.kind == "test" and id(n.ast) in inloop and any(isinstance(w, ast.Name) and w.id.startswith("error") for w in ast.walk(n.ast))]
        if not tests:
            raise AnalysisError(f"{C}: convergence test on `error` not found")
        ok_all = True
        for t in tests[:1]:
            nodes, params = rd.backward_slice(t)
            # definitions feeding the test that mention rtol
            rt = [n for n in nodes if n.kind == "stmt" and n.ast is not None and any(isinstance(w, ast.Name) and w.id == "rtol" for w in ast.walk(n.ast))]
            for n in rt:
                fresh = id(n.ast) in inloop and any(e in rd.backward_slice(n)[0] for e in evals)
                if fresh:
                    rep.ok("C22.R6", C, f"`{norm_src(n.ast)[:70]}`: the relative tolerance is scaled by the iterates of the tested step")
                else:
                    ok_all = False
                    rep.bad("C22.R6", C, n.ast, f"`{norm_src(n.ast)[:80]}` scales the relative tolerance by a quantity that is not the iterate of the tested step "
                            "(it is computed outside the loop / not from the map's evaluation): a step is accepted when it is small relative to that frozen value, so from an initial "
                            "guess much larger than the fixed point the helper returns, without raising, a point that misses the tolerance it was given by the same factor",
                            f"{rel}:{n.lineno}")
            if not rt:
                rep.bad("C22.R6", C, t.ast, "the convergence test is not fed by any scale that involves rtol", f"{rel}:{t.lineno}")


def componentwise_scale(ctx, rule="C22.R8"):
    """'its scaled residual criterion holds at the returned point': the criterion is ||f / scale|| / sqrt(n) < 1 with scale_i = atol + rtol |f0_i|.
    A measure in which `scale` enters only through a scalar reduction (||f|| / ||scale||) agrees with it when all scale entries are equal and
    lets the largest entry decide otherwise: a soft equation next to a stiff one is accepted 1e4 times above its tolerance, with success=True."""
    rep = ctx.rep
    fn = ctx.repo.get(FS, "fsolve")
    C = f"{FS}:fsolve"
    binds = {}
    for w in ast.walk(fn):
        if isinstance(w, ast.Assign) and len(w.targets) == 1 and isinstance(w.targets[0], ast.Name):
            binds.setdefault(w.targets[0].id, []).append(w.value)
    REDUCE = {"norm", "max", "amax", "sum", "mean", "min", "amin", "sqrt"}

    def reduced_only(e, seen=None):
        """does `scale` reach e only through a scalar reduction that does not also contain the residual?"""
        seen = seen or set()
        hits = []
        par = {}
        for p_ in ast.walk(e):
            for c_ in ast.iter_child_nodes(p_):
                par[id(c_)] = p_
        for x in ast.walk(e):
            if isinstance(x, ast.Name) and x.id == "scale":
                up, inside = par.get(id(x)), None
                while up is not None:
                    if isinstance(up, ast.Call) and (dotted(up.func) or "").split(".")[-1] in REDUCE:
                        inside = up
                        break
                    up = par.get(id(up))
                has_f = inside is not None and any(isinstance(y, ast.Name) and y.id == "f" for y in ast.walk(inside))
                hits.append(inside is not None and not has_f)
            elif isinstance(x, ast.Name) and x.id in binds and x.id not in seen and x.id not in ("f", "scale", "x"):
                seen.add(x.id)
                for v in binds[x.id]:
                    hits += reduced_only(v, seen)
        return hits
    n = 0
    for st in [w for w in ast.walk(fn) if isinstance(w, ast.Assign) and len(w.targets) == 1 and isinstance(w.targets[0], ast.Name) and w.targets[0].id == "error"]:
        n += 1
        hits = reduced_only(st.value)
        if not hits:
            rep.bad(rule, C, st, f"`{norm_src(st)[:70]}` does not involve the tolerance scale at all", f"{FS}:{st.lineno}")
        elif all(hits):
            rep.bad(rule, C, st, f"`{norm_src(st)[:70]}`: the tolerance scale enters the error measure only through a scalar reduction, not component-wise: the equation with the largest "
                    "scale entry decides for all, and a point at which a softly scaled equation misses its own tolerance by orders of magnitude is returned with success=True and no warning",
                    f"{FS}:{st.lineno}")
        else:
            rep.ok(rule, C, f"`{norm_src(st)[:60]}`: residual divided by the scale entry by entry")
    if n < 2:
        raise AnalysisError(f"{rule}: fewer than 2 assignments to `error` in fsolve")


def warnings_audible(ctx, rule, scope, floor_calls=1):
    """A warning is only as good as the filter state it is issued under.  In the modules of `scope`: (a) no `warn(...)` call lies inside a
    `with catch_warnings():` block that installs an "ignore" filter (simplefilter / filterwarnings); (b) no "ignore" filter is installed
    outside such a block (it would stay in force for the rest of the process).  Suppressing a third party's noise is fine as long as the block
    ends before cardillo's own warning is raised."""
    rep = ctx.rep
    n = 0
    for rel, mod in sorted(ctx.repo.modules.items()):
        if not any(rel == s_ or (s_.endswith("/") and rel.startswith(s_)) for s_ in scope):
            continue
        par = {}
        for p_ in ast.walk(mod.tree):
            for c_ in ast.iter_child_nodes(p_):
                par[id(c_)] = p_

        def ignoring(withnode):
            if not any(isinstance(it.context_expr, ast.Call) and (dotted(it.context_expr.func) or "").split(".")[-1] == "catch_warnings" for it in withnode.items):
                return None
            for w in ast.walk(withnode):
                if isinstance(w, ast.Call) and (dotted(w.func) or "").split(".")[-1] in ("simplefilter", "filterwarnings") and w.args \
                        and isinstance(w.args[0], ast.Constant) and w.args[0].value == "ignore":
                    return w
            return None
        for w in ast.walk(mod.tree):
            if not isinstance(w, ast.Call):
                continue
            nm = (dotted(w.func) or "").split(".")[-1]
            if nm == "warn":
                n += 1
                up, hit = par.get(id(w)), None
                fn_ = None
                while up is not None:
                    if isinstance(up, ast.With) and hit is None:
                        hit = ignoring(up)
                    if isinstance(up, ast.FunctionDef) and fn_ is None:
                        fn_ = up.name
                    up = par.get(id(up))
                C = f"{rel}:{fn_ or '<module>'}"
                if hit is not None:
                    rep.bad(rule, C, w, f"`{norm_src(w)[:70]}` is issued inside a `with catch_warnings()` block that installs `{norm_src(hit)}`: on the paths where that filter is active the "
                            "warning is swallowed and the failure is silent", f"{rel}:{w.lineno}")
                else:
                    rep.ok(rule, C, f"`{norm_src(w)[:60]}` is not under a suppressing filter")
            elif nm in ("simplefilter", "filterwarnings") and w.args and isinstance(w.args[0], ast.Constant) and w.args[0].value == "ignore":
                up, scoped = par.get(id(w)), False
                while up is not None:
                    if isinstance(up, ast.With) and any(isinstance(it.context_expr, ast.Call) and (dotted(it.context_expr.func) or "").split(".")[-1] == "catch_warnings" for it in up.items):
                        scoped = True
                    up = par.get(id(up))
                if not scoped:
                    rep.bad(rule, f"{rel}", w, f"`{norm_src(w)}` is installed outside a `catch_warnings()` block: it stays in force and silences every later warning of that category, "
                            "including the non-convergence warnings", f"{rel}:{w.lineno}")
    if n < floor_calls:
        raise AnalysisError(f"{rule}: only {n} warn(...) calls found in {scope}")


def run(ctx):
    rep = ctx.rep
    rep.rule("C22.R9", "the Jacobian approximation is a function of ITS arguments (point, method, step eps): no intermediate of approx_fprime / fsolve is remembered across calls (dictionary, attribute, closure or decorator memo) under a key that omits an argument it depends on - the step width above all", 0)
    from . import c26 as _c26
    _sc = lambda rel: rel in (FS, "cardillo/math/approx_fprime.py")
    _c26.dict_memos(ctx, "C22.R9", _sc)
    _c26.attribute_memos(ctx, "C22.R9", _sc)
    _c26.handmade_memo(ctx, "C22.R9", _sc)
    rep.rule("C22.R8", "fsolve's error measure divides the residual by the tolerance scale COMPONENT-WISE (f / scale under the norm): every equation is judged by its own atol + rtol |f0_i|, none by the scale of the worst-scaled one", 2)
    componentwise_scale(ctx)
    rep.rule("C22.R7", "the non-convergence warning of fsolve is audible: it is not issued under a warnings filter that the helper itself installed", 1)
    warnings_audible(ctx, "C22.R7", (FS, "cardillo/math/approx_fprime.py"))
    rep.rule("C22.R6", "fixed-point helpers scale the relative tolerance by the iterates of the tested step, not by a frozen value", 2)
    relative_scale_fresh(ctx)
    rep.rule("C22.R1", "tolerances influence the success return", 6)
    rep.rule("C22.R2", "returned iterate is the tested one", 3)
    rep.rule("C22.R3", "non-convergence cannot reach the normal exit silently", 3)
    rep.rule("C22.R4", "df/dx pairing per finite-difference method", 3)
    rep.rule("C22.R5", "iterate isolation: a map that updates its argument in place never receives the live iterate", 2)
    r5_isolation(ctx)
    for rel, fname, tols, kind in HELPERS:
        fn = ctx.repo.get(rel, fname)
        C = f"{rel}:{fname}"
        cfg = CFG(fn)
        rd = ReachingDefs(cfg)
        rets = _returns(cfg)
        if not rets:
            raise AnalysisError(f"{C}: no return statement")
        # ---- R1
        for tol in tols:
            for r in rets:
                nodes, params = rd.backward_slice(r, control=True)
                reads = rd.attr_reads_in(nodes)
                hit = (tol in params) if "." not in tol else (tol in reads)
                if hit:
                    rep.ok("C22.R1", C, f"`{tol}` is in the backward slice of `{norm_src(r.ast)}`")
                else:
                    # name the killing store if there is one
                    culprit = _killer(cfg, rd, tol)
                    rep.bad("C22.R1", C, culprit.ast if culprit is not None else r.ast,
                            f"tolerance `{tol}` never reaches the convergence test that guards `{norm_src(r.ast)}`"
                            + (f" (its only use is overwritten by this store)" if culprit is not None else ""),
                            f"{rel}:{(culprit or r).lineno}")
        # ---- R2
        evals = []
        p0 = fn.args.args[0].arg
        for n in cfg.nodes:
            if n.kind == "stmt" and isinstance(n.ast, ast.Assign) and len(n.ast.targets) == 1 and isinstance(n.ast.targets[0], ast.Name):
                for c in ast.walk(n.ast.value):
                    if isinstance(c, ast.Call) and isinstance(c.func, ast.Name) and c.func.id == p0 and c.args:
                        argn = {x.id for x in ast.walk(c.args[0]) if isinstance(x, ast.Name)}
                        evals.append((n, n.ast.targets[0].id, argn))
        if not evals:
            raise AnalysisError(f"{C}: no evaluation `v = {p0}(x)` found")
        ev_ids = {e[0].id for e in evals}
        for r in rets:
            it = _returned_iterate(r.ast)
            if not isinstance(it, ast.Name):
                rep.note(f"C22.R2: returned iterate of {fname} is not a plain name: {norm_src(it)}")
                continue
            R = it.id
            bad = None
            for (en, V, args) in evals:
                # paths from this evaluation to the return that do not pass another evaluation
                def blocked(n2, en=en):
                    return n2.id in ev_ids
                if not cfg.can_reach([s for s, _ in en.succ], r, blocked=blocked):
                    continue
                if R == V or R in args:
                    # no re-definition of R between the evaluation and the return
                    redef = [n2 for n2 in cfg.reachable_from([s for s, _ in en.succ], blocked=blocked)
                             if R in rd.du[n2.id][0] and cfg.can_reach([n2], r, blocked=blocked) and n2 is not r]
                    if redef:
                        bad = (en, f"`{R}` is re-defined by `{norm_src(redef[0].ast)}` after the tested evaluation")
                    continue
                # R must be (re)defined from V/args on every such path
                def blocked2(n2, en=en):
                    if n2.id in ev_ids:
                        return True
                    s, w, u = rd.du[n2.id]
                    return R in s and (V in u or (args & u))
                if cfg.can_reach([s for s, _ in en.succ], r, blocked=blocked2):
                    bad = (en, f"returns `{R}`, which is neither the argument {sorted(args)} nor the result `{V}` of the last tested "
                               f"evaluation `{norm_src(en.ast)}` (a stale iterate that was never tested)")
            if bad:
                rep.bad("C22.R2", C, r.ast, bad[1], f"{rel}:{r.lineno}")
            else:
                rep.ok("C22.R2", C, f"`{norm_src(r.ast)}` returns the tested iterate")
        r3_failure_paths(ctx, "C22.R3", rel, fname, kind)
    r4_approx_fprime(ctx)


FP_HELPERS = ("fixed_point_iteration", "fixed_point_iteration_with_momentum")
FRESH_CALLS = ("copy", "array", "zeros_like", "concatenate", "asarray_chkfinite", "deepcopy")


def _views_and_mutations(fn):
    """statements of `fn` that write through its first parameter (directly or through slice views / tuple unpacking of views)."""
    if isinstance(fn, ast.Lambda) or not fn.args.args:
        return []
    views = {fn.args.args[0].arg}
    changed = True
    assigns = [n for n in walk_no_nested(fn) if isinstance(n, ast.Assign)]
    while changed:
        changed = False
        for a in assigns:
            vals = a.value.elts if isinstance(a.value, ast.Tuple) else [a.value]
            tgts = a.targets[0].elts if isinstance(a.targets[0], ast.Tuple) and isinstance(a.value, ast.Tuple) and len(a.targets) == 1 else None
            pairs = list(zip(tgts, vals)) if tgts and len(tgts) == len(vals) else [(t, a.value) for t in a.targets]
            for t, v in pairs:
                base = v
                while isinstance(base, ast.Subscript):
                    base = base.value
                is_view = isinstance(base, ast.Name) and base.id in views and (isinstance(v, ast.Name) or isinstance(v, ast.Subscript))
                if is_view and isinstance(t, ast.Name) and t.id not in views:
                    views.add(t.id)
                    changed = True
    muts = []
    # a view name that is re-bound to a fresh value before the write is no longer a view: flow-insensitive here, so a name
    # bound both to a view and to a fresh array is only counted when the write dominates no fresh rebinding (conservative:
    # require that every plain assignment of the name is a view assignment)
    fresh_bound = set()
    for a in assigns:
        for t in a.targets:
            for tt in (t.elts if isinstance(t, ast.Tuple) else [t]):
                if isinstance(tt, ast.Name) and tt.id in views:
                    vals = a.value
                    base = vals
                    while isinstance(base, ast.Subscript):
                        base = base.value
                    if isinstance(a.value, ast.Tuple):
                        continue
                    if not (isinstance(base, ast.Name) and base.id in views):
                        fresh_bound.add((tt.id, a.lineno))
    for n in walk_no_nested(fn):
        if isinstance(n, ast.AugAssign):
            t = n.target
            base = t
            while isinstance(base, ast.Subscript):
                base = base.value
            if isinstance(base, ast.Name) and base.id in views and not any(nm == base.id and ln < n.lineno for nm, ln in fresh_bound):
                muts.append(n)
        elif isinstance(n, ast.Assign):
            for t in n.targets:
                if isinstance(t, ast.Subscript):
                    base = t
                    while isinstance(base, ast.Subscript):
                        base = base.value
                    if isinstance(base, ast.Name) and base.id in views and not any(nm == base.id and ln < n.lineno for nm, ln in fresh_bound):
                        muts.append(n)
    return muts


def r3_failure_paths(ctx, rule, rel, fname, kind):
    """non-convergence cannot reach the normal exit silently (helper `fname`; kind 'raises' or 'warns')"""
    rep = ctx.rep
    fn = ctx.repo.get(rel, fname)
    C = f"{rel}:{fname}"
    cfg = CFG(fn)
    rd = ReachingDefs(cfg)
    rets = _returns(cfg)
    # ---- R3
    flag = "converged"
    has_flag = any(isinstance(n, ast.Name) and n.id == flag for n in ast.walk(fn))
    if kind == "raises":
        if has_flag:
            fw = FlagWalk(cfg, flag, loud_default, init=U)
            sil = fw.silent_exits()
            if sil:
                tr = fw.trace(sil[0])
                rep.bad(rule, C, tr[-2].ast if len(tr) > 1 and tr[-2].ast is not None else fname,
                        "the normal exit is reachable with the convergence flag false (must raise)", f"{rel}:{tr[-2].lineno if len(tr) > 1 else fn.lineno}")
            else:
                rep.ok(rule, C, "every normal exit has converged == True; exhaustion raises")
        else:
            # loop exhaustion must lead to raise: the loop's exit edge cannot reach the normal exit
            loops = [n for n in cfg.nodes if n.kind == "iter"]
            if not loops:
                raise AnalysisError(f"{C}: iteration loop not found")
            lp = loops[0]
            def certifies(a, lab):
                """edge of a test that can only be taken when the error measure is a number below the bound: `error < 1` taken as True,
                `not (error < 1)` taken as False.  The False edge of `error >= 1` does not certify: it is also taken when the error is NaN."""
                if a.kind != "test":
                    return False
                t, want = a.ast, True
                while isinstance(t, ast.UnaryOp) and isinstance(t.op, ast.Not):
                    t, want = t.operand, not want
                return isinstance(t, ast.Compare) and len(t.ops) == 1 and isinstance(t.ops[0], (ast.Lt, ast.LtE)) and lab == want
            if cfg.can_reach([(lp, "exit")], cfg.exit, edge_ok=lambda a, b, lab: not certifies(a, lab)):
                rep.bad(rule, C, lp.ast.iter, "after exhausting the iteration limit the helper can reach its normal exit without passing a test `error < bound` that holds "
                        "(a test of the form `error >= bound` lets a NaN error through): non-convergence / divergence is returned as success",
                        f"{rel}:{lp.lineno}")
            else:
                rep.ok(rule, C, "loop exhaustion leads to raise on every path")
            # the return inside the loop must be control dependent on a comparison test
            cd = control_deps(cfg)
            for r in rets:
                tests = [cfg.nodes[t] for t, lab in cd[r.id] if cfg.nodes[t].kind == "test" and any(isinstance(w, ast.Compare) for w in ast.walk(cfg.nodes[t].ast))]
                if tests:
                    rep.ok(rule, C, f"`{norm_src(r.ast)}` is guarded by `{norm_src(tests[0].ast)}`")
                else:
                    rep.bad(rule, C, r.ast, "success return is not guarded by an error test", f"{rel}:{r.lineno}")
    else:
        fw = FlagWalk(cfg, flag, loud_default, init=U)
        sil = fw.silent_exits()
        if sil:
            tr = fw.trace(sil[0])
            rep.bad(rule, C, tr[-2].ast if len(tr) > 1 and tr[-2].ast is not None else fname,
                    "fsolve can return with converged == False without having warned", f"{rel}:{tr[-2].lineno if len(tr) > 1 else fn.lineno}")
        else:
            rep.ok(rule, C, "every exit with converged possibly False passes warn(...)")
        for r in rets:
            kw = {k.arg: norm_src(k.value) for k in r.ast.value.keywords} if isinstance(r.ast.value, ast.Call) else {}
            if kw.get("success") == flag:
                # the flag returned is the last computed one: no other def of x/f after it
                rep.ok(rule, C, f"success={flag} is returned")
            else:
                rep.bad(rule, C, r.ast, f"the result does not report success={flag}", f"{rel}:{r.lineno}")


def r5_isolation(ctx, rule="C22.R5"):
    rep = ctx.rep
    mod = ctx.repo.module(DSV)
    # 1. the maps the library hands to each helper
    inplace = {h: [] for h in FP_HELPERS}
    sites = 0
    for rel, m in sorted(ctx.repo.modules.items()):
        for call in [n for n in ast.walk(m.tree) if isinstance(n, ast.Call) and (dotted(n.func) or "").split(".")[-1] in FP_HELPERS and n.args]:
            h = dotted(call.func).split(".")[-1]
            sites += 1
            a0 = call.args[0]
            encl = enclosing(call, (ast.FunctionDef,))
            target = None
            if isinstance(a0, ast.Lambda):
                target = a0
            elif isinstance(a0, ast.Name) and encl is not None:
                for n in ast.walk(encl):
                    if isinstance(n, ast.FunctionDef) and n.name == a0.id:
                        target = n
            if target is None:
                rep.note(f"{rule}: map passed at {rel}:{call.lineno} not resolved; treated as possibly in-place")
                inplace[h].append((rel, call.lineno, "unresolved map"))
                continue
            muts = _views_and_mutations(target)
            if muts:
                inplace[h].append((rel, call.lineno, norm_src(muts[0])))
    if sites < 3:
        raise AnalysisError(f"only {sites} call sites of the fixed-point helpers found (3 confirmed by hand)")
    # 2. the helpers
    for h in FP_HELPERS:
        fn = ctx.repo.get(DSV, h)
        C = f"{DSV}:{h}"
        fname = fn.args.args[0].arg
        calls = [n for n in ast.walk(fn) if isinstance(n, ast.Call) and isinstance(n.func, ast.Name) and n.func.id == fname]
        if not calls:
            raise AnalysisError(f"{C}: no evaluation of the map `{fname}` found")
        for c in calls:
            arg = c.args[0] if c.args else None
            fresh = isinstance(arg, ast.BinOp) or (isinstance(arg, ast.Call) and (dotted(arg.func) or getattr(arg.func, "attr", "")).split(".")[-1] in FRESH_CALLS)
            if fresh:
                rep.ok(rule, C, f"{norm_src(c)}: the map receives a fresh array")
                continue
            if not isinstance(arg, ast.Name):
                rep.note(f"{rule}: {C}: argument `{norm_src(arg)}` not classified")
                rep.ok(rule, C, f"{norm_src(c)}: argument not a plain iterate name", verdict="not decided", trivial=True)
                continue
            other_reads = [n for n in ast.walk(fn) if isinstance(n, ast.Name) and n.id == arg.id and isinstance(n.ctx, ast.Load) and n is not arg]
            if other_reads and inplace[h]:
                rel, ln, st = inplace[h][0]
                rep.bad(rule, C, c, f"the live iterate `{arg.id}` is handed to the map and read again afterwards (error estimate / next iterate), but the map passed at "
                        f"{rel}:{ln} updates its argument in place (`{st}`): the measured error compares the iterate with itself and the tolerance test is void",
                        f"{DSV}:{c.lineno}")
            elif other_reads:
                rep.ok(rule, C, f"{norm_src(c)}: live iterate passed, but no map handed to this helper writes through its argument")
            else:
                rep.ok(rule, C, f"{norm_src(c)}: `{arg.id}` is not read after the evaluation")
    if not any(inplace.values()):
        rep.note(f"{rule}: no in-place map found any more; the isolation requirement is vacuous")


def _killer(cfg, rd, tol):
    """A store that overwrites the only variable through which `tol` flows (dead-store diagnosis)."""
    if "." in tol:
        return None
    users = [n for n in cfg.nodes if tol in rd.du[n.id][2] and rd.du[n.id][0]]
    for u in users:
        for v in rd.du[u.id][0]:
            for n2 in cfg.nodes:
                if n2 is not u and v in rd.du[n2.id][0] and v not in rd.du[n2.id][2] and cfg.dominates(u, n2):
                    # u's definition of v is killed by n2 before any use?
                    used_between = [n3 for n3 in cfg.reachable_from([s for s, _ in u.succ], blocked=lambda x: x is n2)
                                    if v in rd.du[n3.id][2]]
                    if not used_between:
                        return n2
    return None


def r4_approx_fprime(ctx):
    rep = ctx.rep
    fn = ctx.repo.get(AF, "approx_fprime")
    C = f"{AF}:approx_fprime"
    # base-point aliases: f0 = f(x0) ; xx = x0.reshape(-1)
    base_f, base_x = None, None
    for n in walk_no_nested(fn):
        if isinstance(n, ast.Assign) and isinstance(n.targets[0], ast.Name):
            s = norm_src(n.value)
            if s in ("np.atleast_1d(f(x0))", "f(x0)"):
                base_f = n.targets[0].id
            if s in ("x0.reshape(-1)", "x0.ravel()", "x0.flatten()"):
                base_x = n.targets[0].id
    if base_f is None or base_x is None:
        raise AnalysisError("approx_fprime: base point aliases (f0, xx) not recognised")
    branches = []
    for n in walk_no_nested(fn):
        if isinstance(n, ast.If) and isinstance(n.test, ast.Compare) and norm_src(n.test.left) == "method" and isinstance(n.test.comparators[0], ast.Constant):
            branches.append((n.test.comparators[0].value, n.body))
    if len(branches) < 3:
        raise AnalysisError("approx_fprime: method branches not recognised")

    def points_of_f(expr, env):
        """df expression -> (A, B) point names with df ~ f(A) - f(B); complex-step: (A, base)."""
        if isinstance(expr, ast.BinOp) and isinstance(expr.op, ast.Sub):
            return fpt(expr.left, env), fpt(expr.right, env)
        if isinstance(expr, ast.Attribute) and expr.attr == "imag":
            return fpt(expr.value, env), base_x
        return None

    def fpt(e, env):
        if isinstance(e, ast.Name):
            if e.id == base_f:
                return base_x
            if e.id in env:
                return fpt(env[e.id], env)
        if isinstance(e, ast.Call) and isinstance(e.func, ast.Name) and e.func.id in ("ff", "f") and e.args and isinstance(e.args[0], ast.Name):
            return e.args[0].id
        return None

    def points_of_x(expr):
        e = expr
        if isinstance(e, ast.Attribute) and e.attr == "imag":
            e = e.value
        if isinstance(e, ast.BinOp) and isinstance(e.op, ast.Sub):
            def nm(z):
                return z.value.id if isinstance(z, ast.Subscript) and isinstance(z.value, ast.Name) else None
            return nm(e.left), nm(e.right)
        return None

    for meth, body in branches:
        env, df, dx = {}, None, None
        for s in body:
            if isinstance(s, ast.Assign) and isinstance(s.targets[0], ast.Name):
                if s.targets[0].id == "df":
                    df = s.value
                elif s.targets[0].id == "dx":
                    dx = s.value
                else:
                    env[s.targets[0].id] = s.value
        if dx is None:
            # not set in the branch: a definition outside the method dispatch (hoisted out of the loop)
            outer = [n.value for n in walk_no_nested(fn) if isinstance(n, ast.Assign) and isinstance(n.targets[0], ast.Name) and n.targets[0].id == "dx"]
            dx = outer[-1] if outer else None
        if df is None or dx is None:
            raise AnalysisError(f"approx_fprime[{meth}]: df/dx not found")
        pf, px = points_of_f(df, env), points_of_x(dx)
        if pf is not None and None not in pf and (px is None or None in px) and meth != "cs":
            # real-step schemes: the points are xx +- h rounded to floating point, so the realised step differs from the nominal eps by
            # up to ulp(|x|); dividing by the nominal step leaves a relative error ulp(|x|) / eps in every entry of the Jacobian
            rep.bad("C22.R4", C, f"[{meth}] df = {norm_src(df)}; dx = {norm_src(dx)}",
                    f"method '{meth}': df is the difference of f at the points {pf}, but dx = `{norm_src(dx)[:60]}` is not the difference of these points' coordinates "
                    "(a nominal step instead of the realised one): the quotient is off by ulp(|x|)/eps, which dominates the method's error for large |x| or small eps",
                    f"{AF}:{df.lineno}")
            continue
        if pf is None or px is None or None in pf or None in px:
            rep.note(f"C22.R4: approx_fprime[{meth}] df/dx form not recognised: df={norm_src(df)} dx={norm_src(dx)}")
            continue
        if pf == px:
            rep.ok("C22.R4", C, f"[{meth}] df = f({pf[0]}) - f({pf[1]}) ; dx = {px[0]}[i] - {px[1]}[i]")
        else:
            rep.bad("C22.R4", C, f"[{meth}] df = {norm_src(df)}; dx = {norm_src(dx)}",
                    f"method '{meth}': df is formed from points {pf} but dx from {px} (difference quotient has the wrong sign or step)", f"{AF}:{df.lineno}")


MUTANTS = [
    dict(id="c22-m1", canary=True, what="fixed_point_iteration: tolerance-killing store (the original defect)", file=DSV,
         old="        scale = atol + np.maximum(np.abs(x), np.abs(x_new)) * rtol\n",
         new="        scale = atol + np.maximum(np.abs(x), np.abs(x_new)) * rtol\n        scale = np.array([1])\n", expect="C22.R1"),
    dict(id="c22-m2", canary=True, what="momentum helper returns the previous iterate xk (the original defect)", file=DSV,
         old="    return xk1, k + 1, error", new="    return xk, k + 1, error", expect="C22.R2"),
    dict(id="c22-m3", what="fsolve: rtol dropped from scale", file=FS,
         old="scale = options.newton_atol + np.abs(f) * options.newton_rtol", new="scale = options.newton_atol + np.abs(f) * 1e-6", expect="C22.R1"),
    dict(id="c22-m4", what="fsolve: warn -> print", file=FS,
         old='            warn(f"fsolve is not converged after {i} iterations with error {error:.2e}")',
         new='            print(f"fsolve is not converged after {i} iterations with error {error:.2e}")', expect="C22.R3"),
    dict(id="c22-m5", what="momentum helper: raise removed", file=DSV,
         old='        raise RuntimeError(\n            f"Nesterov acceleration is not converged after {k} iterations with error {error}"\n        )\n',
         new='        pass\n', expect="C22.R3"),
    dict(id="c22-m6", what="fsolve returns success=True", file=FS, old="        success=converged,", new="        success=True,", expect="C22.R3"),
    dict(id="c22-m7", what="approx_fprime 3-point: dx orientation flipped", file=AF,
         old="dx = x2[i] - x1[i]  # recompute", new="dx = x1[i] - x2[i]  # recompute", expect="C22.R4"),
    dict(id="c22-m8", what="fsolve: extra Newton update after the convergence test (returned x is not the tested one)", file=FS,
         old="            converged = error < 1\n            if converged:\n                break\n",
         new="            converged = error < 1\n            if converged:\n                x = x0 + Delta_x - dx\n                break\n", expect="C22.R2"),
    dict(id="c22-m9", what="fixed_point_iteration: raise replaced by return of last iterate", file=DSV,
         old='    raise ValueError(\n        f"Fixed-point iteration did not converge after {k + 1} iterations with error: {error}"\n    )',
         new='    return x, k + 1, error', expect="C22.R3"),
]
MUTANTS += [
    dict(id="c22-r5-seed", canary=True, what="[seeded by sub-agent] fixed_point_iteration: defensive copies removed, the in-place map of DualStormerVerlet._step gets the live iterate", file=DSV,
         old="        x_new = fun(x.copy())\n", new="        x_new = fun(x)\n", expect="C22.R5",
         edits=[(DSV, "        x_new = fun(x.copy())\n", "        x_new = fun(x)\n"),
                (DSV, "        error = np.linalg.norm((x_new.copy() - x.copy()) / scale) / len(scale) ** 0.5", "        error = np.linalg.norm((x_new - x) / scale) / len(scale) ** 0.5"),
                (DSV, "        x = x_new.copy()\n", "        x = x_new\n")]),
    dict(id="c22-r5-2", what="momentum helper evaluates the map on the live extrapolated iterate", file=DSV,
         old="        xk1 = fun(yk.copy())", new="        xk1 = fun(yk)", expect="C22.R5"),
]
MUTANTS += [
    dict(id="c22-r4-seed", canary=True, what="[seeded by sub-agent] approx_fprime divides by the nominal step (dx hoisted out of the loop)", file=AF,
         edits=[(AF, "    for i in range(m):\n        if method == \"2-point\":", "    dx = -2 * eps if method == \"3-point\" else eps\n    for i in range(m):\n        if method == \"2-point\":"),
                (AF, "            dx = x[i] - xx[i]  # recompute dx as exactly representable number\n", ""),
                (AF, "            dx = x2[i] - x1[i]  # recompute dx as exactly representable number\n", ""),
                (AF, "            dx = (x1[i] - xx[i]).imag\n", "")], expect="C22.R4"),
]
MUTANTS += [
    dict(id="c22-r6-seed", canary=True, what="[seeded by sub-agent] momentum helper: tolerance scale computed once from the initial guess", file=DSV,
         edits=[(DSV, "        scale = atol + np.maximum(np.abs(yk), np.abs(xk1)) * rtol\n", ""),
                (DSV, "    error_old = np.inf\n    converged = False\n", "    error_old = np.inf\n    converged = False\n    scale = atol + np.abs(x0) * rtol\n")], expect="C22.R6"),
]
NEUTRAL = [
    dict(id="c22-n-r5", canary=True, what="only the redundant copies in the error expression removed; the map still gets a copy", file=DSV,
         old="        error = np.linalg.norm((x_new.copy() - x.copy()) / scale) / len(scale) ** 0.5", new="        error = np.linalg.norm((x_new - x) / scale) / len(scale) ** 0.5"),
    dict(id="c22-n1", canary=True, what="fixed_point_iteration: scale computed in two steps", file=DSV,
         old="        scale = atol + np.maximum(np.abs(x), np.abs(x_new)) * rtol\n",
         new="        m = np.maximum(np.abs(x), np.abs(x_new))\n        scale = atol + m * rtol\n"),
]

MUTANTS += [
    dict(id="c22-r7-seed", canary=True, what="[seeded by sub-agent] fsolve: the block that silences approx_fprime's performance warning is one statement too wide and swallows the non-convergence warning", file=FS,
         edits=[(FS,) + ('from warnings import warn\n', 'from warnings import warn, catch_warnings, simplefilter\n'), (FS, '        for i in range(options.newton_max_iter):\n            # Newton update\n            dx = solve(x, f)\n            Delta_x -= dx\n            x = x0 + Delta_x\n\n            # new function value, error and convergence check\n            f = np.atleast_1d(fun(x, *fun_args))\n            error = np.linalg.norm(f / scale) / scale.size**0.5\n            converged = error < 1\n            if converged:\n                break\n\n        if not converged:\n            warn(f"fsolve is not converged after {i} iterations with error {error:.2e}")\n\n', '        with catch_warnings():\n            if options.numerical_jacobian_method:\n                simplefilter("ignore", UserWarning)\n\n            for i in range(options.newton_max_iter):\n                # Newton update\n                dx = solve(x, f)\n                Delta_x -= dx\n                x = x0 + Delta_x\n\n                # new function value, error and convergence check\n                f = np.atleast_1d(fun(x, *fun_args))\n                error = np.linalg.norm(f / scale) / scale.size**0.5\n                converged = error < 1\n                if converged:\n                    break\n\n            if not converged:\n                warn(f"fsolve is not converged after {i} iterations with error {error:.2e}")\n\n')], expect="C22.R7"),
]
NEUTRAL += [
    dict(id="c22-n-r7", canary=True, what="fsolve: approx_fprime's performance warning silenced around the Newton loop only; the non-convergence warning is raised after the block", file=FS,
         edits=[(FS,) + ('from warnings import warn\n', 'from warnings import warn, catch_warnings, simplefilter\n'), (FS, '        for i in range(options.newton_max_iter):\n            # Newton update\n            dx = solve(x, f)\n            Delta_x -= dx\n            x = x0 + Delta_x\n\n            # new function value, error and convergence check\n            f = np.atleast_1d(fun(x, *fun_args))\n            error = np.linalg.norm(f / scale) / scale.size**0.5\n            converged = error < 1\n            if converged:\n                break\n\n        if not converged:\n            warn(f"fsolve is not converged after {i} iterations with error {error:.2e}")\n\n', '        with catch_warnings():\n            if options.numerical_jacobian_method:\n                simplefilter("ignore", UserWarning)\n\n            for i in range(options.newton_max_iter):\n                # Newton update\n                dx = solve(x, f)\n                Delta_x -= dx\n                x = x0 + Delta_x\n\n                # new function value, error and convergence check\n                f = np.atleast_1d(fun(x, *fun_args))\n                error = np.linalg.norm(f / scale) / scale.size**0.5\n                converged = error < 1\n                if converged:\n                    break\n\n        if not converged:\n            warn(f"fsolve is not converged after {i} iterations with error {error:.2e}")\n\n')]),
]

MUTANTS += [
    dict(id="c22-r8-seed", canary=True, what="[seeded by sub-agent] fsolve measures ||f|| / ||scale|| instead of ||f / scale|| / sqrt(n) ('norm of the scale computed once')", file=FS,
         edits=[(FS, "    error = np.linalg.norm(f / scale) / scale.size**0.5\n    converged = error < 1\n", "    scale_norm = np.linalg.norm(scale)\n    error = np.linalg.norm(f) / scale_norm\n    converged = error < 1\n"),
                (FS, "            error = np.linalg.norm(f / scale) / scale.size**0.5\n", "            error = np.linalg.norm(f) / scale_norm\n")], expect="C22.R8"),
]

MUTANTS += [
    dict(id="c22-r9-seed", canary=True, what="[seeded by sub-agent] approx_fprime caches its dense step matrix across calls in a module-level dict keyed by the problem size only (eps not in the key)", file='cardillo/math/approx_fprime.py',
         edits=[('cardillo/math/approx_fprime.py', "\ndef approx_fprime(", '\n_steps = {}\n\n\ndef _step_matrix(m, eps):\n    key = m\n    if key not in _steps:\n        _steps[key] = np.diag(eps * np.ones(m))\n    return _steps[key]\n\n\ndef approx_fprime('), ('cardillo/math/approx_fprime.py', '    h = np.diag(eps * np.ones(m))\n', "    h = _step_matrix(m, eps)\n")], expect="C22.R9"),
]
NEUTRAL += [
    dict(id="c22-n-r9", canary=True, what="approx_fprime caches its dense step matrix keyed by (m, eps)", file='cardillo/math/approx_fprime.py',
         edits=[('cardillo/math/approx_fprime.py', "\ndef approx_fprime(", '\n_steps = {}\n\n\ndef _step_matrix(m, eps):\n    key = (m, eps)\n    if key not in _steps:\n        _steps[key] = np.diag(eps * np.ones(m))\n    return _steps[key]\n\n\ndef approx_fprime('), ('cardillo/math/approx_fprime.py', '    h = np.diag(eps * np.ones(m))\n', "    h = _step_matrix(m, eps)\n")]),
]
