"""C19  RATTLE is second order, drift-free and reversible on conservative systems.

What is decided here is ONE structural necessary condition of the statement, not the behaviour: the two stages of a RATTLE step are
each other's adjoint.  A one-step method is time-reversible on reversible systems (and, being consistent, of even order >= 2) iff it
is symmetric, i.e. exchanging (tn, qn, un) <-> (tn1, qn1, un1) and dt -> -dt maps the step onto itself.  For the two-stage form in
cardillo/solver/rattle.py that means

 R1 momentum    every dt-weighted force family of the stage-1 momentum balance  M_n (u12 - un) - dt/2 F(tn, qn, u12) - impulses = 0
                occurs in the stage-2 balance  M_n1 (un1 - u12) - dt/2 F(tn1, qn1, u12) - impulses = 0  with the same weight relative to the
                mass term, at the mirrored evaluation point, with the same mid-step velocity u12 - and vice versa
 R2 kinematics  the kinematic equation  qn1 - qn - dt/2 (q_dot(tn, qn, u12) + q_dot(tn1, qn1, u12)) = 0  weights both end points equally,
                evaluates both with u12, and has opposite unit coefficients on qn1 and qn
 R3 operators   the cached operators (self.Mn, self.W_gn, ...) used by stage 1 are the ones evaluated at the END of the previous step with
                the same System method that stage 2 uses at its own end point (so stage 1 of step k+1 and stage 2 of step k see one operator)

Energy boundedness, the observed factor four and the size of the reversibility defect are trajectory facts and are not decided.
"""
from __future__ import annotations

import ast
import re
from fractions import Fraction

from ..core import AnalysisError, dotted, norm_src

EXPLANATION = ("Weighted additive expansion (exact rational coefficients, distributing *, @ over +, -) of the momentum and kinematic rows of "
               "Rattle.R_x1 and of the stage-2 right-hand side in Rattle.solve; evaluation points of System calls and of cached operators are "
               "mapped to START/END of the step; the two stages are compared under the adjoint map.")
NOT_DECIDED = ("bounded energy error, observed order (factor four), size of the reversibility defect; these are trajectory facts. The rule decides "
               "the self-adjoint structure of the step, a necessary condition of reversibility and of even order.")
ASSUMPTIONS = ["the nonlinear and linear solves return the solution of the rows analysed here (C22)",
               "System methods are the functions of (t, q, u) their names say (C14)"]
BLIND_SPOTS = ["asymmetry hidden inside System or a contribution (e.g. h depending on a stored previous state)",
               "contact stages (prox1 / prox2): C19 quantifies over systems without contacts"]

RT = "cardillo/solver/rattle.py"
START, END = "START", "END"


from ..wterms import Terms  # noqa: E402


def _point(fn_local, t, q):
    """START / END / None for a (t, q) argument pair, after resolving the function's simple locals."""
    def res(e):
        for _ in range(3):
            if isinstance(e, ast.Name) and len(fn_local.get(e.id, [])) == 1:
                e = fn_local[e.id][0]
            else:
                break
        return norm_src(e).replace("self.", "")
    ts, qs = res(t), res(q)
    if ts == "tn" and qs == "qn":
        return START
    if ts in ("tn + dt", "dt + tn") and qs in ("qn1",) or (ts in ("tn + dt", "dt + tn") and qs.startswith("np.array_split(x1n1")):
        return END
    return None


def mass_matrix_refreshed(ctx, rule="C19.R7"):
    from ..model import guards_of
    rep = ctx.rep
    rel = "cardillo/solver/rattle.py"
    fn = ctx.repo.maybe(rel, "Rattle.solve")
    C = f"{rel}:Rattle.solve"
    if fn is None:
        rep.ok(rule, C, "Rattle.solve not found (no verdict)", verdict="unknown", trivial=True)
        return
    sts = [w for w in ast.walk(fn) if isinstance(w, ast.Assign) and any(norm_src(t) == "self.Mn" for t in w.targets)]
    if not sts:
        rep.bad(rule, C, fn.name, "the step loop never re-evaluates self.Mn: the mass matrix stays the one of the initial configuration", f"{rel}:{fn.lineno}")
        return
    for st in sts:
        gs = [(t, pol) for (t, pol) in guards_of(st, fn)]
        binds = {w.targets[0].attr: norm_src(w.value) for f in getattr(fn, "_parent").body if isinstance(f, ast.FunctionDef) for w in ast.walk(f)
                 if isinstance(w, ast.Assign) and len(w.targets) == 1 and isinstance(w.targets[0], ast.Attribute) and dotted(w.targets[0].value) == "self"}
        bad = None
        for (t, pol) in gs:
            txt = t
            m_ = re.fullmatch(r"(not )?self\.(\w+)", t.strip())
            if m_ and m_.group(2) in binds:
                txt = ("not (" if m_.group(1) else "(") + binds[m_.group(2)] + ")"
                if not pol:
                    txt = "not " + txt
            # acceptable: refresh exactly when some mass part varies:  np.any(I_M)  /  skip when  not np.any(I_M)
            norm_ = txt.replace(" ", "")
            if "np.any(" in norm_ and "I_M" in norm_ and "np.all(" not in norm_:
                continue
            if "reuse" in norm_ or "options" in norm_:
                continue
            bad = (t, txt)
        if bad:
            rep.bad(rule, C, st, f"`{norm_src(st)[:60]}` is skipped under `{bad[0]}` (= `{bad[1][:60]}`), which is not 'no contribution has a configuration-dependent mass matrix': with one constant "
                    "and one variable mass part the matrix is frozen at M(q0) and used in both stages - the step is not the adjoint composition any more (order one, drift, not reversible)",
                    f"{rel}:{st.lineno}")
        else:
            rep.ok(rule, C, f"`{norm_src(st)[:60]}`" + (" is unconditional" if not gs else f" under `{gs[-1][0][:40]}`"))


def compliance_point(ctx, rule="C19.R6"):
    """RATTLE's symmetry: stage 1 uses the forces at (t_n, q_n), stage 2 those at (t_{n+1}, q_{n+1}).  In compliance form the spring force is the
    unknown la_c fixed by c(t, q, u, la_c) = 0; enforcing that equation at the END of the step in stage 1 makes stage 1 apply
    W_c(q_n) la_c(q_{n+1}): an implicit half step followed by an explicit one at the same point - first order, dissipative, not reversible,
    and only for force elements in compliance form (cardillo's default), which the force-form rules R1-R4 do not see."""
    rep = ctx.rep
    rel = "cardillo/solver/rattle.py"
    fn = ctx.repo.maybe(rel, "Rattle.R_x1")
    C = f"{rel}:Rattle.R_x1"
    if fn is None:
        rep.ok(rule, C, "Rattle.R_x1 not found (no verdict)", verdict="unknown", trivial=True)
        return

    def point(name):
        cs = [w for w in ast.walk(fn) if isinstance(w, ast.Call) and isinstance(w.func, ast.Attribute) and w.func.attr == name and norm_src(w.func.value) == "self.system" and len(w.args) >= 2]
        return [(norm_src(c.args[0]), norm_src(c.args[1]), c) for c in cs]
    hp, cp = point("h"), point("c")
    if not hp or not cp:
        rep.ok(rule, C, "h(...) / c(...) evaluations of stage 1 not found (no verdict)", verdict="unknown", trivial=True)
        return
    ref = hp[0][:2]
    for (t_, q_, c) in cp:
        if (t_, q_) == ref:
            rep.ok(rule, C, f"`{norm_src(c)[:50]}` at the force evaluation point ({ref[0]}, {ref[1]}) of stage 1")
        else:
            rep.bad(rule, C, c, f"`{norm_src(c)[:60]}` enforces the compliance law at ({t_}, {q_}) while stage 1 evaluates its forces at ({ref[0]}, {ref[1]}) (`{norm_src(hp[0][2])[:40]}`): "
                    "for elements in compliance form stage 1 is then implicit in the end point and the step is no longer the adjoint composition - second order, energy behaviour and "
                    "reversibility are lost for them only", f"{rel}:{c.lineno}")


def run(ctx):
    rep = ctx.rep
    rep.rule("C19.R7", "RATTLE re-evaluates the mass matrix at the new configuration in every step (self.Mn = system.M(tn1, qn1)) - unconditionally, or skipped only when NO contribution has a configuration-dependent mass matrix (not np.any(I_M)); stage 1, the stage-2 matrix and its right-hand side all use it", 1)
    mass_matrix_refreshed(ctx)
    rep.rule("C19.R6", "stage 1: the compliance law c(t, q, u, la_c) that defines the force unknowns la_c is evaluated at the point (t, q) at which stage 1 evaluates its other forces h (start of the step): a force element in compliance form is the same force as in force form, evaluated at the same point", 1)
    compliance_point(ctx)
    rep.rule("C19.R5", "RATTLE's stage-1 Newton solves run with the solver's configured options: order, drift and reversibility hold 'up to the nonlinear-solver tolerance' the caller asked for, not up to fsolve's default 1e-6", 1)
    from .c23 import options_forwarded
    options_forwarded(ctx, "C19.R5", only="cardillo/solver/rattle.py")
    rep.rule("C19.R1", "stage 1 and stage 2 momentum balances are adjoint: same force families, same dt-weights relative to the mass term, mirrored evaluation points, mid-step velocity", 5)
    rep.rule("C19.R2", "symmetric kinematic equation (both end points weighted equally, evaluated with the mid-step velocity)", 4)
    rep.rule("C19.R3", "cached operators of stage 1 are re-evaluated at the end point with the System method stage 2 uses", 6)
    rep.rule("C19.R4", "the step size is fixed for the whole run: self.dt is written in the constructor only (a composition of symmetric steps is reversible only if the backward run uses the same steps in reverse order)", 1)
    cls = ctx.repo.get(RT, "Rattle")
    wr = []
    for m_ in cls.body:
        if isinstance(m_, ast.FunctionDef) and m_.name != "__init__":
            for w_ in ast.walk(m_):
                tg_ = w_.targets if isinstance(w_, ast.Assign) else ([w_.target] if isinstance(w_, ast.AugAssign) else [])
                for t_ in tg_:
                    for tt_ in (t_.elts if isinstance(t_, ast.Tuple) else [t_]):
                        if dotted(tt_) == "self.dt":
                            wr.append((m_, w_))
    if wr:
        m_, w_ = wr[0]
        rep.bad("C19.R4", f"{RT}:Rattle.{m_.name}", w_, f"`{norm_src(w_)[:70]}` changes the step size during the run: with a shortened last step the N steps forward are (dt, ..., dt, dt') and the "
                "N steps after reversing the velocities are again (dt, ..., dt, dt'), not the reversed sequence - the there-and-back run does not return to the initial state whenever "
                "(t1 - t0) / dt is not an integer (each single step is still symmetric)", f"{RT}:{w_.lineno}")
    else:
        rep.ok("C19.R4", f"{RT}:Rattle", "self.dt is assigned in __init__ only")
    r1 = ctx.repo.get(RT, "Rattle.R_x1")
    solve = ctx.repo.get(RT, "Rattle.solve")
    init = ctx.repo.get(RT, "Rattle.__init__")

    # ---- R3: cached operators
    def cached(fn):
        out = {}
        for n in ast.walk(fn):
            if isinstance(n, ast.Assign) and len(n.targets) == 1 and isinstance(n.targets[0], ast.Attribute) and dotted(n.targets[0].value) == "self" \
                    and isinstance(n.value, ast.Call) and (dotted(n.value.func) or "").startswith("self.system.") and len(n.value.args) >= 2:
                out[n.targets[0].attr] = n
        return out
    c_init, c_solve = cached(init), cached(solve)
    loc_solve = {}
    for n in ast.walk(solve):
        if isinstance(n, ast.Assign) and len(n.targets) == 1 and isinstance(n.targets[0], ast.Name):
            loc_solve.setdefault(n.targets[0].id, []).append(n.value)
    used_stage1 = sorted({n.attr for n in ast.walk(r1) if isinstance(n, ast.Attribute) and dotted(n.value) == "self" and n.attr in c_init})
    if len(used_stage1) < 4:
        raise AnalysisError(f"{RT}: fewer than 4 cached operators used by Rattle.R_x1 ({used_stage1})")
    opfam = {}
    for a in used_stage1:
        C = f"{RT}:Rattle.{a}"
        ni, ns = c_init[a], c_solve.get(a)
        fi = dotted(ni.value.func).split(".")[-1]
        opfam[a] = fi + ("0" if any(norm_src(x).startswith("0 *") for x in ni.value.args[2:]) else "")
        if ns is None:
            rep.bad("C19.R3", C, ni, f"`self.{a}` (used by stage 1) is evaluated in __init__ only and never refreshed at the end point of a step: from the second step on "
                    "stage 1 works with the operator of the initial configuration", f"{RT}:{ni.lineno}")
            continue
        fs = dotted(ns.value.func).split(".")[-1]
        pt = _point(loc_solve, ns.value.args[0], ns.value.args[1])
        extra_i = [norm_src(x) for x in ni.value.args[2:]]
        extra_s = [norm_src(x) for x in ns.value.args[2:]]
        if fi != fs:
            rep.bad("C19.R3", C, ns, f"`self.{a}` is system.{fi} in __init__ but system.{fs} after the first step", f"{RT}:{ns.lineno}")
        elif pt != END:
            rep.bad("C19.R3", C, ns, f"`self.{a}` is refreshed at ({norm_src(ns.value.args[0])}, {norm_src(ns.value.args[1])}), not at the end point (tn1, qn1) of the step: stage 1 of the "
                    "next step and stage 2 of this one use different operators (the step is not self-adjoint)", f"{RT}:{ns.lineno}")
        else:
            rep.ok("C19.R3", C, f"system.{fi} at (tn, qn) in __init__, at (tn1, qn1) at the end of stage 1; stage 1 of the next step and stage 2 share it")

    # ---- term extraction
    def mid_velocity(fn, tag):
        for n in ast.walk(fn):
            if isinstance(n, ast.Assign) and isinstance(n.targets[0], ast.Tuple) and isinstance(n.value, ast.Call) and (dotted(n.value.func) or "").endswith("array_split") \
                    and len(n.value.args) == 2 and norm_src(n.value.args[1]) == "self.split_x1" and len(n.targets[0].elts) >= 2 and isinstance(n.targets[0].elts[1], ast.Name) and n.targets[0].elts[1].id != "_":
                return n.targets[0].elts[1].id, n.targets[0].elts[0].id if isinstance(n.targets[0].elts[0], ast.Name) else None
        raise AnalysisError(f"{RT}:{tag}: split of the stage-1 unknowns (q, u_mid, ...) not found")

    def make_atom(fn, stage_point, umid):
        local = {}
        for n in ast.walk(fn):
            if isinstance(n, ast.Assign) and len(n.targets) == 1 and isinstance(n.targets[0], ast.Name):
                local.setdefault(n.targets[0].id, []).append(n.value)
        def atom(e):
            if isinstance(e, ast.Subscript):
                return atom(e.value)
            d = dotted(e)
            if d in ("dt", "self.dt"):
                return "dt"
            if isinstance(e, ast.Name) and len(local.get(e.id, [])) == 1 and dotted(local[e.id][0]) in ("self.dt", "self.tn", "self.qn", "self.un"):
                return dotted(local[e.id][0]).replace("self.", "")
            if isinstance(e, ast.Call) and (dotted(e.func) or "").startswith("self.system."):
                m = dotted(e.func).split(".")[-1]
                pt = _point(local, e.args[0], e.args[1]) if len(e.args) >= 2 else None
                u = None
                if len(e.args) >= 3:
                    u = norm_src(e.args[2])
                    u = "u_mid" if u == umid else u
                return f"{m}@{pt}" + (f"({u})" if u is not None else "")
            if isinstance(e, ast.Attribute) and dotted(e.value) == "self":
                if e.attr in opfam:
                    return f"{opfam[e.attr]}@{stage_point}"
                if e.attr in c_solve and e.attr not in c_init:      # self.la_c2 = system.la_c(tn1, qn1, un12)
                    v = c_solve[e.attr].value
                    m = dotted(v.func).split(".")[-1]
                    pt = _point(loc_solve, v.args[0], v.args[1])
                    um, _ = mid_velocity(solve, "Rattle.solve")
                    u = norm_src(v.args[2]) if len(v.args) >= 3 else None
                    u = "u_mid" if u == um else u
                    return f"{m}@{pt}" + (f"({u})" if u is not None else "")
                return "self." + e.attr
            if isinstance(e, ast.Name):
                if e.id == umid:
                    return "u_mid"
                if e.id not in local or len(local[e.id]) != 1 or isinstance(local[e.id][0], ast.Call):
                    return e.id
            return None
        return atom

    # attributes that solve() defines as EXPRESSIONS of System calls (e.g. forces evaluated once per step and cached): inlined where used
    attr_exprs = {}
    for n in ast.walk(solve):
        if isinstance(n, ast.Assign) and len(n.targets) == 1 and isinstance(n.targets[0], ast.Attribute) and dotted(n.targets[0].value) == "self" \
                and not (isinstance(n.value, ast.Call) and (dotted(n.value.func) or "").startswith("self.system.")) \
                and any(isinstance(w, ast.Call) and (dotted(w.func) or "").startswith("self.system.") for w in ast.walk(n.value)):
            attr_exprs[n.targets[0].attr] = n.value

    def inline(e):
        if isinstance(e, ast.Attribute) and dotted(e.value) == "self" and e.attr in attr_exprs:
            return attr_exprs[e.attr]
        return None
    um1, qn1_1 = mid_velocity(r1, "Rattle.R_x1")
    T1 = Terms(r1, make_atom(r1, START, um1), inline)
    rows = [n for n in ast.walk(r1) if isinstance(n, ast.Assign) and isinstance(n.targets[0], ast.Subscript) and norm_src(n.targets[0].value) == "R"]
    mom1 = [n for n in rows if any(isinstance(x, ast.Attribute) and x.attr == "Mn" for x in ast.walk(n.value))]
    kin = [n for n in rows if n is not (mom1[0] if mom1 else None) and isinstance(n.targets[0].slice, ast.Slice) and n.targets[0].slice.lower is None]
    if len(mom1) != 1 or len(kin) != 1:
        raise AnalysisError(f"{RT}:Rattle.R_x1: momentum / kinematic row not recognised ({len(mom1)}, {len(kin)})")
    um2, _ = mid_velocity(solve, "Rattle.solve")
    T2 = Terms(solve, make_atom(solve, END, um2), inline)
    b0 = [n for n in ast.walk(solve) if isinstance(n, ast.Assign) and len(n.targets) == 1 and norm_src(n.targets[0]) == "b0" and isinstance(n.value, ast.Call)
          and (dotted(n.value.func) or "").endswith("concatenate")]
    if len(b0) != 1 or not b0[0].value.args or not isinstance(b0[0].value.args[0], (ast.List, ast.Tuple)):
        raise AnalysisError(f"{RT}:Rattle.solve: b0 = np.concatenate([...]) not recognised")
    e2 = b0[0].value.args[0].elts[0]
    # the linear system is solved as x = -lu.solve(b): residual = A x + b
    neg = [n for n in ast.walk(solve) if isinstance(n, ast.Assign) and isinstance(n.value, ast.UnaryOp) and isinstance(n.value.op, ast.USub)
           and isinstance(n.value.operand, ast.Call) and norm_src(n.value.operand.func) == "lu.solve"]
    pos = [n for n in ast.walk(solve) if isinstance(n, ast.Assign) and isinstance(n.value, ast.Call) and norm_src(n.value.func) == "lu.solve"]
    if not neg or pos:
        raise AnalysisError(f"{RT}:Rattle.solve: the stage-2 system is not solved as x = -lu.solve(b) any more (sign convention of b0 unknown)")

    def classify(terms):
        """-> mass coefficient of u_mid, {force key: (coef, atoms)}; force = term with a dt atom"""
        mass = [c for c, f in terms if any(a.startswith("M@") for a in f) and "u_mid" in f]
        forces = {}
        for c, f in terms:
            if "dt" in f:
                key = tuple(sorted(a.split("@")[0] if "@" in a else ("la_c" if a.startswith("la_c") else a) for a in f if a != "dt"))
                forces[key] = (c, f)
        return mass, forces

    C1, C2 = f"{RT}:Rattle.R_x1", f"{RT}:Rattle.solve"
    t1, t2 = T1.expand(mom1[0].value), T2.expand(e2)
    m1, f1 = classify(t1)
    m2, f2 = classify(t2)
    if len(m1) != 1 or len(m2) != 1:
        raise AnalysisError(f"{RT}: mass term M @ u_mid not unique in stage 1 / stage 2 ({m1}, {m2})")
    if len(f1) < 3:
        raise AnalysisError(f"{RT}: fewer than 3 dt-weighted force families in the stage-1 momentum row ({sorted(f1)})")
    for key in sorted(set(f1) | set(f2)):
        name = " @ ".join(key)
        if key not in f2:
            rep.bad("C19.R1", C2, b0[0], f"stage 1 applies dt-weighted `{name}` but the stage-2 right-hand side has no such term: the half steps are not adjoint (first order, "
                    "not reversible, for systems with this force family)", f"{RT}:{b0[0].lineno}")
            continue
        if key not in f1:
            rep.bad("C19.R1", C1, mom1[0], f"stage 2 applies dt-weighted `{name}` but the stage-1 momentum row has no such term", f"{RT}:{mom1[0].lineno}")
            continue
        (c1, a1), (c2, a2) = f1[key], f2[key]
        w1, w2 = c1 / m1[0], c2 / m2[0]
        probs = []
        if a1.count("dt") != a2.count("dt"):
            probs.append(f"power of dt differs ({a1.count('dt')} vs {a2.count('dt')})")
        if w1 != -w2:
            probs.append(f"weight relative to the mass term is {w1} in stage 1 and {-w2} in stage 2 (after the adjoint's dt -> -dt)")
        p1 = {a.split("@")[1].split("(")[0] for a in a1 if "@" in a}
        p2 = {a.split("@")[1].split("(")[0] for a in a2 if "@" in a}
        if p1 - {START}:
            probs.append(f"stage 1 evaluates it at {sorted(p1)} instead of (tn, qn)")
        if p2 - {END}:
            probs.append(f"stage 2 evaluates it at {sorted(p2)} instead of (tn1, qn1)")
        u1 = {a.split("(")[1][:-1] for a in a1 if "(" in a and "@" in a}
        u2 = {a.split("(")[1][:-1] for a in a2 if "(" in a and "@" in a}
        if (u1 | u2) - {"u_mid"}:
            probs.append(f"velocity argument {sorted((u1 | u2) - {'u_mid'})} is not the mid-step velocity in both stages")
        if probs:
            rep.bad("C19.R1", C2 if (p2 - {END} or (u2 - {'u_mid'})) else C1, b0[0] if (p2 - {END} or (u2 - {'u_mid'})) else mom1[0],
                    f"force family `{name}`: " + "; ".join(probs) + " - the step is not its own adjoint", f"{RT}:{b0[0].lineno}")
        else:
            rep.ok("C19.R1", C1, f"`{name}`: weight {w1} dt at (tn, qn, u_mid) in stage 1, {-w2} dt at (tn1, qn1, u_mid) in stage 2")
    # the mass terms themselves: M@START (u_mid - un) vs M@END (un1 - u_mid): stage 2's un1 is the unknown (matrix A), check M operator points
    ms1 = [f for c, f in t1 if any(a.startswith("M@") for a in f)]
    ms2 = [f for c, f in t2 if any(a.startswith("M@") for a in f)]
    if all(any(a == f"M@{START}" for a in f) for f in ms1) and all(any(a == f"M@{END}" for a in f) for f in ms2):
        rep.ok("C19.R1", C1, "mass matrix at (tn, qn) in stage 1 and at (tn1, qn1) in stage 2")
    else:
        rep.bad("C19.R1", C1, mom1[0], "mass matrix of a stage is not evaluated at that stage's own end point", f"{RT}:{mom1[0].lineno}")
    un_coef = [c for c, f in t1 if any(a.startswith("M@") for a in f) and "un" in f]
    if un_coef == [-m1[0]]:
        rep.ok("C19.R1", C1, "stage 1 momentum difference M (u_mid - un)")
    else:
        rep.bad("C19.R1", C1, mom1[0], f"stage 1 momentum difference is not M (u_mid - un): coefficients {m1[0]} and {un_coef}", f"{RT}:{mom1[0].lineno}")

    # ---- R2 kinematics
    tk = T1.expand(kin[0].value)
    Ck = C1
    cq1 = [c for c, f in tk if f == (qn1_1,)]
    cq0 = [c for c, f in tk if f == ("qn",)]
    if len(cq1) == 1 and len(cq0) == 1 and cq1[0] == -cq0[0]:
        rep.ok("C19.R2", Ck, f"coordinate difference {cq1[0]} * ({qn1_1} - qn)")
    else:
        rep.bad("C19.R2", Ck, kin[0], f"the kinematic row is not a difference qn1 - qn (coefficients {cq1}, {cq0})", f"{RT}:{kin[0].lineno}")
    start_w, end_w, other = [], [], []
    for c, f in tk:
        if "dt" not in f:
            continue
        rest = [a for a in f if a != "dt"]
        s = " ".join(rest)
        if s == f"q_dot@{START}(u_mid)" or s == f"q_dot_u@{START} u_mid":
            start_w.append(("lin", c))
        elif s == f"q_dot0@{START}":
            start_w.append(("aff", c))
        elif s == f"q_dot@{END}(u_mid)" or s == f"q_dot_u@{END} u_mid":
            end_w.append(("lin", c))
        elif s == f"q_dot0@{END}":
            end_w.append(("aff", c))
        else:
            other.append((c, f))
    if other:
        c, f = other[0]
        rep.bad("C19.R2", Ck, kin[0], f"dt-weighted term `{' '.join(f)}` of the kinematic row is neither q_dot(tn, qn, u_mid) nor q_dot(tn1, qn1, u_mid): the update of the coordinates is not "
                "the symmetric mean of the two end-point velocities", f"{RT}:{kin[0].lineno}")
    ws = {c for _, c in start_w}
    we = {c for _, c in end_w}
    if not other:
        if len(ws) == 1 and ws == we and cq1 and next(iter(ws)) / cq1[0] == Fraction(-1, 2):
            rep.ok("C19.R2", Ck, f"q_dot(tn, qn, u_mid) and q_dot(tn1, qn1, u_mid) both weighted {next(iter(ws))} dt")
            rep.ok("C19.R2", Ck, "both end-point velocities use the mid-step velocity u_mid")
        else:
            rep.bad("C19.R2", Ck, kin[0], f"end points are weighted unequally in the kinematic equation: start {sorted(map(str, ws))} dt, end {sorted(map(str, we))} dt "
                    "(a symmetric step needs -1/2 dt each): first order and not reversible", f"{RT}:{kin[0].lineno}")
    # affine part present iff linear part is the decomposed form
    kinds_s = {k for k, _ in start_w}
    if kinds_s == {"lin", "aff"} or (kinds_s == {"lin"} and any(f"q_dot@{START}(u_mid)" in f for c, f in tk)):
        rep.ok("C19.R2", Ck, "start-point velocity is complete (q_dot_u u_mid + q_dot(.., 0) or q_dot(tn, qn, u_mid))")
    elif not other:
        rep.bad("C19.R2", Ck, kin[0], "start-point velocity lacks its affine part q_dot(tn, qn, 0) or its linear part", f"{RT}:{kin[0].lineno}")


MUTANTS = [
    dict(id="c19-m1", canary=True, what="stage 2 applies the full force step (weight dt instead of dt/2)", file=RT,
         old="                    -self.Mn @ un12\n                    - 0.5\n                    * self.dt\n", new="                    -self.Mn @ un12\n                    - 1.0\n                    * self.dt\n", expect="C19.R1"),
    dict(id="c19-m2", canary=True, what="explicit kinematics: coordinates advanced with the start-point velocity only", file=RT,
         old="            * (self.Bn @ un12 + self.betan + self.system.q_dot(tn1, qn1, un12))\n", new="            * 2 * (self.Bn @ un12 + self.betan)\n", expect="C19.R2"),
    dict(id="c19-m3", what="stage 2 evaluates the forces with the start velocity instead of the mid-step velocity", file=RT,
         old="                        self.system.h(tn1, qn1, un12)\n", new="                        self.system.h(tn1, qn1, self.un)\n", expect="C19.R1"),
    dict(id="c19-m4", what="actuator forces dropped from stage 2", file=RT,
         old="                        + self.system.W_tau(tn1, qn1, format=\"csr\")\n                        @ self.system.la_tau(tn1, qn1, un12)\n", new="", expect="C19.R1"),
    dict(id="c19-m5", what="stage 1 evaluates h at the end point", file=RT,
         old="                self.system.h(tn, qn, un12)\n", new="                self.system.h(tn1, qn1, un12)\n", expect="C19.R1"),
    dict(id="c19-m6", what="mass matrix not refreshed at the end point", file=RT,
         old="            self.Mn = self.system.M(tn1, qn1, format=\"csr\")\n", new="", expect="C19.R3"),
    dict(id="c19-m7", what="constraint force directions refreshed at the old configuration", file=RT,
         old="            self.W_gn = self.system.W_g(tn1, qn1, format=\"csr\")\n", new="            self.W_gn = self.system.W_g(self.tn, self.qn, format=\"csr\")\n", expect="C19.R3"),
    dict(id="c19-m8", what="kinematic equation evaluates the end-point velocity with un", file=RT,
         old="            * (self.Bn @ un12 + self.betan + self.system.q_dot(tn1, qn1, un12))\n", new="            * (self.Bn @ un12 + self.betan + self.system.q_dot(tn1, qn1, un))\n", expect="C19.R2"),
]
MUTANTS += [
    dict(id="c19-r4-seed", canary=True, what="[seeded by sub-agent] Rattle shortens its last step so that the run ends exactly at t1", file=RT,
         old="            tn1 = self.tn + self.dt\n\n            #########\n            # Stage 1\n", new="            self.dt = min(self.dt, self.t1 - self.tn)\n            tn1 = self.tn + self.dt\n\n            #########\n            # Stage 1\n", expect="C19.R4"),
]
NEUTRAL = [
    dict(id="c19-n1", canary=True, what="kinematic row written with two explicit q_dot calls (the commented-out variant)", file=RT,
         old="            * (self.Bn @ un12 + self.betan + self.system.q_dot(tn1, qn1, un12))\n",
         new="            * (self.system.q_dot(tn, qn, un12) + self.system.q_dot(tn1, qn1, un12))\n"),
    dict(id="c19-n2", what="stage-2 right-hand side with the factor distributed", file=RT,
         old="                    - 0.5\n                    * self.dt\n                    * (\n                        self.system.h(tn1, qn1, un12)\n",
         new="                    - (self.dt / 2)\n                    * (\n                        self.system.h(tn1, qn1, un12)\n"),
]

MUTANTS += [
    dict(id="c19-r5-seed", canary=True, what="[seeded by sub-agent] Rattle._solve_nonlinear_system: merged fsolve call drops options=self.options (stage 1 solved to the default 1e-6)", file='cardillo/solver/rattle.py',
         old="                jac=lu,\n                fun_args=(y,),\n                options=self.options,\n", new="                jac=lu,\n                fun_args=(y,),\n", expect="C19.R5"),
]

NEUTRAL += [
    dict(id="c19-n-r5", canary=True, what="Rattle._solve_nonlinear_system: the two fsolve calls merged into one that still forwards self.options", file='cardillo/solver/rattle.py',
         old='        if self.options.reuse_lu_decomposition:\n            sol = fsolve(\n                lambda x, y, *args: self.R_x1(x, y, *args),\n                x0,\n                jac=lu,\n                fun_args=(y,),\n                options=self.options,\n            )\n        else:\n            sol = fsolve(\n                lambda x, y, *args: self.R_x1(x, y, *args),\n                x0,\n                jac=lambda x, y, *args: self._J_x1(x, y, *args),\n                fun_args=(y,),\n                jac_args=(y,),\n                options=self.options,\n            )\n\n', new='        jac = lu if self.options.reuse_lu_decomposition else self._J_x1\n        sol = fsolve(self.R_x1, x0, jac=jac, fun_args=(y,), jac_args=(() if self.options.reuse_lu_decomposition else (y,)), options=self.options)\n\n'),
]

MUTANTS += [
    dict(id="c19-r6-seed", canary=True, what="[seeded by sub-agent] Rattle stage 1 enforces the compliance law at the end of the step (tn1, qn1)", file='cardillo/solver/rattle.py',
         old="        R[self.split_x1[1] : self.split_x1[2]] = self.system.c(tn, qn, un12, la_c1)\n", new="        R[self.split_x1[1] : self.split_x1[2]] = self.system.c(tn1, qn1, un12, la_c1)\n", expect="C19.R6"),
]

MUTANTS += [
    dict(id="c19-r7-seed", canary=True, what="[seeded by sub-agent] Rattle skips the refresh of the mass matrix unless ALL mass contributions are configuration dependent (not np.all(I_M))", file='cardillo/solver/rattle.py',
         old='            self.Mn = self.system.M(tn1, qn1, format="csr")\n', new='            if np.all(self.system.I_M):\n                self.Mn = self.system.M(tn1, qn1, format="csr")\n', expect="C19.R7"),
]
NEUTRAL += [
    dict(id="c19-n-r7", canary=True, what="Rattle refreshes the mass matrix only if some contribution has a configuration-dependent one (np.any(I_M))", file='cardillo/solver/rattle.py',
         old='            self.Mn = self.system.M(tn1, qn1, format="csr")\n', new='            if np.any(self.system.I_M):\n                self.Mn = self.system.M(tn1, qn1, format="csr")\n'),
]
