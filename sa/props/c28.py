"""C28  URDF import builds systems consistent with the described robot.

Structural clauses decided (cardillo/urdf/system_from_urdf.py):
 R1 constructor conformance  per joint-type branch of joint_kinematics: the joint class chosen and the keys put into
                             kwargs_joint (plus subsystem1/subsystem2 added by the caller) match that class's constructor
                             (no unknown keyword, no missing required parameter)
 R2 definite assignment      JointType and the five kinematic outputs are bound on every path that reaches the return
 R3 class-level calls        ClassName.method(...) calls (RigidBody.pose2q, RigidBody.q2pose, ...) resolve to a method of
                             that class with a matching arity
 R4 supported types          every joint type named in the property (fixed, revolute, continuous, prismatic, floating,
                             planar) has a branch; the joint class of each branch is imported
 R6 axis scale invariance     (K6, group joint.axis -> s * joint.axis) per joint-type branch the child's relative pose and velocity
                             (J_r_JRc, A_JRc, J_v_JRc, J_omega_JRc) have scaling degree 0 in the URDF axis: URDF gives a direction,
                             the requested joint coordinate is a length / an angle along the NORMALISED axis
 R7 axis is honoured         every joint type whose URDF meaning depends on <axis> (revolute, continuous, prismatic, planar) reads
                             joint.axis, and both the joint frame handed to the constraint (A_IJ0) and the non-zero relative pose /
                             velocity of the child depend on it (forward taint inside the branch)
 R8 basis-tag typing         (K15) in system_from_urdf the naming convention A_XY (maps Y- to X-components), X_r_.. / X_omega_.. (components in X) is a
                             type system: every product A_XY @ Z_vec / A_XY @ A_ZW has Y == Z, sums and cross products combine vectors of one
                             basis, and assignments to typed names receive that type (parent.A_IR is the parent's reference basis Rp)
 R5 body kwargs              RigidBody / Frame bodies are constructed with keys their constructors accept
"""
from __future__ import annotations

import ast
import re

from ..core import AnalysisError, dotted, norm_src, walk_no_nested, arity
from ..cfg import CFG
from ..dataflow import ReachingDefs

EXPLANATION = ("Branch-wise abstract execution of joint_kinematics (class chosen, dict keys built) against the resolved "
               "constructor signatures in the class table; definite-assignment analysis on the CFG; resolution of "
               "class-level calls and imports.")
NOT_DECIDED = "that link poses equal forward kinematics numerically and that the initial state satisfies the joint constraints (value facts)."
ASSUMPTIONS = ["urdf_parser_py objects expose .type, .axis, .origin as used"]
BLIND_SPOTS = ["wrong axis / frame algebra in the forward kinematics"]
URDF = "cardillo/urdf/system_from_urdf.py"
SUPPORTED = ["fixed", "revolute", "continuous", "prismatic", "floating", "planar"]


def ctor_signature(model, cname):
    """(required, accepted, has_kwargs) of the constructor (MRO-resolved __init__)."""
    ci = model.cls(cname)
    c, fn = model.find_method(ci, "__init__")
    if fn is None:
        return set(), set(), True
    a = fn.args
    pos = [x.arg for x in a.posonlyargs + a.args][1:]
    nd = len(a.defaults)
    required = set(pos[: len(pos) - nd]) | {k.arg for k, d in zip(a.kwonlyargs, a.kw_defaults) if d is None}
    accepted = set(pos) | {k.arg for k in a.kwonlyargs}
    return required, accepted, a.kwarg is not None


AXIS_TYPES = {"revolute": ("A_JRc", "J_omega_JRc"), "continuous": ("A_JRc", "J_omega_JRc"), "prismatic": ("J_r_JRc", "J_v_JRc"),
              "planar": ("J_r_JRc", "J_v_JRc")}


def axis_helpers(mod):
    """module-level functions f(p) that hand out p.axis (possibly with URDF's default for a missing <axis> element)"""
    out = {}
    for q, f in mod.defs().items():
        if isinstance(f, ast.FunctionDef) and "." not in q and len(f.args.args) == 1:
            p = f.args.args[0].arg
            reads = [w for w in ast.walk(f) if isinstance(w, ast.Attribute) and w.attr == "axis" and isinstance(w.value, ast.Name) and w.value.id == p]
            rets = [r for r in ast.walk(f) if isinstance(r, ast.Return) and r.value is not None]
            if reads and rets:
                out[q] = f
    return out


def inline_axis_helpers(fn, helpers):
    """copy of fn in which `helper(x)` reads `x.axis` (what the helper returns for a robot that states its axis)"""
    import copy
    fn = copy.deepcopy(fn)

    class T(ast.NodeTransformer):
        def visit_Call(self, node):
            self.generic_visit(node)
            if isinstance(node.func, ast.Name) and node.func.id in helpers and len(node.args) == 1 and isinstance(node.args[0], ast.Name):
                return ast.copy_location(ast.Attribute(value=node.args[0], attr="axis", ctx=ast.Load()), node)
            return node
    fn = T().visit(fn)
    ast.fix_missing_locations(fn)
    for par in ast.walk(fn):
        for child in ast.iter_child_nodes(par):
            child._parent = par
    return fn


def link_lookup(ctx):
    """URDF has separate name spaces for links and joints, the System has ONE registry and renames a contribution whose name is taken.  A body
    that is looked up again through `system.contributions_map[<link name>]` is therefore the wrong object (a joint) - or missing - as soon
    as a joint carries the name of a link (or a link is called like a contribution the system already owns): the importer has to keep the bodies
    it creates in a table of its own."""
    rep = ctx.rep
    fn = ctx.repo.get(URDF, "system_from_urdf")
    C = f"{URDF}:system_from_urdf"
    hits = [w for w in ast.walk(fn) if isinstance(w, ast.Subscript) and (dotted(w.value) or "").endswith("contributions_map")]
    own = [w for w in ast.walk(fn) if isinstance(w, ast.Subscript) and isinstance(w.value, ast.Name) and isinstance(w.ctx, ast.Load)
           and norm_src(w.slice).endswith(".name") and w.value.id not in ("configuration", "velocities")]
    for w in hits:
        rep.bad("C28.R12", C, w, f"`{norm_src(w)}` resolves a link through the System's single name registry: a joint that carries the name of a link (legal in URDF) makes System.add rename "
                "the body, and the lookup returns the joint instead (AttributeError in the joint's constructor / assembly)", f"{URDF}:{w.lineno}")
    if not hits:
        if own:
            rep.ok("C28.R12", C, f"links are resolved through the importer's own table (`{norm_src(own[0])}`, {len(own)} lookups)")
        else:
            rep.ok("C28.R12", C, "no lookup of a link by name found (no verdict)", verdict="unknown", trivial=True)


def rpy_convention(ctx):
    """URDF's <origin rpy="r p y"> is a FIXED-AXIS sequence: roll about X, then pitch about Y, then yaw about Z, i.e. R = Rz(y) Ry(p) Rx(r).
    The nine entries of whatever rpy_to_A returns are brought to a signed-monomial normal form in cos / sin of the three angles (literal
    matrix, or a product of basic rotations; products distribute, opposite terms cancel) and compared with the same normal form of
    Rz Ry Rx built here from the convention.  The reverse order Rx Ry Rz agrees whenever at most one angle is non-zero - which is all the
    shipped robot descriptions use - and places every link behind a compound origin away from its forward-kinematics pose while all
    joint constraints stay satisfied (the joints are defined from the same wrong frames)."""
    rep = ctx.rep
    fn = ctx.repo.maybe(URDF, "rpy_to_A")
    C = f"{URDF}:rpy_to_A"
    if fn is None:
        raise AnalysisError(f"{URDF}: rpy_to_A vanished")
    ANG = ("r", "p", "y")
    angle_of, trig = {}, {}
    param = fn.args.args[0].arg
    for st in ast.walk(fn):
        if isinstance(st, ast.Assign) and len(st.targets) == 1 and isinstance(st.targets[0], ast.Tuple) and len(st.targets[0].elts) == 3 and isinstance(st.value, ast.Call):
            names = [e.id for e in st.targets[0].elts if isinstance(e, ast.Name)]
            last = (dotted(st.value.func) or "").split(".")[-1]
            src_is_rpy = any(isinstance(w, ast.Name) and w.id == param for w in ast.walk(st.value))
            if len(names) == 3 and src_is_rpy:
                if last in ("cos", "sin"):
                    for nm, a in zip(names, ANG):
                        trig[nm] = ("c" if last == "cos" else "s") + a
                else:
                    for nm, a in zip(names, ANG):
                        angle_of[nm] = a
        elif isinstance(st, ast.Assign) and len(st.targets) == 1 and isinstance(st.targets[0], ast.Name) and isinstance(st.value, ast.Subscript) \
                and isinstance(st.value.value, ast.Name) and st.value.value.id == param and isinstance(st.value.slice, ast.Constant) and st.value.slice.value in (0, 1, 2):
            angle_of[st.targets[0].id] = ANG[st.value.slice.value]

    def angle(e):
        if isinstance(e, ast.Name) and e.id in angle_of:
            return angle_of[e.id]
        if isinstance(e, ast.Subscript) and isinstance(e.value, ast.Name) and e.value.id == param and isinstance(e.slice, ast.Constant) and e.slice.value in (0, 1, 2):
            return ANG[e.slice.value]
        return None

    def norm_terms(ts):
        acc = {}
        for sgn, f in ts:
            f = tuple(sorted(f))
            acc[f] = acc.get(f, 0) + sgn
        return {f: c for f, c in acc.items() if c != 0}

    def sc(e):
        if isinstance(e, ast.Constant) and isinstance(e.value, (int, float)):
            return [] if e.value == 0 else [(1 if e.value > 0 else -1, ())] if abs(e.value) == 1 else None
        if isinstance(e, ast.Name):
            if e.id in trig:
                return [(1, (trig[e.id],))]
            return None
        if isinstance(e, ast.Call) and (dotted(e.func) or "").split(".")[-1] in ("cos", "sin") and len(e.args) == 1:
            a = angle(e.args[0])
            return None if a is None else [(1, (("c" if dotted(e.func).endswith("cos") else "s") + a,))]
        if isinstance(e, ast.UnaryOp) and isinstance(e.op, ast.USub):
            r = sc(e.operand)
            return None if r is None else [(-s_, f) for s_, f in r]
        if isinstance(e, ast.BinOp) and isinstance(e.op, (ast.Add, ast.Sub)):
            a, b = sc(e.left), sc(e.right)
            if a is None or b is None:
                return None
            return a + ([(-s_, f) for s_, f in b] if isinstance(e.op, ast.Sub) else b)
        if isinstance(e, ast.BinOp) and isinstance(e.op, ast.Mult):
            a, b = sc(e.left), sc(e.right)
            if a is None or b is None:
                return None
            return [(s1 * s2, f1 + f2) for s1, f1 in a for s2, f2 in b]
        return None

    def basic(axis, a):
        c, s_ = [(1, ("c" + a,))], [(1, ("s" + a,))]
        ms = [(-1, ("s" + a,))]
        one, z = [(1, ())], []
        return {"x": [[one, z, z], [z, c, ms], [z, s_, c]], "y": [[c, z, s_], [z, one, z], [ms, z, c]], "z": [[c, ms, z], [s_, c, z], [z, z, one]]}[axis]

    def mm(A, B):
        return [[[(s1 * s2, f1 + f2) for k in range(3) for s1, f1 in A[i][k] for s2, f2 in B[k][j]] for j in range(3)] for i in range(3)]

    def mat(e):
        if isinstance(e, ast.Call) and (dotted(e.func) or "").split(".")[-1] in ("array", "asarray") and e.args and isinstance(e.args[0], (ast.List, ast.Tuple)) \
                and len(e.args[0].elts) == 3 and all(isinstance(r, (ast.List, ast.Tuple)) and len(r.elts) == 3 for r in e.args[0].elts):
            M = [[sc(x) for x in r.elts] for r in e.args[0].elts]
            return None if any(x is None for r in M for x in r) else M
        if isinstance(e, ast.Attribute) and e.attr in ("x", "y", "z") and isinstance(e.value, ast.Call) and (dotted(e.value.func) or "").split(".")[-1] == "A_IB_basic" and e.value.args:
            a = angle(e.value.args[0])
            return None if a is None else basic(e.attr, a)
        if isinstance(e, ast.Attribute) and e.attr == "T":
            M = mat(e.value)
            return None if M is None else [[M[j][i] for j in range(3)] for i in range(3)]
        if isinstance(e, ast.BinOp) and isinstance(e.op, ast.MatMult):
            A, B = mat(e.left), mat(e.right)
            return None if A is None or B is None else mm(A, B)
        if isinstance(e, ast.Name):
            ds = [st.value for st in ast.walk(fn) if isinstance(st, ast.Assign) and len(st.targets) == 1 and isinstance(st.targets[0], ast.Name) and st.targets[0].id == e.id]
            return mat(ds[0]) if len(ds) == 1 else None
        return None
    rets = [r.value for r in ast.walk(fn) if isinstance(r, ast.Return) and r.value is not None]
    got = mat(rets[0]) if rets else None
    if got is None:
        rep.ok("C28.R11", C, "the returned rotation is not a literal matrix or a product of basic rotations the analysis reads (no verdict)", verdict="unknown", trivial=True)
        return
    want = mm(mm(basic("z", "y"), basic("y", "p")), basic("x", "r"))
    bad = [(i, j) for i in range(3) for j in range(3) if norm_terms(got[i][j]) != norm_terms(want[i][j])]
    if not bad:
        rep.ok("C28.R11", C, "all nine entries equal those of Rz(yaw) Ry(pitch) Rx(roll) (URDF's fixed-axis roll-pitch-yaw)")
    else:
        i, j = bad[0]
        show = lambda d: " + ".join(("-" if c < 0 else "") + "*".join(f or ("1",)) for f, c in sorted(d.items())) or "0"
        rev = mm(mm(basic("x", "r"), basic("y", "p")), basic("z", "y"))
        hint = " (it is Rx(roll) Ry(pitch) Rz(yaw), the reverse order)" if all(norm_terms(got[a][b]) == norm_terms(rev[a][b]) for a in range(3) for b in range(3)) else ""
        rep.bad("C28.R11", C, rets[0], f"rpy_to_A does not return Rz(yaw) Ry(pitch) Rx(roll){hint}: entry [{i}][{j}] is `{show(norm_terms(got[i][j]))}` instead of `{show(norm_terms(want[i][j]))}` "
                f"({len(bad)} of 9 entries differ); an <origin> with two non-zero angles puts the link and its whole subtree away from the forward-kinematics pose although every joint "
                "constraint is satisfied", f"{URDF}:{rets[0].lineno}")


def transport_rule(ctx):
    """An ABSOLUTE velocity (v_R, v_C: of a point relative to the inertial frame I) is composed as v_parent + omega x r + relative velocity,
    where omega is the ABSOLUTE angular velocity of the frame the lever arm r is fixed in / expressed in.  Under the code base's naming
    convention X_omega_YZ is the angular velocity of Z relative to Y: inside the expression assigned to an absolute velocity every
    cross3(X_omega_YZ, r) must have Y = I.  A relative angular velocity there (J_omega_JRc) drops omega_parent x r, so a child behind a
    prismatic / planar / floating joint with a non-zero joint coordinate does not co-rotate with its parent (g_dot(q0, u0) != 0)."""
    import re
    rep = ctx.rep
    mod = ctx.repo.module(URDF)
    pat = re.compile(r"^(\w+?)_omega_([A-Z])(\w+)$")
    n = 0
    for q, f in mod.defs().items():
        if not isinstance(f, ast.FunctionDef) or "." in q:
            continue
        C = f"{URDF}:{q}"
        local = {}
        for x in ast.walk(f):
            if isinstance(x, ast.Assign) and len(x.targets) == 1 and isinstance(x.targets[0], ast.Name):
                local.setdefault(x.targets[0].id, []).append(x.value)
        for st in ast.walk(f):
            if not (isinstance(st, ast.Assign) and len(st.targets) == 1):
                continue
            tname = (dotted(st.targets[0]) or "").split(".")[-1]
            if not re.match(r"^v_[A-Z]$", tname):
                continue
            for w in ast.walk(st.value):
                if isinstance(w, ast.Call) and (dotted(w.func) or "").split(".")[-1] == "cross3" and len(w.args) == 2:
                    om = w.args[0]
                    name = (dotted(om) or "").split(".")[-1]
                    mm = pat.match(name)
                    if not mm:
                        continue
                    n += 1
                    if mm.group(2) == "I":
                        rep.ok("C28.R10", C, f"{norm_src(st.targets[0])}: transport term cross3({norm_src(om)}, {norm_src(w.args[1])}) uses an absolute angular velocity")
                    else:
                        rep.bad("C28.R10", C, w, f"the absolute velocity `{norm_src(st.targets[0])}` contains the transport term `{norm_src(w)}` with `{norm_src(om)}`, an angular velocity "
                                f"relative to frame {mm.group(2)}, not to the inertial frame: the part omega_parent x {norm_src(w.args[1])} is lost and a child with a non-zero joint "
                                "displacement does not co-rotate with its parent (velocity-level joint constraints violated)", f"{URDF}:{w.lineno}")


def default_axis(ctx):
    """<axis> is optional in URDF (default 1 0 0) and urdf_parser_py then hands out None: every read of `.axis` of a joint is either inside
    a function that tests it against None, or the importer crashes on a valid robot description."""
    rep = ctx.rep
    mod = ctx.repo.module(URDF)
    n = 0
    for q, f in mod.defs().items():
        if not isinstance(f, ast.FunctionDef) or "." in q:
            continue
        reads = [w for w in ast.walk(f) if isinstance(w, ast.Attribute) and w.attr == "axis" and isinstance(w.ctx, ast.Load) and isinstance(w.value, ast.Name)]
        if not reads:
            continue
        n += 1
        tested = any(isinstance(c, ast.Compare) and isinstance(c.left, ast.Attribute) and c.left.attr == "axis" and len(c.ops) == 1 and isinstance(c.ops[0], (ast.Is, ast.IsNot))
                     and isinstance(c.comparators[0], ast.Constant) and c.comparators[0].value is None for c in ast.walk(f))
        C = f"{URDF}:{q}"
        if tested:
            rep.ok("C28.R9", C, f"`{norm_src(reads[0])}` is read together with a test against None (default for a missing <axis> element)")
        else:
            rep.bad("C28.R9", C, reads[0], f"`{norm_src(reads[0])}` is used without a default: <axis> is optional in URDF (default 1 0 0), urdf_parser_py yields None for a joint without "
                    "it, and the import of such a revolute / prismatic / planar joint fails (np.asanyarray(None) is a 0-d NaN)", f"{URDF}:{reads[0].lineno}")
    if n == 0:
        raise AnalysisError(f"{URDF}: no read of a joint's axis found")


def axis_used(ctx):
    rep = ctx.rep
    fn = inline_axis_helpers(ctx.repo.get(URDF, "joint_kinematics"), axis_helpers(ctx.repo.module(URDF)))
    C = f"{URDF}:joint_kinematics"
    chain = [s for s in fn.body if isinstance(s, ast.If) and "joint.type" in norm_src(s.test)]
    if len(chain) != 1:
        raise AnalysisError(f"{C}: the joint-type dispatch was not found")
    node = chain[0]
    branches = []
    while True:
        types = [c.value for c in ast.walk(node.test) if isinstance(c, ast.Constant) and isinstance(c.value, str)]
        branches.append((types, node.body, node))
        if len(node.orelse) == 1 and isinstance(node.orelse[0], ast.If):
            node = node.orelse[0]
        else:
            break
    for types, body, ifn in branches:
        ax_types = [t for t in types if t in AXIS_TYPES]
        if not ax_types:
            continue
        tainted = set()
        a_ij0 = None
        outs = {}

        def is_tainted(e):
            for w in ast.walk(e):
                if isinstance(w, ast.Attribute) and norm_src(w) == "joint.axis":
                    return True
                if isinstance(w, ast.Name) and w.id in tainted:
                    return True
            return False

        for _ in range(2):  # two passes: loops / later redefinitions
            for st in [x for s_ in body for x in ast.walk(s_) if isinstance(x, (ast.Assign, ast.AugAssign))]:
                val = st.value
                tg = st.targets if isinstance(st, ast.Assign) else [st.target]
                for t in tg:
                    for tt in (t.elts if isinstance(t, (ast.Tuple, ast.List)) else [t]):
                        if isinstance(tt, ast.Name):
                            if is_tainted(val) or (isinstance(st, ast.AugAssign) and tt.id in tainted):
                                tainted.add(tt.id)
                            outs.setdefault(tt.id, []).append(val)
                        elif isinstance(tt, ast.Subscript) and norm_src(tt) in ("kwargs_joint['A_IJ0']", 'kwargs_joint["A_IJ0"]'):
                            a_ij0 = (val, is_tainted(val))
        label = "/".join(ax_types)
        if a_ij0 is None:
            rep.bad("C28.R7", C, ifn.test, f"`{label}`: no joint frame A_IJ0 is handed to the joint", f"{URDF}:{ifn.lineno}")
        elif a_ij0[1]:
            rep.ok("C28.R7", C, f"`{label}`: kwargs_joint['A_IJ0'] = {norm_src(a_ij0[0])} depends on joint.axis")
        else:
            rep.bad("C28.R7", C, a_ij0[0], f"`{label}`: the joint frame `{norm_src(a_ij0[0])}` does not depend on the URDF <axis>: the joint moves about / along / in the plane of a "
                    "fixed direction of the joint frame, whatever axis the robot description states", f"{URDF}:{a_ij0[0].lineno}")
        for o in AXIS_TYPES[ax_types[0]]:
            vals = outs.get(o, [])
            nonzero = [v for v in vals if not (isinstance(v, ast.Call) and (dotted(v.func) or "").split(".")[-1] in ("zeros", "eye"))]
            if not nonzero:
                rep.bad("C28.R7", C, ifn.test, f"`{label}`: {o} is never computed from the requested joint coordinate", f"{URDF}:{ifn.lineno}")
            elif o in tainted:
                rep.ok("C28.R7", C, f"`{label}`: {o} depends on joint.axis")
            else:
                rep.bad("C28.R7", C, nonzero[0], f"`{label}`: {o} = `{norm_src(nonzero[0])}` does not depend on the URDF <axis>: the child is placed / moves along fixed directions of "
                        "the joint frame instead of about / along / perpendicular to the stated axis", f"{URDF}:{nonzero[0].lineno}")


def basis_typing(ctx):
    from ..basistags import Typer
    rep = ctx.rep
    mod = ctx.repo.module(URDF)
    typer = Typer(owner_map={"parent": {"R": "Rp"}}, alias={"Rc": "R"})
    n = 0
    for q, fn in mod.defs().items():
        if not isinstance(fn, ast.FunctionDef) or "." in q:
            continue
        C = f"{URDF}:{q}"
        for node, kind, msg in typer.check(fn):
            n += 1
            if kind == "ok":
                rep.ok("C28.R8", C, msg)
            else:
                rep.bad("C28.R8", C, node, f"ill-typed under the code base's basis naming convention: {msg}: a vector / frame is rotated with the wrong basis, so the link is "
                        "placed (or moves) away from its forward-kinematics pose while all joint constraints can still be satisfied", f"{URDF}:{node.lineno}")
    if n < 25:
        raise AnalysisError(f"C28.R8: only {n} typed products found")


def axis_invariance(ctx):
    from fractions import Fraction
    from ..degrees import Interp, Z, TOP, is_ground
    rep = ctx.rep
    mod = ctx.repo.module(URDF)
    functions = {q: n for q, n in mod.defs().items() if isinstance(n, ast.FunctionDef) and "." not in q}
    alg = ctx.repo.module("cardillo/math/algebra.py")
    for q, n in alg.defs().items():
        if isinstance(n, ast.FunctionDef) and "." not in q:
            functions.setdefault(q, n)
    fn = functions.get("joint_kinematics")
    if fn is None:
        raise AnalysisError(f"{URDF}: joint_kinematics not found")
    fn = inline_axis_helpers(fn, axis_helpers(mod))
    C = f"{URDF}:joint_kinematics"
    chain = [s for s in fn.body if isinstance(s, ast.If) and "joint.type" in norm_src(s.test)]
    if len(chain) != 1:
        raise AnalysisError(f"{C}: the joint-type dispatch was not found")
    prelude = fn.body[: fn.body.index(chain[0])]
    branches = []
    node = chain[0]
    while True:
        branches.append((norm_src(node.test), node.body))
        if len(node.orelse) == 1 and isinstance(node.orelse[0], ast.If):
            node = node.orelse[0]
        else:
            break
    outs = ("J_r_JRc", "A_JRc", "J_v_JRc", "J_omega_JRc")
    for test, body in branches:
        it = Interp(functions, attr_degs={"joint.axis": Fraction(1), "joint.name": Fraction(0), "joint.type": Fraction(0)})
        it._stack = ["joint_kinematics"]
        env = {"configuration": Fraction(0), "velocities": Fraction(0), "parent": TOP, "joint": TOP}
        it.block(prelude + body, env, {}, [])
        uses_axis = any(isinstance(w, ast.Attribute) and w.attr == "axis" for s_ in body for w in ast.walk(s_))
        for o in outs:
            d = env.get(o, TOP)
            if is_ground(d) and d != 0:
                tgt = next((w for s_ in body for w in ast.walk(s_) if isinstance(w, ast.Assign) and norm_src(w.targets[0]) == o), body[0])
                rep.bad("C28.R6", C, tgt, f"branch `{test}`: {o} scales with |axis|^{d}: for a URDF axis that is not a unit vector the child is placed / moves "
                        f"|axis|^{d} times the requested joint coordinate (only the direction of the axis is meaningful)", f"{URDF}:{tgt.lineno}")
            elif d == TOP and uses_axis:
                rep.ok("C28.R6", C, f"branch `{test}`: {o}: degree in the axis not determined (no verdict)", verdict="unknown", trivial=True)
            else:
                rep.ok("C28.R6", C, f"branch `{test}`: {o} has degree 0 in the URDF axis", trivial=not uses_axis)
        for v in it.violations:
            rep.bad("C28.R6", C, v.node, f"branch `{test}`: {v.msg} under scaling of the URDF axis", f"{URDF}:{getattr(v.node, 'lineno', '?')}")


def traversal_is_worklist(ctx, rule="C28.R16"):
    """Element order carries no meaning in URDF.  A single pass `for parent in urdf.links` that skips a link whose body does not exist yet
    silently drops the subtree of every link declared before its parent (the imported part is self-consistent, assemble() raises nothing)."""
    rep = ctx.rep
    fn = ctx.repo.get(URDF, "system_from_urdf")
    C = f"{URDF}:system_from_urdf"
    loops = [w for w in ast.walk(fn) if isinstance(w, (ast.For, ast.While)) and any(isinstance(x, ast.Attribute) and x.attr == "child_map" for x in ast.walk(w))]
    outer = [l for l in loops if not any(l is not m and any(x is l for x in ast.walk(m)) for m in loops)]
    if not outer:
        rep.ok(rule, C, "no loop over the kinematic tree found (no verdict)", verdict="unknown", trivial=True)
        return
    lp = outer[0]
    if isinstance(lp, ast.While):
        pops = any(isinstance(x, ast.Call) and isinstance(x.func, ast.Attribute) and x.func.attr in ("pop", "popleft") for x in ast.walk(lp))
        apps = any(isinstance(x, ast.Call) and isinstance(x.func, ast.Attribute) and x.func.attr in ("append", "extend", "appendleft") and norm_src(x.func.value) == norm_src(lp.test).replace("len(", "").rstrip(")")
                   for x in ast.walk(lp))
        if pops and apps:
            rep.ok(rule, C, f"worklist `while {norm_src(lp.test)}`: links are popped and their children appended")
        else:
            rep.ok(rule, C, f"`while {norm_src(lp.test)[:40]}`: not recognised as a worklist (no verdict)", verdict="unknown")
    else:
        it = norm_src(lp.iter)
        if re.search(r"urdf\.(links|link_map|joints)", it):
            rep.bad(rule, C, lp, f"the tree is traversed by `for {norm_src(lp.target)} in {it}`: one pass in DOCUMENT order - a link declared before its parent is visited before its body exists, is skipped and "
                    "never revisited, so its children, their joints and whole subtrees are missing from the system while everything that was imported is consistent", f"{URDF}:{lp.lineno}")
        else:
            rep.ok(rule, C, f"`for ... in {it[:40]}`: iteration order not classified (no verdict)", verdict="unknown")


def parse_not_memoised(ctx, rule="C28.R15"):
    """'importing yields ... the described robot': a parse result remembered by file path is the description the file held at the first import.
    Regenerated xacro output, a parameter study or a harness that writes every robot to one scratch file then get a self-consistent system of
    another robot (joint types, origins, masses of the old file)."""
    rep = ctx.rep
    mod = ctx.repo.module(URDF)
    READS = {"from_xml_file", "from_xml_string", "open", "parse", "read_text", "read", "fromstring", "load"}
    n = 0
    for q, fn in mod.defs().items():
        if not isinstance(fn, ast.FunctionDef):
            continue
        reads = [c for c in ast.walk(fn) if isinstance(c, ast.Call) and (dotted(c.func) or "").split(".")[-1] in READS]
        if not reads:
            continue
        n += 1
        C = f"{URDF}:{q}"
        decos = [d for d in fn.decorator_list if (dotted(d.func if isinstance(d, ast.Call) else d) or "").split(".")[-1] in ("lru_cache", "cache", "cached", "cachedmethod", "memoize")]
        if decos:
            rep.bad(rule, C, decos[0], f"`@{norm_src(decos[0])}` memoises `{fn.name}`, which reads the description (`{norm_src(reads[0])[:50]}`), by its arguments (the path): a file that is written "
                    "again under the same path is imported as the robot it used to describe - constraints and assembly are satisfied, poses, joint types and masses are those of the old file",
                    f"{URDF}:{fn.lineno}")
        else:
            rep.ok(rule, C, f"`{norm_src(reads[0])[:50]}` is executed on every import")
    if n < 1:
        rep.ok(rule, URDF, "no function that reads the description found (no verdict)", verdict="unknown", trivial=True)


def requested_coordinate_verbatim(ctx, rule="C28.R14"):
    """"reports the requested joint coordinates": Revolute reports angle0 + accumulated rotation, so the importer has to hand over the
    requested angle unchanged.  The rotation built from it is 2 pi periodic - poses and constraints cannot tell a wrapped angle from the
    request, only the reported coordinate can.  K1 reaching definitions at the store `kwargs_joint["angle0"] = <x>`."""
    from ..cfg import CFG
    from ..dataflow import ReachingDefs
    rep = ctx.rep
    fn = ctx.repo.get(URDF, "joint_kinematics")
    C = f"{URDF}:joint_kinematics"
    cfg = CFG(fn)
    rd = ReachingDefs(cfg)
    stores = [n for n in cfg.nodes if n.kind == "stmt" and isinstance(n.ast, ast.Assign) and len(n.ast.targets) == 1 and isinstance(n.ast.targets[0], ast.Subscript)
              and isinstance(n.ast.targets[0].slice, ast.Constant) and n.ast.targets[0].slice.value in ("angle0",)]
    if not stores:
        rep.ok(rule, C, "no hand-off of angle0 found (no verdict)", verdict="unknown", trivial=True)
        return
    CONV = {"float", "float64", "asarray", "asanyarray", "array", "squeeze", "item"}

    def verbatim(e, node, depth=0):
        """None if e is the request / a default / a conversion of those; else the offending sub-expression"""
        if depth > 6:
            return e
        if isinstance(e, ast.Constant) and isinstance(e.value, (int, float)):
            return None
        if isinstance(e, ast.Subscript) and isinstance(e.value, ast.Name) and e.value.id in ("configuration", "velocities"):
            return None
        if isinstance(e, ast.Call) and (dotted(e.func) or "").split(".")[-1] in CONV and len(e.args) == 1:
            return verbatim(e.args[0], node, depth + 1)
        if isinstance(e, ast.Name):
            for d in rd.defs_reaching(node, e.id):
                if d.kind != "stmt" or not isinstance(d.ast, ast.Assign):
                    return e
                r = verbatim(d.ast.value, d, depth + 1)
                if r is not None:
                    return r
            return None
        return e
    for st in stores:
        bad = verbatim(st.ast.value, st)
        if bad is None:
            rep.ok(rule, C, f"`{norm_src(st.ast)}`: every reaching definition is the requested coordinate, its default or a conversion")
        else:
            rep.bad(rule, C, getattr(bad, "_stmt", None) or st.ast, f"the coordinate handed to the joint (`{norm_src(st.ast)}`) can come from `{norm_src(bad)[:70]}`, which is not the requested value: the joint "
                    "reports another coordinate than requested (a wrapped angle differs by whole turns) although poses and constraints are satisfied", f"{URDF}:{getattr(bad, 'lineno', st.lineno)}")


def run(ctx):
    rep = ctx.rep
    rep.rule("C28.R16", "the importer reaches every link whatever the order of the <link> elements: the tree is traversed with a worklist that is closed under 'child of a processed link' (children are appended), not in one pass over the document's link list", 1)
    traversal_is_worklist(ctx)
    rep.rule("C28.R15", "the importer builds the system of the robot the file describes NOW: no function of the URDF module that reads or parses the file is memoised (a cache keyed by the path returns the robot that used to be in the file)", 1)
    parse_not_memoised(ctx)
    rep.rule("C28.R14", "the joint coordinate handed to the joint object (angle0 of revolute / continuous joints) is the requested value itself: every definition that reaches the hand-off is the request, its default or a type conversion - no wrapping, offset or scaling", 1)
    requested_coordinate_verbatim(ctx)
    rep.rule("C28.R1", "joint constructor conformance per branch", 4)
    rep.rule("C28.R2", "definite assignment of joint_kinematics' outputs", 6)
    rep.rule("C28.R3", "class-level calls resolve", 2)
    rep.rule("C28.R4", "supported joint types have branches; classes imported", 6)
    rep.rule("C28.R5", "body constructor conformance", 2)
    rep.rule("C28.R8", "basis-tag typing of the forward-kinematics products (K15)", 25)
    basis_typing(ctx)
    rep.rule("C28.R7", "axis-bearing joint types build the joint frame and the child's relative motion from joint.axis (taint)", 6)
    axis_used(ctx)
    rep.rule("C28.R13", "the pose helpers the importer uses for floating joints (RigidBody.q2pose / pose2q) build rotations with the normalising quaternion map: a requested quaternion need not be unit", 4)
    from .c11 import normalising_rule
    normalising_rule(ctx, "C28.R13", lambda rel: rel == "cardillo/discrete/rigid_body.py", 4)
    rep.rule("C28.R12", "links are resolved through the importer's own table, not through the System's single name registry (URDF: separate name spaces for links and joints)", 1)
    link_lookup(ctx)
    rep.rule("C28.R11", "rpy_to_A composes URDF's fixed-axis roll-pitch-yaw as Rz(yaw) Ry(pitch) Rx(roll) (signed-monomial normal form of the nine entries)", 1)
    rpy_convention(ctx)
    rep.rule("C28.R10", "transport terms of absolute velocities use absolute angular velocities (naming convention X_omega_YZ: Y = I)", 2)
    transport_rule(ctx)
    rep.rule("C28.R9", "a joint's optional <axis> element is read with URDF's default", 1)
    default_axis(ctx)
    rep.rule("C28.R6", "relative pose and velocity of the child are invariant under scaling of the URDF axis (degree analysis)", 8)
    axis_invariance(ctx)
    model = ctx.model
    mod = ctx.repo.module(URDF)
    fn = ctx.repo.get(URDF, "joint_kinematics")
    C = f"{URDF}:joint_kinematics"
    imported = set()
    for n in ast.walk(mod.tree):
        if isinstance(n, ast.ImportFrom):
            imported |= {a.asname or a.name for a in n.names}
    # top-level if/elif chain on joint.type
    chain = None
    pre_keys = set()
    for s in fn.body:
        if isinstance(s, ast.Assign) and isinstance(s.targets[0], ast.Subscript) and dotted(s.targets[0].value) == "kwargs_joint" \
                and isinstance(s.targets[0].slice, ast.Constant):
            pre_keys.add(s.targets[0].slice.value)
        if isinstance(s, ast.If) and "joint.type" in norm_src(s.test):
            chain = s
    if chain is None:
        raise AnalysisError("joint.type dispatch not found in joint_kinematics")
    branches = []
    cur = chain
    while True:
        types = [c.value for c in ast.walk(cur.test) if isinstance(c, ast.Constant) and isinstance(c.value, str)]
        branches.append((types, cur.body, cur))
        if len(cur.orelse) == 1 and isinstance(cur.orelse[0], ast.If) and "joint.type" in norm_src(cur.orelse[0].test):
            cur = cur.orelse[0]
        else:
            break
    # caller adds subsystem1 / subsystem2 under `if JointType is not None`
    caller = ctx.repo.get(URDF, "system_from_urdf")
    caller_keys = set()
    for n in ast.walk(caller):
        if isinstance(n, ast.Assign) and isinstance(n.targets[0], ast.Subscript) and dotted(n.targets[0].value) == "kwargs_joint" \
                and isinstance(n.targets[0].slice, ast.Constant):
            caller_keys.add(n.targets[0].slice.value)
    seen_types = set()
    for types, body, node in branches:
        seen_types |= set(types)
        jt = None
        keys = set(pre_keys)
        for s in body:
            for n in ast.walk(s):
                if isinstance(n, ast.Assign):
                    for t in n.targets:
                        if isinstance(t, ast.Name) and t.id == "JointType":
                            jt = norm_src(n.value)
                        if isinstance(t, ast.Subscript) and dotted(t.value) == "kwargs_joint" and isinstance(t.slice, ast.Constant):
                            keys.add(t.slice.value)
        Cb = f"{C}[{'/'.join(types)}]"
        if jt is None:
            rep.note(f"C28.R1: branch {types} binds no JointType (see R2)")
            continue
        if jt == "None":
            rep.ok("C28.R1", Cb, "JointType = None (no joint added)", trivial=True)
            continue
        if not model.has_cls(jt):
            rep.bad("C28.R1", Cb, f"JointType = {jt}", f"`{jt}` is not a class of cardillo", f"{URDF}:{node.lineno}")
            continue
        if jt not in imported:
            rep.bad("C28.R4", Cb, f"JointType = {jt}", f"`{jt}` is used but not imported in {URDF} (NameError)", f"{URDF}:{node.lineno}")
        req, acc, haskw = ctor_signature(model, jt)
        allk = keys | caller_keys
        unknown = sorted(k for k in allk if k not in acc and not haskw)
        missing = sorted(k for k in req if k not in allk)
        if unknown or missing:
            why = (f"passes keyword(s) {unknown} that {jt}.__init__ does not accept" if unknown else "") + \
                  (f"{' and ' if unknown else ''}omits required parameter(s) {missing}" if missing else "")
            rep.bad("C28.R1", Cb, f"{jt}(**{sorted(allk)})", f"joint type {types}: {why} (TypeError when the joint is constructed)", f"{URDF}:{node.lineno}")
        else:
            rep.ok("C28.R1", Cb, f"{jt}(**{sorted(allk)}) matches its constructor")
    # R4 supported types
    for t in SUPPORTED:
        if t in seen_types:
            rep.ok("C28.R4", C, f"joint type '{t}' has a branch")
        else:
            rep.bad("C28.R4", C, f"joint.type == '{t}'", f"supported joint type '{t}' has no branch in joint_kinematics", f"{URDF}:{chain.lineno}")
    # R2 definite assignment at the return
    cfg = CFG(fn)
    rd = ReachingDefs(cfg)
    rets = [n for n in cfg.nodes if n.kind == "stmt" and isinstance(n.ast, ast.Return) and n.ast.value is not None]
    if not rets:
        raise AnalysisError("joint_kinematics has no return")
    ret = rets[-1]
    for nm in [x.id for x in ast.walk(ret.ast.value) if isinstance(x, ast.Name)]:
        def is_def(n2, nm=nm):
            return nm in rd.du[n2.id][0]
        path = cfg.find_path([cfg.entry], ret, blocked=is_def)
        if nm in rd.params:
            path = None
        if path is None:
            rep.ok("C28.R2", C, f"`{nm}` is bound on every path to the return")
        else:
            tests = [p for p in path if p.kind == "test"]
            where = tests[-1] if tests else ret
            rep.bad("C28.R2", C, f"return: {nm}", f"`{nm}` is unbound at the return on the path through `{norm_src(where.ast)[:60]}` "
                    f"(line {where.lineno}) (UnboundLocalError for that joint type)", f"{URDF}:{where.lineno}")
    # R3 class-level calls in the module
    n3 = 0
    for n in ast.walk(mod.tree):
        if isinstance(n, ast.Call) and isinstance(n.func, ast.Attribute) and isinstance(n.func.value, ast.Name) and model.has_cls(n.func.value.id) \
                and n.func.value.id in imported:
            cname, m = n.func.value.id, n.func.attr
            ci = model.cls(cname)
            c, f2 = model.find_method(ci, m)
            Cc = f"{URDF}:{cname}.{m}"
            n3 += 1
            if f2 is None:
                rep.bad("C28.R3", Cc, n, f"`{cname}.{m}` does not exist (AttributeError)", f"{URDF}:{n.lineno}")
                continue
            static = any(norm_src(d) in ("staticmethod", "classmethod") for d in f2.decorator_list)
            mn, mx, kws, haskw = arity(f2)
            off = 1 if any(norm_src(d) == "classmethod" for d in f2.decorator_list) else 0
            npos = len(n.args)
            if not static:
                rep.bad("C28.R3", Cc, n, f"`{cname}.{m}` is an instance method but is called on the class", f"{URDF}:{n.lineno}")
            elif npos < mn - off or (mx is not None and npos > mx - off):
                rep.bad("C28.R3", Cc, n, f"`{cname}.{m}` takes {mn - off}..{mx} arguments, {npos} given", f"{URDF}:{n.lineno}")
            else:
                rep.ok("C28.R3", Cc, norm_src(n))
    # R5 bodies: kwargs_body literal dict / key stores, for the plain classes
    for cname in ("RigidBody", "Frame"):
        req, acc, haskw = ctor_signature(model, cname)
        # keys assigned where BodyType = cname is in force: collected per function region (approximation: all keys in the
        # same if-branch as `BodyType = cname`, plus dict literals assigned to kwargs_body before)
        for n in ast.walk(caller):
            if isinstance(n, ast.Assign) and any(isinstance(t, ast.Name) and t.id == "BodyType" for t in n.targets) and norm_src(n.value) == cname:
                from ..core import parent
                blk = parent(n)
                keys = set()
                for fld in ("body", "orelse"):
                    b = getattr(blk, fld, [])
                    if isinstance(b, list) and any(s is n for s in b):
                        for s in b:
                            for x in ast.walk(s):
                                if isinstance(x, ast.Assign) and isinstance(x.targets[0], ast.Subscript) and dotted(x.targets[0].value) == "kwargs_body" \
                                        and isinstance(x.targets[0].slice, ast.Constant):
                                    keys.add(x.targets[0].slice.value)
                unknown = sorted(k for k in keys if k not in acc and not haskw)
                Cb = f"{URDF}:system_from_urdf[{cname}]"
                if unknown:
                    rep.bad("C28.R5", Cb, f"{cname}(**{sorted(keys)})", f"{cname}.__init__ does not accept {unknown}", f"{URDF}:{n.lineno}")
                else:
                    rep.ok("C28.R5", Cb, f"keys {sorted(keys)} accepted by {cname}.__init__")


PR = "cardillo/constraints/prismatic.py"
MUTANTS = [
    dict(id="c28-m1", canary=True, what="Prismatic loses its name parameter (original defect)", file=PR,
         old="        xi2=None,\n        name=\"prismatic_joint\",\n    ):", new="        xi2=None,\n    ):", expect="C28.R1"),
    dict(id="c28-m2", canary=True, what="planar branch binds no JointType (original defect)", file=URDF,
         old="    elif joint.type == \"planar\":\n        JointType = Planarizer\n", new="    elif joint.type == \"planar\":\n", expect="C28.R2"),
    dict(id="c28-m3", what="RigidBody.q2pose missing (original defect)", file="cardillo/discrete/rigid_body.py",
         old="    @staticmethod\n    def q2pose(q):", new="    @staticmethod\n    def q2pose_(q):", expect="C28.R3"),
    dict(id="c28-m4", what="revolute branch passes `angle` instead of `angle0`", file=URDF,
         old="        kwargs_joint[\"angle0\"] = angle\n", new="        kwargs_joint[\"angle\"] = angle\n", expect="C28.R1"),
    dict(id="c28-m5", what="continuous joints dropped from the revolute branch", file=URDF,
         old="    elif joint.type in [\"continuous\", \"revolute\"]:", new="    elif joint.type in [\"revolute\"]:", expect="C28.R4"),
    dict(id="c28-m6", what="prismatic branch forgets the axis", file=URDF,
         old="        # now prismatic joint is along x-axis of J-frame\n        kwargs_joint[\"axis\"] = 0\n", new="        # now prismatic joint is along x-axis of J-frame\n", expect="C28.R1"),
    dict(id="c28-m7", what="floating branch: velocity defaults only bound when a velocity is given", file=URDF,
         old="        else:\n            J_v_JRc = np.zeros(3)\n            J_omega_JRc = np.zeros(3)\n\n    elif joint.type == \"prismatic\":",
         new="\n    elif joint.type == \"prismatic\":", expect="C28.R2"),
]
MUTANTS += [
    dict(id="c28-r6-seed", canary=True, what="[seeded by sub-agent] prismatic joint: displacement and velocity along the raw (not normalised) URDF axis", file=URDF,
         edits=[(URDF, "        J_r_JRc = displacement * e1\n", "        J_r_JRc = displacement * axis\n"), (URDF, "        J_v_JRc = velocity * e1\n", "        J_v_JRc = velocity * axis\n")],
         expect="C28.R6"),
    dict(id="c28-r6-2", what="revolute joint: angular velocity along the raw axis (nothing normalises it before)", file=URDF,
         old="        J_omega_JRc = angle_dot * e1\n", new="        J_omega_JRc = angle_dot * axis\n", expect="C28.R6"),
    dict(id="c28-r6-3", what="prismatic joint: displacement divided by the axis length twice", file=URDF,
         old="        J_r_JRc = displacement * e1\n", new="        J_r_JRc = displacement * e1 / norm(axis)\n", expect="C28.R6"),
]
MUTANTS += [
    dict(id="c28-r7-orig", canary=True, what="planar joint: plane normal fixed to the z-axis of the joint frame (original defect)", file=URDF,
         edits=[(URDF, "        kwargs_joint[\"A_IJ0\"] = parent.A_IR @ A_RpJ @ A_JJ_new\n\n        # use state of the joint to compute child state relative to joint\n        if joint.name in configuration:\n            x, y =",
                 "        kwargs_joint[\"A_IJ0\"] = parent.A_IR @ A_RpJ\n\n        # use state of the joint to compute child state relative to joint\n        if joint.name in configuration:\n            x, y ="),
                (URDF, "        J_r_JRc = x * e1 + y * e2\n", "        J_r_JRc = np.array([x, y, 0.0])\n"), (URDF, "        J_v_JRc = vx * e1 + vy * e2\n", "        J_v_JRc = np.array([vx, vy, 0.0])\n")],
         expect="C28.R7"),
    dict(id="c28-r7-2", what="prismatic joint displaced along the joint frame's x-axis instead of the URDF axis", file=URDF,
         old="        J_r_JRc = displacement * e1\n", new="        J_r_JRc = displacement * np.array([1.0, 0.0, 0.0])\n", expect="C28.R7"),
]
MUTANTS += [
    dict(id="c28-r8-seed", canary=True, what="[seeded by sub-agent] centre of mass rotated with the inertial basis A_IB instead of the link basis A_IR", file=URDF,
         edits=[(URDF, "                child.r_OC = child.r_OR + child.A_IR @ R_r_RC", "                child.r_OC = child.r_OR + child.A_IB @ R_r_RC")], expect="C28.R8"),
    dict(id="c28-r8-2", what="child angular velocity: parent's angular velocity not rotated into the joint frame", file=URDF,
         old="            J_omega_IRc = A_RpJ.T @ parent.R_omega_IR + J_omega_JRc", new="            J_omega_IRc = parent.R_omega_IR + J_omega_JRc", expect="C28.R8"),
    dict(id="c28-r8-3", what="child orientation composed in the wrong order", file=URDF,
         old="            child.A_IR = parent.A_IR @ A_RpJ @ A_JRc", new="            child.A_IR = parent.A_IR @ A_JRc @ A_RpJ", expect="C28.R8"),
]
NEUTRAL = [
    dict(id="c28-n-r8", what="child orientation composed through a named joint rotation", file=URDF,
         old="            child.A_IR = parent.A_IR @ A_RpJ @ A_JRc", new="            A_IJ = parent.A_IR @ A_RpJ\n            child.A_IR = A_IJ @ A_JRc"),
    dict(id="c28-n1", canary=True, what="revolute joint: axis normalised in place by axis_angle_to_A, then used for the angular velocity", file=URDF,
         edits=[(URDF, "        A_JRc = axis_angle_to_A(e1, angle)\n", "        A_JRc = axis_angle_to_A(axis, angle)\n"), (URDF, "        J_omega_JRc = angle_dot * e1\n", "        J_omega_JRc = angle_dot * axis\n")]),
    dict(id="c28-n2", what="prismatic joint: unit direction through a helper-free normalisation of a copy", file=URDF,
         old="        J_r_JRc = displacement * e1\n", new="        direction = axis.copy()\n        direction /= norm(direction)\n        J_r_JRc = displacement * direction\n"),
]
MUTANTS += [
    dict(id="c28-r9-1", canary=True, what="joint axis read without URDF's default (original defect F47)", file=URDF,
         old="    axis = (1.0, 0.0, 0.0) if joint.axis is None else joint.axis\n    return np.asanyarray(axis, dtype=np.float64)\n",
         new="    return np.asanyarray(joint.axis, dtype=np.float64)\n", expect="C28.R9"),
]
NEUTRAL += [
    dict(id="c28-n-r9", what="default axis spelled with `is not None`", file=URDF,
         old="    axis = (1.0, 0.0, 0.0) if joint.axis is None else joint.axis\n",
         new="    axis = joint.axis if joint.axis is not None else (1.0, 0.0, 0.0)\n"),
]
MUTANTS += [
    dict(id="c28-r10-seed", canary=True, what="[seeded by sub-agent] child velocity transported with the relative joint angular velocity", file=URDF,
         old="                + A_RpJ @ (J_v_JRc + cross3(J_omega_IRc, J_r_JRc))\n", new="                + A_RpJ @ (J_v_JRc + cross3(J_omega_JRc, J_r_JRc))\n", expect="C28.R10"),
]
MUTANTS += [
    dict(id="c28-r11-seed", canary=True, what="[seeded by sub-agent] rpy_to_A as a product of basic rotations in the reverse order", file=URDF,
         old="    rpy = np.asanyarray(rpy, dtype=np.float64)\n    c3, c2, c1 = np.cos(rpy)\n",
         new="    roll, pitch, yaw = np.asanyarray(rpy, dtype=np.float64)\n    return A_IB_basic(roll).x @ A_IB_basic(pitch).y @ A_IB_basic(yaw).z\n    c3, c2, c1 = np.cos(rpy)\n", expect="C28.R11"),
    dict(id="c28-r11-2", what="rpy_to_A: one sign of the literal matrix flipped", file=URDF,
         old="            [-s2, c2 * s3, c2 * c3],\n", new="            [s2, c2 * s3, c2 * c3],\n", expect="C28.R11"),
]
NEUTRAL += [
    dict(id="c28-n-r11", canary=True, what="rpy_to_A as the product Rz(yaw) Ry(pitch) Rx(roll) of basic rotations", file=URDF,
         old="    rpy = np.asanyarray(rpy, dtype=np.float64)\n    c3, c2, c1 = np.cos(rpy)\n",
         new="    roll, pitch, yaw = np.asanyarray(rpy, dtype=np.float64)\n    return A_IB_basic(yaw).z @ A_IB_basic(pitch).y @ A_IB_basic(roll).x\n    c3, c2, c1 = np.cos(rpy)\n"),
]
MUTANTS += [
    dict(id="c28-r12-orig", canary=True, what="joint subsystems looked up in system.contributions_map (original defect F52)", file=URDF,
         old="                kwargs_joint[\"subsystem2\"] = bodies[child.name]\n", new="                kwargs_joint[\"subsystem2\"] = system.contributions_map[child.name]\n", expect="C28.R12"),
]
MUTANTS += [
    dict(id="c28-r13-seed", canary=True, what="[seeded by sub-agent] RigidBody.q2pose skips the quaternion normalisation", file="cardillo/discrete/rigid_body.py",
         old="        return q[:3], Exp_SO3_quat(q[3:])\n", new="        return q[:3], Exp_SO3_quat(q[3:], normalize=False)\n", expect="C28.R13"),
]

MUTANTS += [
    dict(id="c28-r14-seed", canary=True, what="[seeded by sub-agent] continuous joints: requested angle wrapped into (-pi, pi] before it is handed to Revolute", file=URDF,
         old='        kwargs_joint["angle0"] = angle\n', new='        if joint.type == "continuous":\n            angle = np.arctan2(np.sin(angle), np.cos(angle))\n        kwargs_joint["angle0"] = angle\n', expect="C28.R14"),
]
NEUTRAL += [
    dict(id="c28-n-r14", canary=True, what="revolute branch: requested angle read through np.float64", file=URDF,
         old="            angle = float(configuration[joint.name])\n", new="            angle = np.float64(configuration[joint.name])\n"),
]

MUTANTS += [
    dict(id="c28-r15-seed", canary=True, what="[seeded by sub-agent] the URDF parse step is memoised with functools.lru_cache keyed by the resolved path", file=URDF,
         edits=[(URDF, "\ndef system_from_urdf(", "\nfrom functools import lru_cache\n\n\n@lru_cache(maxsize=None)\ndef parse_urdf(file_path):\n    return URDF.from_xml_file(file_path)\n\n\ndef system_from_urdf("),
                (URDF, "    urdf = URDF.from_xml_file(file_path)\n", "    urdf = parse_urdf(str(file_path))\n")], expect="C28.R15"),
]

MUTANTS += [
    dict(id="c28-r16-seed", canary=True, what="[seeded by sub-agent] the kinematic tree is traversed in one pass over urdf.links (document order) instead of a worklist", file=URDF,
         old='    links_to_process = [root]\n    while links_to_process:\n        parent = links_to_process.pop(0)\n        if parent.name not in urdf.child_map:\n', new='    links_to_process = []\n    for parent in urdf.links:\n        if parent.name not in bodies or parent.name not in urdf.child_map:\n', expect="C28.R16"),
]
