"""C24  Restarting a simulation from an intermediate state reproduces the run.

Structural clauses decided ("re-initialising a system does not change the model it describes"):
 R1 joint frames defined once   in every joint assembler_callback, the body-fixed joint data handed to auxiliary_functions
                                must not be re-derived from the subsystems' *current* initial state (q0/t0) together with
                                world-frame joint data that was persisted under a once-only guard (self.r_OJ0, self.A_IJ0):
                                either everything is recomputed from the current state, or the body-fixed data is itself
                                persisted once
 R2 history state               tracking state that a query method updates (Revolute.n_full_rotations, previous_quadrant) is
                                not unconditionally re-initialised by assembler_callback
 R6 tracking-state atomicity    fields that one query method updates together are re-initialised together by __init__ /
                                assembler_callback / reset (never one without the other)
 R3 set_new_initial_state       writes q0 / u0 of every contribution having nq / nu from its own my_qDOF / my_uDOF slice,
                                takes over t0, and re-assembles; deepcopy copies the whole system
 R4 contact data                contact assembler_callbacks recompute only DOF bookkeeping, glue lambdas and quantities
                                derived purely from the new state (listed informationally)
"""
from __future__ import annotations

import ast

from ..core import AnalysisError, dotted, norm_src, walk_no_nested
from ..cfg import CFG
from ..dataflow import ReachingDefs
from ..model import guards_of

EXPLANATION = ("Provenance analysis inside the joint assembler_callbacks (which values flow into auxiliary_functions: "
               "current initial state, once-only persisted attributes), effect analysis of assembler_callback on state "
               "that query methods mutate, and structural checks of System.set_new_initial_state / deepcopy.")
NOT_DECIDED = "equality of split and uninterrupted trajectories (needs the runs); solver-internal warm-start state."
ASSUMPTIONS = ["a restart hands the reached (q, u, t) to set_new_initial_state, which re-runs every assembler_callback"]
BLIND_SPOTS = ["data that changes meaning only numerically (e.g. FixedDistance.dist recomputed within solver tolerance)"]
BASE = "cardillo/constraints/_base.py"
SYS = "cardillo/system.py"


def _once_guard(g):
    """guards that make a store once-only: `self.X is None`, `not hasattr(self, 'X')`."""
    for (txt, pol) in g:
        if pol and (txt.endswith(" is None") and txt.startswith("self.")):
            return True
        if pol and txt.startswith("not hasattr(self"):
            return True
        if (not pol) and txt.startswith("hasattr(self"):
            return True
    return False


def default_resolution(ctx):
    """A force law whose reference length defaults to l(t0, q0) is the same model after a restart only if the default is
    resolved at the FIRST assembly and kept: the store must sit under `if self.X is None` for the very attribute X it assigns
    (afterwards X is not None any more).  A store into another attribute under that guard is executed at every re-assembly."""
    rep = ctx.rep
    n = 0
    for ci in ctx.model.all_classes():
        if not ci.rel.startswith("cardillo/force_laws/"):
            continue
        fn = ci.methods.get("assembler_callback")
        if fn is None:
            continue
        C = f"{ci.rel}:{ci.qual}.assembler_callback"
        for st in walk_no_nested(fn):
            if not isinstance(st, ast.Assign):
                continue
            for tg in st.targets:
                if not (isinstance(tg, ast.Attribute) and dotted(tg.value) == "self"):
                    continue
                reads = {dotted(w) for w in ast.walk(st.value) if isinstance(w, ast.Attribute) and dotted(w)}
                state = sorted(r for r in reads if r and r.split(".")[-1] in ("q0", "u0", "t0") and ".subsystem" in r)
                if not state:
                    continue
                n += 1
                gs = guards_of(st, fn)
                own = any(pol and txt == f"self.{tg.attr} is None" for (txt, pol) in gs) or \
                    any(pol and txt.startswith("not hasattr(self") and f"'{tg.attr}'" in txt.replace('"', "'") for (txt, pol) in gs)
                if own:
                    rep.ok("C24.R7", C, f"self.{tg.attr} <- {', '.join(state)} under `self.{tg.attr} is None`: resolved at the first assembly only")
                else:
                    rep.bad("C24.R7", C, st, f"`self.{tg.attr}` is derived from the subsystem's initial state ({', '.join(state)}) on EVERY assembly (guards: "
                            f"{[t for t, p in gs] or 'none'}): after set_new_initial_state the force law gets a new reference value, i.e. the restarted system is another model",
                            f"{ci.rel}:{st.lineno}")
    n_cb = sum(1 for ci in ctx.model.all_classes() if ci.rel.startswith("cardillo/force_laws/") and "assembler_callback" in ci.methods)
    if n_cb < 2:
        raise AnalysisError(f"C24.R7: only {n_cb} force-law assembler callbacks found")
    if n == 0:
        # the callbacks exist but none derives a datum from the subsystem's initial state any more (e.g. the default moved into the subsystem)
        rep.note("C24.R7: no force-law datum is derived from the subsystem's q0 / t0 / u0 in an assembler callback (nothing to guard)")
        for _ in range(3):
            rep.ok("C24.R7", "cardillo/force_laws", "no default derived from the initial state in the force-law callbacks", trivial=True)


def restart_tolerance(ctx):
    """A restart hands a state PRODUCED BY A SOLVER back to System.assemble, whose consistency asserts reject |g|, |g_dot|, ... above IS_CLOSE_ATOL.
    The fixed-step solvers enforce the constraints to their Newton / fixed-point tolerance (SolverOptions defaults) - Moreau only on velocity
    level.  If the rejection threshold is tighter than the default solver tolerance, a state reached with default options is refused as a new
    initial state ("Initial conditions do not fulfill g0!") and the restarted run does not exist.  Both numbers are constants in the source."""
    rep = ctx.rep
    dfn = ctx.repo.modules.get("cardillo/definitions.py")
    so = ctx.repo.modules.get("cardillo/solver/solver_options.py")
    if dfn is None or so is None:
        raise AnalysisError("cardillo/definitions.py or solver_options.py vanished")
    def const(mod, name):
        for n in ast.walk(mod.tree):
            if isinstance(n, ast.Assign) and any(isinstance(t, ast.Name) and t.id == name for t in n.targets) and isinstance(n.value, ast.Constant):
                return n.value.value, n
            if isinstance(n, ast.AnnAssign) and isinstance(n.target, ast.Name) and n.target.id == name and isinstance(n.value, ast.Constant):
                return n.value.value, n
        return None, None
    atol, an = const(dfn, "IS_CLOSE_ATOL")
    used = any(isinstance(w, ast.Name) and w.id == "IS_CLOSE_ATOL" for w in ast.walk(ctx.repo.get("cardillo/solver/_base.py", "consistent_initial_conditions")))
    if atol is None or not used:
        raise AnalysisError("IS_CLOSE_ATOL (threshold of the consistency asserts) not found")
    for name in ("newton_atol", "fixed_point_atol"):
        v, vn = const(so, name)
        if v is None:
            raise AnalysisError(f"default of SolverOptions.{name} not found")
        C = "cardillo/definitions.py:IS_CLOSE_ATOL"
        if atol >= v:
            rep.ok("C24.R9", C, f"rejection threshold {atol} is not tighter than the default {name} = {v}")
        else:
            rep.bad("C24.R9", C, f"IS_CLOSE_ATOL = {atol} < SolverOptions.{name} = {v}", f"the consistency asserts of System.assemble reject constraint residuals above {atol}, but the solvers "
                    f"enforce them only to the default {name} = {v} (Moreau not at all on position level): a state reached with default options is refused as new initial state "
                    "(`Initial conditions do not fulfill g0!`), so the restarted run of C24 cannot even start for Rattle, Moreau and BackwardEuler on a constrained system",
                    f"cardillo/definitions.py:{an.lineno}")


def optional_by_none(ctx):
    """The restart time is an OPTIONAL NUMBER: "not given" is `None`, and 0.0 is a perfectly good time.  `t0 or self.t0` / `t0 if t0 else ...` treat a
    restart at t0 = 0.0 as "not given" and keep the time of the previous run, so a system that ran from t0 = 1 and is re-initialised with the
    state of another run at t = 0 continues with prescribed motions and loads evaluated one time unit late."""
    rep = ctx.rep
    mod = ctx.repo.module(SYS)
    n = 0
    for q, fn in mod.defs().items():
        if not isinstance(fn, ast.FunctionDef) or not q.startswith("System."):
            continue
        args = fn.args.args
        defaults = dict(zip([a.arg for a in args[len(args) - len(fn.args.defaults):]], fn.args.defaults))
        optional = {k for k, d in defaults.items() if isinstance(d, ast.Constant) and d.value is None}
        numeric = {k for k in optional if k in ("t0", "t", "t1", "dt", "q0", "u0") or k.startswith(("la_", "u_dot", "q_dot"))}
        if not numeric:
            continue
        C = f"{SYS}:{q}"
        for w in ast.walk(fn):
            bad = None
            if isinstance(w, ast.BoolOp) and isinstance(w.op, ast.Or) and isinstance(w.values[0], ast.Name) and w.values[0].id in numeric:
                bad = w.values[0].id
            if isinstance(w, ast.IfExp) and isinstance(w.test, ast.Name) and w.test.id in numeric:
                bad = w.test.id
            if isinstance(w, ast.If) and isinstance(w.test, (ast.Name, ast.UnaryOp)) and isinstance(getattr(w.test, "operand", w.test), ast.Name) \
                    and getattr(w.test, "operand", w.test).id in numeric:
                bad = getattr(w.test, "operand", w.test).id
            if bad:
                n += 1
                rep.bad("C24.R8", C, w, f"`{norm_src(w)[:60]}` decides by truthiness whether the optional `{bad}` was given: `{bad} = 0` (a restart at time zero, a zero state) counts as "
                        "\"not given\" and the previous value is kept", f"{SYS}:{w.lineno}")
            elif isinstance(w, ast.Compare) and isinstance(w.left, ast.Name) and w.left.id in numeric and any(isinstance(o, (ast.Is, ast.IsNot)) for o in w.ops):
                n += 1
                rep.ok("C24.R8", C, f"`{norm_src(w)}`: optional `{w.left.id}` tested against None")
    if n < 1:
        # nothing to judge (e.g. the optional time is ignored altogether - which C24.R3 reports); the rule's floor notes the absence
        rep.ok("C24.R8", f"{SYS}:System", "no test of an optional numeric argument found (no verdict)", verdict="unknown", trivial=True)


def closures_on_stateful_receivers(ctx, rule="C24.R11"):
    """System.deepcopy copies the object graph; `self.l = self.subsystem.l` (a bound method) is re-bound to the copied subsystem, a lambda
    `lambda t, q: subsystem.l(t, q)` keeps the ORIGINAL subsystem in its closure cell.  For a pure function of (t, q) that is harmless (the
    copy computes the same values), for a STATEFUL query it is not: `Revolute.l` advances n_full_rotations / previous_quadrant on its
    receiver, so the copy reads - and advances - the original's rotation counter, which its own re-assembly never resets.
    Stateful method names: methods (outside __init__ / assembler_callback / reset / step_callback) that assign an attribute of self."""
    rep = ctx.rep
    SETUP = {"__init__", "assembler_callback", "reset", "step_callback", "export", "set_reference_strains"}
    stateful = {}
    for rel, mod in sorted(ctx.repo.modules.items()):
        if not rel.startswith("cardillo/") or rel.startswith(("cardillo/solver/", "cardillo/visualization/", "cardillo/utility/")) or rel == "cardillo/system.py":
            continue
        for cls in [c for c in ast.walk(mod.tree) if isinstance(c, ast.ClassDef)]:
            for f in [f for f in cls.body if isinstance(f, ast.FunctionDef) and f.name not in SETUP and not f.name.startswith("_")]:
                if any(d for d in f.decorator_list if "setter" in norm_src(d)):
                    continue
                for w in ast.walk(f):
                    if isinstance(w, (ast.Assign, ast.AugAssign)):
                        tg = w.targets if isinstance(w, ast.Assign) else [w.target]
                        if any(isinstance(t, ast.Attribute) and dotted(t.value) == "self" for t in tg):
                            stateful.setdefault(f.name, f"{cls.name}.{f.name}")
    n = 0
    for rel, mod in sorted(ctx.repo.modules.items()):
        if not rel.startswith("cardillo/"):
            continue
        for cls in [c for c in ast.walk(mod.tree) if isinstance(c, ast.ClassDef)]:
            init = [f for f in cls.body if isinstance(f, ast.FunctionDef) and f.name == "__init__"]
            if not init:
                continue
            params = {a.arg for a in init[0].args.args} - {"self"}
            for w in ast.walk(init[0]):
                if not (isinstance(w, ast.Assign) and isinstance(w.value, ast.Lambda) and any(isinstance(t, ast.Attribute) and dotted(t.value) == "self" for t in w.targets)):
                    continue
                lp = {a.arg for a in w.value.args.args}
                calls = [c for c in ast.walk(w.value.body) if isinstance(c, ast.Call) and isinstance(c.func, ast.Attribute) and isinstance(c.func.value, ast.Name)
                         and c.func.value.id in params and c.func.value.id not in lp]
                if not calls:
                    continue
                n += 1
                C = f"{rel}:{cls.name}.__init__"
                bad = [c for c in calls if c.func.attr in stateful]
                if bad:
                    c = bad[0]
                    rep.bad(rule, C, w, f"`{norm_src(w)[:80]}` closes over the constructor argument `{c.func.value.id}` and calls `{c.func.attr}` on it, a query that updates tracking state on its receiver "
                            f"({stateful[c.func.attr]}): after System.deepcopy the copy's element still queries and advances the ORIGINAL object, whose state neither belongs to the restart "
                            "state nor is reset by the copy's re-assembly (use the bound method / self.<attr>, which deepcopy re-binds)", f"{rel}:{w.lineno}")
                else:
                    rep.ok(rule, C, f"`{norm_src(w.targets[0])}` closes over `{calls[0].func.value.id}` and calls only state-free queries ({', '.join(sorted({c.func.attr for c in calls}))})")
    rep.note(f"{rule}: stateful query names: {', '.join(sorted(stateful))}; {n} construction-time closures over constructor arguments")


def gap_reads_no_restart_state(ctx, rule="C24.R12"):
    """"Contact data keep their original meaning": the normal gap g_N (and its rates / derivatives) DEFINES the contact surface.  Whatever
    `assembler_callback` derives from the initial state (`subsystem.q0`, `u0`, `t0`) is re-derived from the restart state by
    set_new_initial_state; the gap routines read none of it (an offset `g_N0 = min(g_N(t0, q0), 0)` subtracted in g_N moves the plane of a
    copy restarted from a slightly penetrating time-stepping state).  Tangent gauges (reference_contact_basis) are not read by the gap."""
    rep = ctx.rep
    n = 0
    for cname in ("Sphere2Plane", "Sphere2Sphere"):
        ci = ctx.model.cls(cname)
        cnode = ci.node
        fns = {f.name: f for f in cnode.body if isinstance(f, ast.FunctionDef)}
        ac = fns.get("assembler_callback")
        if ac is None:
            raise AnalysisError(f"{rule}: {cname}.assembler_callback vanished")
        tainted_loc, tainted_attr = set(), {}
        def is_t(e):
            for w in ast.walk(e):
                if isinstance(w, ast.Lambda):
                    continue
                if isinstance(w, ast.Attribute) and w.attr in ("q0", "u0", "t0"):
                    return True
                if isinstance(w, ast.Name) and w.id in tainted_loc:
                    return True
                if isinstance(w, ast.Attribute) and isinstance(w.value, ast.Name) and w.value.id == "self" and w.attr in tainted_attr:
                    return True
            return False
        for _ in range(3):
            for st in ast.walk(ac):
                if isinstance(st, (ast.Assign, ast.AugAssign)) and not isinstance(st.value, ast.Lambda) and is_t(st.value):
                    for t in (st.targets if isinstance(st, ast.Assign) else [st.target]):
                        for tt in (t.elts if isinstance(t, (ast.Tuple, ast.List)) else [t]):
                            b = tt
                            while isinstance(b, ast.Subscript):
                                b = b.value
                            if isinstance(b, ast.Name):
                                tainted_loc.add(b.id)
                            elif isinstance(b, ast.Attribute) and isinstance(b.value, ast.Name) and b.value.id == "self":
                                tainted_attr.setdefault(b.attr, st)
        lambdas = {}
        for f in fns.values():
            for st in ast.walk(f):
                if isinstance(st, ast.Assign) and isinstance(st.value, ast.Lambda):
                    for t in st.targets:
                        if isinstance(t, ast.Attribute) and isinstance(t.value, ast.Name) and t.value.id == "self":
                            lambdas.setdefault(t.attr, []).append(st.value.body)
        gaps = sorted(k for k in fns if k.startswith("g_N"))
        if not gaps:
            raise AnalysisError(f"{rule}: {cname} has no g_N routines")
        for g in gaps:
            seen, todo, via = set(), [(fns[g], g)], {}
            while todo:
                body, path = todo.pop()
                for w in ast.walk(body):
                    if isinstance(w, ast.Attribute) and isinstance(w.value, ast.Name) and w.value.id == "self" and w.attr not in seen:
                        seen.add(w.attr)
                        via[w.attr] = path
                        if w.attr in lambdas:
                            todo += [(b, f"{path} -> self.{w.attr}") for b in lambdas[w.attr]]
                        elif w.attr in fns and w.attr != "assembler_callback":
                            todo.append((fns[w.attr], f"{path} -> self.{w.attr}"))
            n += 1
            C = f"{ci.rel}:{cname}.{g}"
            hit = sorted(seen & set(tainted_attr))
            if hit:
                a = hit[0]
                st = tainted_attr[a]
                rep.bad(rule, C, st, f"the gap routine reads `self.{a}` (via {via[a]}), which assembler_callback derives from the initial state (`{norm_src(st)[:70]}`): "
                        "set_new_initial_state re-assembles, so a copy restarted from a stored state re-derives it from THAT state and its contact surface is not the original one",
                        f"{ci.rel}:{st.lineno}")
            else:
                rep.ok(rule, C, f"reads {len(seen)} attributes of the contact, none derived from q0 / u0 / t0 at assembly (state-derived: {sorted(tainted_attr) or 'none'})")
    if n < 4:
        raise AnalysisError(f"{rule}: only {n} gap routines found in the contacts")


def run(ctx):
    rep = ctx.rep
    rep.rule("C24.R12", "the normal-gap routines of the contacts (g_N, its rates and derivatives: the contact surface) read nothing that assembler_callback derives from the initial state q0 / u0 / t0", 4)
    gap_reads_no_restart_state(ctx)
    rep.rule("C24.R10", "re-assembly starts from scratch: every attribute System.assemble accumulates into is bound in assemble itself first (set_new_initial_state re-assembles; an accumulator from __init__ doubles the contact / friction data of the re-initialised copy)", 8)
    from .c14 import assemble_accumulators_reset
    assemble_accumulators_reset(ctx, "C24.R10")
    rep.rule("C24.R11", "deep-copy isolation of stateful queries: no callable stored at construction closes over a constructor argument and calls on it a method that updates tracking state on its receiver (copy.deepcopy re-binds bound methods and attributes, not closures)", 10)
    closures_on_stateful_receivers(ctx)
    rep.rule("C24.R1", "body-fixed joint data is not re-derived from new state + once-only world data", 2)
    rep.rule("C24.R2", "query-updated history state is not reset by re-assembly", 1)
    rep.rule("C24.R3", "set_new_initial_state / deepcopy", 5)
    rep.rule("C24.R4", "contact re-assembly", 2)
    rep.rule("C24.R6", "fields of one tracking state are re-initialised together", 2)
    rep.rule("C24.R9", "the rejection threshold of the consistency asserts is not tighter than the tolerance the solvers enforce constraints with by default", 2)
    restart_tolerance(ctx)
    rep.rule("C24.R8", "optional numeric arguments of System (the restart time t0) are recognised by `is None`, not by truthiness", 1)
    optional_by_none(ctx)
    rep.rule("C24.R7", "force-law data defaulted from the initial state (l_ref, ...) is resolved once: the guard tests the attribute that is assigned", 1)
    default_resolution(ctx)
    rep.rule("C24.R5", "registration markers (nq, nu, nla_*) are constructor data", 12)
    model = ctx.model
    # ---- R1
    for cname in ("PositionOrientationBase", "ProjectedPositionOrientationBase"):
        ci = model.cls(cname, BASE)
        fn = ci.methods.get("assembler_callback")
        if fn is None:
            raise AnalysisError(f"{cname}.assembler_callback vanished")
        C = f"{BASE}:{cname}.assembler_callback"
        cfg = CFG(fn)
        rd = ReachingDefs(cfg)
        calls = [n for n in cfg.nodes if n.kind == "stmt" and isinstance(n.ast, ast.Expr) and isinstance(n.ast.value, ast.Call)
                 and dotted(n.ast.value.func) == "auxiliary_functions"]
        if not calls:
            raise AnalysisError(f"{C}: call of auxiliary_functions not found")
        node = calls[0]
        # once-only persisted attributes
        once = set()
        for a, sts in ci.stores.items():
            for s in sts:
                if s.method == "assembler_callback" and _once_guard(s.guards):
                    once.add(a)
        args = [a for a in node.ast.value.args[1:] if isinstance(a, ast.Name)]
        for a in node.ast.value.args[1:]:
            if isinstance(a, ast.Starred) and isinstance(a.value, ast.Attribute) and dotted(a.value.value) == "self":
                attr = a.value.attr
                sts = [s for s in ci.stores.get(attr, []) if s.method == "assembler_callback"]
                if sts and all(_once_guard(s.guards) for s in sts):
                    rep.ok("C24.R1", C, f"auxiliary_functions receives *self.{attr}, persisted once under {sts[0].guards}: "
                           f"{norm_src(sts[0].value) if sts[0].value is not None else ''}")
                else:
                    rep.bad("C24.R1", C, node.ast, f"self.{attr} (body-fixed joint data) is re-written on every assembly", f"{BASE}:{node.lineno}")
        for a in args:
            nodes, params = rd.backward_slice(node, names={a.id})
            reads = rd.attr_reads_in(n for n in nodes if n is not node)
            state = sorted(r for r in reads if r.endswith(".q0") or r.endswith(".t0") or r.endswith(".u0"))
            persisted = sorted(r for r in reads if r.startswith("self.") and r[5:] in once)
            defs = [d for d in rd.defs_reaching(node, a.id)]
            guarded = all(_once_guard(guards_of(d.ast, fn)) for d in defs if d.ast is not None and d.kind == "stmt"
                          and not _is_trivial_default(d.ast))
            if state and persisted and not guarded:
                rep.bad("C24.R1", C, f"{a.id} <- {', '.join(persisted)} ; {', '.join(state[:2])}",
                        f"`{a.id}` (body-fixed joint data captured by auxiliary_functions) is recomputed on every assembly from the subsystems' current "
                        f"initial state ({state[0]}, …) and from {persisted}, which keep the values of the FIRST assembly: after set_new_initial_state "
                        f"the joint frame is re-derived from an old world-frame pose and a new body pose, i.e. the model changes",
                        f"{BASE}:{node.lineno}")
            else:
                rep.ok("C24.R1", C, f"{a.id}: state reads {state[:2]}, once-only data {persisted}, guarded={guarded}")
    # ---- R2
    for c2 in model.all_classes():
        if not c2.rel.startswith(("cardillo/constraints/", "cardillo/contacts/", "cardillo/interactions/", "cardillo/force_laws/")):
            continue
        ac = c2.methods.get("assembler_callback")
        if ac is None:
            continue
        # history state: attributes updated (AugAssign or assignment reading itself / a local derived per query) by methods taking (t, q ...)
        hist = set()
        for mname, m in c2.methods.items():
            if mname in ("__init__", "assembler_callback", "reset", "step_callback"):
                continue
            ps = [a.arg for a in m.args.args]
            if "q" not in ps:
                continue
            for n in walk_no_nested(m):
                if isinstance(n, ast.AugAssign) and isinstance(n.target, ast.Attribute) and dotted(n.target.value) == "self":
                    hist.add(n.target.attr)
                if isinstance(n, ast.Assign):
                    for t in n.targets:
                        if isinstance(t, ast.Attribute) and dotted(t.value) == "self":
                            hist.add(t.attr)
        # methods that assembler_callback calls unconditionally on self (self.reset()) re-initialise on every assembly as well
        delegated = {norm_src(st.value.func)[5:] for st in ac.body if isinstance(st, ast.Expr) and isinstance(st.value, ast.Call) and norm_src(st.value.func).startswith("self.")
                     and norm_src(st.value.func)[5:] in c2.methods}
        for a in sorted(hist):
            sts = [s for s in c2.stores.get(a, []) if s.method == "assembler_callback" or s.method in delegated]
            C = f"{c2.rel}:{c2.qual}.assembler_callback"
            for s in sts:
                if _once_guard(s.guards):
                    rep.ok("C24.R2", C, f"self.{a} initialised once ({s.guards})")
                else:
                    rep.bad("C24.R2", C, s.node, f"`self.{a}` is history state updated by a query method, but assembler_callback re-initialises it unconditionally: "
                            f"re-assembling at a restart (set_new_initial_state) forgets the accumulated value", f"{c2.rel}:{s.node.lineno}")
        # ---- R6 tracking fields that one query updates together are (re)initialised together
        groups = {}
        for mname, m in c2.methods.items():
            if mname in ("__init__", "assembler_callback", "reset", "step_callback") or "q" not in [a.arg for a in m.args.args]:
                continue
            g = set()
            for n in walk_no_nested(m):
                tg = n.targets if isinstance(n, ast.Assign) else ([n.target] if isinstance(n, ast.AugAssign) else [])
                for t in tg:
                    if isinstance(t, ast.Attribute) and dotted(t.value) == "self":
                        g.add(t.attr)
            if len(g) >= 2:
                groups[mname] = g
        for qm, g in sorted(groups.items()):
            for mname in ("__init__", "assembler_callback", "reset"):
                m = c2.methods.get(mname)
                if m is None:
                    continue
                def writes_of(mm):
                    return {t.attr for n in walk_no_nested(mm) for t in (n.targets if isinstance(n, ast.Assign) else []) if isinstance(t, ast.Attribute) and dotted(t.value) == "self"}
                written = writes_of(m)
                for st_ in m.body:      # self.reset(): what the called method writes is written here too
                    if isinstance(st_, ast.Expr) and isinstance(st_.value, ast.Call) and norm_src(st_.value.func).startswith("self.") and norm_src(st_.value.func)[5:] in c2.methods:
                        written |= writes_of(c2.methods[norm_src(st_.value.func)[5:]])
                written &= g
                C = f"{c2.rel}:{c2.qual}.{mname}"
                if not written:
                    continue
                if written == g:
                    rep.ok("C24.R6", C, f"tracking fields {sorted(g)} of `{qm}` are (re)initialised together")
                else:
                    st = next((n for n in walk_no_nested(m) if isinstance(n, ast.Assign) and any(isinstance(t, ast.Attribute) and t.attr in written for t in n.targets)), m.body[0])
                    rep.bad("C24.R6", C, st, f"`{mname}` re-initialises {sorted(written)} but not {sorted(g - written)}, although `{qm}` updates them as one tracking state: after "
                            f"re-assembly the fields disagree (a quadrant reset with a kept turn counter counts a spurious transition)", f"{c2.rel}:{st.lineno}")
    # ---- R5 (shared with C14.R7a): a restart re-runs assemble; markers created by the first assembly change the layout
    from .. import sysmodel
    sm = sysmodel.SystemModel(ctx)
    markers = {n.args[1].value for n in ast.walk(sm.system.methods["assemble"]) if isinstance(n, ast.Call) and dotted(n.func) == "hasattr" and len(n.args) == 2
               and isinstance(n.args[1], ast.Constant) and isinstance(n.args[0], ast.Name) and n.args[0].id == "contr" and str(n.args[1].value).startswith("n")}
    skipm = ("cardillo/system.py", "cardillo/solver/", "cardillo/visualization/", "cardillo/utility/", "cardillo/math/", "cardillo/rods/discretization/")
    for c3 in model.all_classes():
        if c3.rel.startswith(skipm):
            continue
        for mk in sorted(markers):
            for st in c3.stores.get(mk, []):
                C = f"{c3.rel}:{c3.qual}.{st.method}"
                if st.method == "__init__":
                    rep.ok("C24.R5", C, f"self.{mk} is constructor data")
                else:
                    rep.bad("C24.R5", C, st.node, f"`self.{mk}` (System's marker for owning {mk[1:]}-index sets) is created in `{st.method}`: after the first assembly "
                            f"set_new_initial_state reads {c3.name}.my_{mk[1:]}DOF / q0 that were never assigned, so the system cannot be restarted", f"{c3.rel}:{st.node.lineno}")
    # ---- R3
    sysc = model.cls("System", SYS)
    fn = sysc.methods.get("set_new_initial_state")
    if fn is None:
        raise AnalysisError("System.set_new_initial_state vanished")
    C = f"{SYS}:System.set_new_initial_state"
    src = [norm_src(s) for s in ast.walk(fn) if isinstance(s, (ast.Assign, ast.Expr, ast.If))]
    want = {
        "q0 from own slice": ("contr.q0 = q0[contr.my_qDOF]", "hasattr(contr, 'nq')"),
        "u0 from own slice": ("contr.u0 = u0[contr.my_uDOF]", "hasattr(contr, 'nu')"),
    }
    for k, (stmt, guard) in want.items():
        found = None
        for n in ast.walk(fn):
            if isinstance(n, ast.Assign) and norm_src(n) == stmt:
                found = n
        if found is None:
            rep.bad("C24.R3", C, stmt, f"{k}: `{stmt}` not found (restart state is not distributed to the contributions' own coordinates)", f"{SYS}:{fn.lineno}")
        elif (guard, True) not in guards_of(found, fn):
            rep.bad("C24.R3", C, found, f"{k}: not guarded by {guard}", f"{SYS}:{found.lineno}")
        else:
            rep.ok("C24.R3", C, f"{stmt} under {guard}")
    t0s = [n for n in ast.walk(fn) if isinstance(n, ast.Assign) and any(dotted(t) == "self.t0" for t in n.targets)]
    if t0s and "t0" in norm_src(t0s[0].value):
        rep.ok("C24.R3", C, norm_src(t0s[0]))
    else:
        rep.bad("C24.R3", C, "self.t0 = ...", "the new initial time is not taken over", f"{SYS}:{fn.lineno}")
    cfg = CFG(fn)
    asm = [n for n in cfg.nodes if n.kind == "stmt" and isinstance(n.ast, ast.Expr) and isinstance(n.ast.value, ast.Call) and dotted(n.ast.value.func) == "self.assemble"]
    stores = [n for n in cfg.nodes if n.kind == "stmt" and isinstance(n.ast, ast.Assign) and norm_src(n.ast).startswith("contr.")]
    if asm and all(cfg.can_reach([s], asm[0]) for s in stores) and not cfg.can_reach([cfg.entry], cfg.exit, blocked=lambda n: n is asm[0]):
        rep.ok("C24.R3", C, "self.assemble(...) runs on every path, after the state has been distributed")
    else:
        rep.bad("C24.R3", C, "self.assemble(**assemble_kwargs)", "the system is not re-assembled after the new state has been written", f"{SYS}:{fn.lineno}")
    dc = sysc.methods.get("deepcopy")
    if dc is not None and any(norm_src(s) == "return deepcopy(self)" for s in dc.body):
        rep.ok("C24.R3", f"{SYS}:System.deepcopy", "return deepcopy(self)")
    else:
        rep.bad("C24.R3", f"{SYS}:System.deepcopy", "return deepcopy(self)", "System.deepcopy no longer deep-copies the whole system", f"{SYS}:{dc.lineno if dc else 0}")
    # ---- R4 informational + structural: contact callbacks store only glue/DOF/state mirrors
    for cname in ("Sphere2Plane", "Sphere2Sphere"):
        c3 = model.cls(cname)
        ac = c3.methods.get("assembler_callback")
        data_stores = sorted({a for a, sts in c3.stores.items() for s in sts if s.method == "assembler_callback" and s.kind == "data"})
        persistent_params = sorted(a for a in data_stores if any(s.method == "__init__" for s in c3.stores.get(a, [])))
        C = f"{c3.rel}:{cname}.assembler_callback"
        if persistent_params:
            rep.bad("C24.R4", C, f"stores {persistent_params}", f"re-assembly overwrites constructor data {persistent_params} (contact data changes meaning at a restart)",
                    f"{c3.rel}:{ac.lineno}")
        else:
            rep.ok("C24.R4", C, f"re-assembly stores only bookkeeping / state mirrors: {data_stores}")


def _is_trivial_default(stmt):
    """`B1_r_P1J0 = np.zeros(3)` / `A_K1J0 = None` (orientation-less subsystem branch)."""
    if isinstance(stmt, ast.Assign):
        s = norm_src(stmt.value)
        return s in ("np.zeros(3)", "None")
    return False


REV = "cardillo/constraints/revolute.py"
MUTANTS = [
    dict(id="c24-m0", canary=True, what="joint frames re-derived on every assembly (original defect)", file=BASE,
         old="        if not hasattr(self, \"_joint_frames\"):\n            self._joint_frames = (B1_r_P1J0, B2_r_P2J0, A_K1J0, A_K2J0)\n        auxiliary_functions(self, *self._joint_frames)\n\n    def g(self, t, q):\n        g = np.zeros(self.nla_g, dtype=q.dtype)\n        g[:3]",
         new="        auxiliary_functions(self, B1_r_P1J0, B2_r_P2J0, A_K1J0, A_K2J0)\n\n    def g(self, t, q):\n        g = np.zeros(self.nla_g, dtype=q.dtype)\n        g[:3]", expect="C24.R1"),
    dict(id="c24-m6", what="Sphere2Plane creates the markers nq/nu during assembly (original defect; restart raises IndexError)", file="cardillo/contacts/sphere2plane.py",
         old="        self._nq = len(self.qDOF)\n", new="        self.nq = len(self.qDOF)\n", expect="C24.R5"),
    dict(id="c24-m1", canary=True, what="set_new_initial_state distributes q0 with the concatenated qDOF of interactions", file=SYS,
         old="                contr.q0 = q0[contr.my_qDOF]", new="                contr.q0 = q0[contr.qDOF]", expect="C24.R3"),
    dict(id="c24-m2", what="set_new_initial_state forgets to re-assemble", file=SYS,
         old="                contr.u0 = u0[contr.my_uDOF]\n\n        self.assemble(**assemble_kwargs)", new="                contr.u0 = u0[contr.my_uDOF]\n", expect="C24.R3"),
    dict(id="c24-m3", what="set_new_initial_state ignores the new time", file=SYS,
         old="        self.t0 = t0 if t0 is not None else self.t0\n", new="", expect="C24.R3"),
    dict(id="c24-m4", canary=True, what="Sphere2Plane.assembler_callback re-derives the radius from the current gap", file="cardillo/contacts/sphere2plane.py",
         old="        self._nu = len(self.uDOF)\n\n        self.r_OP = lambda t, q: self.subsystem.r_OP(",
         new="        self._nu = len(self.uDOF)\n        self.r = self.r + 0.0\n\n        self.r_OP = lambda t, q: self.subsystem.r_OP(", expect="C24.R4"),
    dict(id="c24-m5", what="System.deepcopy becomes a shallow copy", file=SYS, old="        return deepcopy(self)", new="        from copy import copy\n        return copy(self)", expect="C24.R3"),
]
MUTANTS += [
    dict(id="c24-r6-seed", canary=True, what="[seeded by sub-agent] Revolute: tracking fields initialised in __init__, assembler_callback resets only previous_quadrant", file="cardillo/constraints/revolute.py",
         old="x", new="y", expect="C24.R6",
         edits=[("cardillo/constraints/revolute.py", "        self.angle_dot = self.l_dot\n\n        super().__init__(", "        self.angle_dot = self.l_dot\n\n        self.n_full_rotations = 0\n        self.previous_quadrant = 1\n\n        super().__init__("),
                ("cardillo/constraints/revolute.py", "    def assembler_callback(self):\n        self.n_full_rotations = 0\n        self.previous_quadrant = 1\n", "    def assembler_callback(self):\n        self.previous_quadrant = 1\n")]),
]
MUTANTS += [
    dict(id="c24-r7-seed", canary=True, what="[seeded by sub-agent] Spring resolves the default reference length into a private attribute on every assembly", file="cardillo/force_laws/spring.py",
         old="        if self.l_ref is None:\n            self.l_ref = self.subsystem.l(self.subsystem.t0, self.subsystem.q0)",
         new="        if self.l_ref is None:\n            self._l_ref = self.subsystem.l(self.subsystem.t0, self.subsystem.q0)\n        else:\n            self._l_ref = self.l_ref", expect="C24.R7"),
]
NEUTRAL = []
MUTANTS += [
    dict(id="c24-r8-seed", canary=True, what="[seeded by sub-agent] set_new_initial_state: `t0 or self.t0`", file=SYS,
         old="        self.t0 = t0 if t0 is not None else self.t0\n", new="        self.t0 = t0 or self.t0\n", expect="C24.R8"),
]

MUTANTS += [
    dict(id="c24-r10-seed", canary=True, what="[seeded by sub-agent] System precomputes a global normal/friction connectivity list in assemble, created in __init__ and never reset", file='cardillo/system.py',
         edits=[('cardillo/system.py', '        self.contributions = []\n        self.contributions_map = {}\n', '        self.NF_connectivity = []\n\n        self.contributions = []\n        self.contributions_map = {}\n'), ('cardillo/system.py', '                for i_N, i_F, force_law in contr.friction_laws:\n                    if len(i_N) == 0:\n                        self.constant_force_reservoir = True\n', '                for i_N, i_F, force_law in contr.friction_laws:\n                    if len(i_N) == 0:\n                        self.constant_force_reservoir = True\n                    self.NF_connectivity.append((contr.la_NDOF[i_N], contr.la_FDOF[i_F], force_law))\n')], expect="C24.R10"),
]

NEUTRAL += [
    dict(id="c24-n-r10", canary=True, what="System precomputes a global normal/friction connectivity list in assemble and resets it there", file='cardillo/system.py', edits=[('cardillo/system.py', '        e_F = []\n', '        e_F = []\n        self.NF_connectivity = []\n'), ('cardillo/system.py', '                for i_N, i_F, force_law in contr.friction_laws:\n                    if len(i_N) == 0:\n                        self.constant_force_reservoir = True\n', '                for i_N, i_F, force_law in contr.friction_laws:\n                    if len(i_N) == 0:\n                        self.constant_force_reservoir = True\n                    self.NF_connectivity.append((contr.la_NDOF[i_N], contr.la_FDOF[i_F], force_law))\n')]),
]

MUTANTS += [
    dict(id="c24-r11-seed", canary=True, what="[seeded by sub-agent] ScalarForceLawBase binds l as a lambda over the constructor argument instead of the bound method (deepcopy keeps the original Revolute, whose l is stateful)", file='cardillo/force_laws/_base.py',
         old="        self.l = self.subsystem.l\n", new="        self.l = lambda t, q: subsystem.l(t, q)\n", expect="C24.R11"),
]
NEUTRAL += [
    dict(id="c24-n-r11", canary=True, what="ScalarForceLawBase binds l as a lambda over self.subsystem (attribute lookup at call time: deepcopy-safe)", file='cardillo/force_laws/_base.py',
         old="        self.l = self.subsystem.l\n", new="        self.l = lambda t, q: self.subsystem.l(t, q)\n"),
]

S2P24 = "cardillo/contacts/sphere2plane.py"
MUTANTS += [
    dict(id="c24-r12-seed", canary=True, what="[seeded by sub-agent] Sphere2Plane measures its gap from the penetration depth of the (re-)assembly state", 
         edits=[(S2P24, "    ################\n    # normal contact\n    ################\n    def g_N(self, t, q):\n        return np.array([self.n(t) @ (self.r_OP(t, q) - self.r_OQ(t))]) - self.r\n",
                 "    ################\n    # normal contact\n    ################\n    def g_N(self, t, q):\n        return np.array([self.n(t) @ (self.r_OP(t, q) - self.r_OQ(t))]) - self.r - self.g_N0\n"),
                (S2P24, "    ################\n    # normal contact\n    ################\n    def g_N(self, t, q):\n", "        g_N0 = self.n(self.t0) @ (self.r_OP(self.t0, self.subsystem.q0[qDOF]) - self.r_OQ(self.t0))\n        self.g_N0 = min(g_N0 - self.r, 0.0)\n\n    ################\n    # normal contact\n    ################\n    def g_N(self, t, q):\n")],
         expect="C24.R12"),
]
NEUTRAL += [
    dict(id="c24-n-r12", canary=True, what="Sphere2Plane records the initial gap for diagnostics; the gap routines do not read it", file=S2P24,
         old="    ################\n    # normal contact\n    ################\n    def g_N(self, t, q):\n", new="        self.g_N0_info = float(self.n(self.t0) @ (self.r_OP(self.t0, self.subsystem.q0[qDOF]) - self.r_OQ(self.t0)) - self.r)\n\n    ################\n    # normal contact\n    ################\n    def g_N(self, t, q):\n"),
]
