"""C27  Contact proximal maps are exact projections.

Structural clauses decided (cardillo/math/prox.py), by a sign-domain abstract interpretation:
 R1 radius >= 0     the radius used by Sphere.prox / active_set / residual / Jacobian is non-negative on every path (degenerate
                    ball for non-positive normal force) and all four methods use the same radius expression
 R2 orthant sign    NegativeOrthant.prox returns a value that is <= 0 for every input; its active set / residual / Jacobian
                    use complementary masks
 R3 ball branches   Sphere.prox returns its argument unchanged when ||x|| <= radius and otherwise radius * x / ||x|| with a
                    denominator that is strictly positive under the branch condition; active_set tests the same relation on
                    rho*x - y; residual/Jacobian use the same argument rho*x - y and the same direction
"""
from __future__ import annotations

import ast

from ..core import AnalysisError, dotted, norm_src
from ..signs import Signs, NONNEG, POS, ZERO, TOP, is_nonneg, is_nonpos, can_be_zero

EXPLANATION = ("Abstract interpretation over the sign lattice {-, 0, +, >=0, <=0, ?} with transfer functions for max/min/norm/"
               "*,/,+,- and branch refinement, applied to the bodies of NegativeOrthant and Sphere; structural agreement of the "
               "radius and argument expressions across the four Sphere methods.")
NOT_DECIDED = ("the projection inequality, non-expansiveness, the Jacobian's values and the prox-parameter estimate "
               "(positivity of alpha / diag(W^T M^-1 W) is a value fact about M and W).")
ASSUMPTIONS = ["np.linalg.norm returns a non-negative number; Python's max/min and numpy's maximum/minimum are exact"]
BLIND_SPOTS = ["Jz for non-positive normal force (derivative of max(0, r z) at z <= 0)"]
PX = "cardillo/math/prox.py"


def _assigns(fn):
    out = {}
    for n in ast.walk(fn):
        if isinstance(n, ast.Assign) and len(n.targets) == 1 and isinstance(n.targets[0], ast.Name):
            out.setdefault(n.targets[0].id, []).append(n)
    return out


def _canon_radius(e):
    """max(0, r*z) in any spelling (max / np.maximum, 0 / 0.0, operand order) -> one canonical string."""
    if isinstance(e, ast.Call) and (dotted(e.func) or "").split(".")[-1] in ("max", "maximum") and len(e.args) == 2:
        parts = []
        for a in e.args:
            if isinstance(a, ast.Constant) and a.value == 0:
                parts.append("0")
            elif isinstance(a, ast.BinOp) and isinstance(a.op, ast.Mult):
                parts.append("*".join(sorted((norm_src(a.left), norm_src(a.right)))))
            else:
                parts.append(norm_src(a))
        return "max(" + ", ".join(sorted(parts)) + ")"
    return norm_src(e)


def clamp_rule(ctx):
    """residual() depends on z only through radius = max(0, r z), whose derivative is r for r z > 0 and 0 for r z < 0.  A reported
    dR/dz whose value cannot depend on the sign of z (no data or control dependence on the VALUE of z; len(z) is a shape) is wrong
    on one of the two half lines, both of which lie away from the active-set boundary."""
    from ..cfg import CFG
    from ..dataflow import ReachingDefs
    rep = ctx.rep
    sph = ctx.model.cls("Sphere", PX)
    fn = sph.methods.get("Jacobian")
    res = sph.methods.get("residual")
    if fn is None or res is None:
        raise AnalysisError("Sphere.Jacobian / residual vanished")
    C = f"{PX}:Sphere.Jacobian"
    # premise: the residual uses z only inside max(0, .) / np.maximum(0, .)
    zuses = [n for n in ast.walk(res) if isinstance(n, ast.Name) and n.id == "z" and isinstance(n.ctx, ast.Load)]
    clamped = True
    for u in zuses:
        p = u
        ok_ = False
        while p is not None and not isinstance(p, ast.stmt):
            if isinstance(p, ast.Call) and (dotted(p.func) or "") in ("max", "np.maximum", "maximum") and any(isinstance(a, ast.Constant) and a.value == 0 for a in p.args):
                ok_ = True
            p = getattr(p, "_parent", None)
        clamped = clamped and ok_
    if not zuses or not clamped:
        rep.ok("C27.R4", C, "residual does not use z only through max(0, r z) (premise of the rule not met; no verdict)", verdict="unknown", trivial=True)
        return
    cfg = CFG(fn)
    rd = ReachingDefs(cfg)
    rets = [n for n in cfg.nodes if n.kind == "stmt" and isinstance(n.ast, ast.Return) and isinstance(n.ast.value, ast.Tuple) and len(n.ast.value.elts) == 3]
    if len(rets) != 1 or not isinstance(rets[0].ast.value.elts[2], ast.Name):
        raise AnalysisError(f"{C}: `return Jx, Jy, Jz` not found")
    jz = rets[0].ast.value.elts[2].id
    defs = [d for d in rd.defs_reaching(rets[0], jz) if d is not cfg.entry]
    n_checked = 0
    for d in defs:
        if isinstance(d.ast, ast.Assign) and isinstance(d.ast.value, ast.Call) and (dotted(d.ast.value.func) or "").endswith("zeros"):
            continue  # stick branch: residual = x, independent of z
        nodes, _ = rd.backward_slice(d, control=True)
        value_use = False
        for nd in nodes:
            if nd.ast is None:
                continue
            for w in ast.walk(nd.ast):
                if isinstance(w, ast.Name) and w.id == "z" and isinstance(w.ctx, ast.Load):
                    par = getattr(w, "_parent", None)
                    if isinstance(par, ast.Call) and (dotted(par.func) or "") == "len":
                        continue
                    # the active-set flag itself is computed elsewhere; a value use inside this function counts
                    value_use = True
        n_checked += 1
        if value_use:
            rep.ok("C27.R4", C, f"{norm_src(d.ast)}: depends on the value of z (through the clamp or a guard)")
        else:
            rep.bad("C27.R4", C, d.ast, f"`{jz}` (dR/dz on the slip branch) does not depend on the value of z at all, but the residual contains z only as max(0, r z): "
                    "for r z < 0 the residual is constant in z and the true derivative is 0, not r * direction", f"{PX}:{d.lineno}")
    if n_checked == 0:
        raise AnalysisError(f"{C}: no slip-branch definition of {jz} found")


def norm_agreement(ctx):
    """Sphere.Jacobian is the derivative of Sphere.residual = y + radius * arg / |arg| only if it divides by the SAME norm |arg| (once in the unit
    direction, once in the 1/|arg| factor).  Every divisor of the slip branch of both methods must be the plain Euclidean norm of the slip
    argument: a clamped / regularised norm (max(norm, eps), norm + eps, sqrt(. + eps)) in one of them makes the direction non-unit and the
    curvature factor 1/eps for tiny arguments, far away from the active-set boundary."""
    rep = ctx.rep
    sph = ctx.model.cls("Sphere", PX)
    for m in ("residual", "Jacobian"):
        fn = sph.methods.get(m)
        if fn is None:
            raise AnalysisError(f"Sphere.{m} vanished")
        C = f"{PX}:Sphere.{m}"
        loc = {}
        for x in ast.walk(fn):
            if isinstance(x, ast.Assign) and len(x.targets) == 1 and isinstance(x.targets[0], ast.Name):
                loc.setdefault(x.targets[0].id, []).append(x.value)

        def is_plain_norm(e, depth=0):
            if isinstance(e, ast.Name) and len(loc.get(e.id, [])) == 1 and depth < 4:
                return is_plain_norm(loc[e.id][0], depth + 1)
            return isinstance(e, ast.Call) and (dotted(e.func) or "").split(".")[-1] == "norm" and len(e.args) == 1 and not e.keywords

        def mentions_norm(e, depth=0):
            for w in ast.walk(e):
                if isinstance(w, ast.Call) and (dotted(w.func) or "").split(".")[-1] in ("norm", "sqrt"):
                    return True
                if isinstance(w, ast.Name) and len(loc.get(w.id, [])) == 1 and depth < 4 and mentions_norm(loc[w.id][0], depth + 1):
                    return True
            return False
        n_ = 0
        for w in ast.walk(fn):
            if isinstance(w, ast.BinOp) and isinstance(w.op, ast.Div) and mentions_norm(w.right):
                n_ += 1
                if is_plain_norm(w.right):
                    rep.ok("C27.R6", C, f"`{norm_src(w)[:60]}` divides by the plain norm of the slip argument")
                else:
                    d = w.right
                    shown = norm_src(loc[d.id][0]) if isinstance(d, ast.Name) and len(loc.get(d.id, [])) == 1 else norm_src(d)
                    rep.bad("C27.R6", C, w, f"`{norm_src(w)[:60]}` divides by `{shown[:60]}`, not by the plain norm of the slip argument that the other method uses: residual and Jacobian no "
                            "longer belong to the same map (for |rho x - y| below the clamp the direction is not a unit vector and the factor 1/|arg| becomes 1/eps)", f"{PX}:{w.lineno}")
        if n_ == 0:
            rep.note(f"C27.R6: {C}: no division by a norm in this method (it delegates the normalisation); nothing to compare")


def estimate_dtype(ctx):
    """r_i = alpha / diag(W^T M^-1 W)_i is positive and finite for SPD M and full-column-rank W whatever number type W is written in.
    A buffer allocated with W's dtype truncates the real scaling factor alpha in (0, 2) to 0 or 1 for an integer-typed W (a hand-written
    unit normal [[0], [0], [1]]), so nothing returned for cols > 0 may derive from such a buffer; the empty case may (it holds no entry)."""
    from ..cfg import CFG
    from ..dataflow import ReachingDefs
    from ..model import guards_of
    rep = ctx.rep
    fn = ctx.repo.get(PX, "estimate_prox_parameter")
    C = f"{PX}:estimate_prox_parameter"
    params = {a.arg for a in fn.args.args}
    cfg = CFG(fn)
    rd = ReachingDefs(cfg)
    rets = [n for n in cfg.nodes if n.kind == "stmt" and isinstance(n.ast, ast.Return) and n.ast.value is not None]
    if not rets:
        raise AnalysisError(f"{C}: no return")
    def typed_allocs(node):
        out = []
        for w in ast.walk(node):
            if isinstance(w, ast.Call) and (dotted(w.func) or "").split(".")[-1] in ("full", "zeros", "ones", "empty", "full_like", "zeros_like", "ones_like", "empty_like"):
                last = (dotted(w.func) or "").split(".")[-1]
                if last.endswith("_like") and w.args and isinstance(w.args[0], ast.Name) and w.args[0].id in params and not any(k.arg == "dtype" for k in w.keywords):
                    out.append((w, w.args[0].id))
                for k in w.keywords:
                    if k.arg == "dtype" and isinstance(k.value, ast.Attribute) and k.value.attr == "dtype" and isinstance(k.value.value, ast.Name) and k.value.value.id in params:
                        out.append((w, k.value.value.id))
        return out
    for r in rets:
        nodes, _ = rd.backward_slice(r)
        allocs = [(w, p) for n in nodes if n.ast is not None for (w, p) in typed_allocs(n.ast if n.kind == "stmt" else n.ast)]
        gs = guards_of(r.ast, fn)
        empty_only = any((t.replace(" ", "") in ("cols>0", "cols!=0", "W.shape[1]>0") and pol is False) or (t.replace(" ", "") in ("cols==0", "W.shape[1]==0") and pol is True) for t, pol in gs)
        if not allocs:
            rep.ok("C27.R5", C, f"`{norm_src(r.ast)[:70]}`: no buffer typed by an argument's dtype feeds the estimate")
        elif empty_only:
            rep.ok("C27.R5", C, f"`{norm_src(r.ast)[:70]}`: buffer typed by `{allocs[0][1]}` is returned for the empty case only")
        else:
            w, p_ = allocs[0]
            rep.bad("C27.R5", C, w, f"`{norm_src(w)}` takes the dtype of the argument `{p_}` and feeds the estimate returned for cols > 0: for an integer-typed `{p_}` the scaling "
                    "factor alpha in (0, 2) is truncated to 0 or 1 when it is stored (estimate 0, or 1/G_ii instead of alpha/G_ii): not positive / not the stated estimate",
                    f"{PX}:{w.lineno}")


def slip_branch_jy(ctx, rule="C27.R8"):
    """d/dx and d/dy of the slip residual differ by the inner derivative of arg = rho x - y: rho for x, -1 for y.  Jx = rho F and Jy = I - F
    with the same F = radius (I - d d^T) / |arg|.  Building Jy from a buffer that already holds rho F (scaled in place) gives I - rho F."""
    rep = ctx.rep
    sph = ctx.model.cls("Sphere", PX)
    jac = sph.methods.get("Jacobian")
    C = f"{PX}:Sphere.Jacobian"
    slip = None
    for w in ast.walk(jac):
        if isinstance(w, ast.If) and norm_src(w.test) == "active_set":
            slip = w.orelse
    if not slip:
        rep.ok(rule, C, "no slip branch found (no verdict)", verdict="unknown", trivial=True)
        return
    # sequential environment: name -> expression text with earlier names substituted (in-place `X *= k` counts as X = X * k)
    STOP = {"arg", "norm_arg", "direction", "radius", "nx", "nr"}
    env = {}

    def names(e):
        out = set()
        for x in ast.walk(e):
            if isinstance(x, ast.Name):
                if x.id in env and x.id not in STOP:
                    out |= env[x.id]
                else:
                    out.add(x.id)
        return out
    jy = None
    for st in slip:
        if isinstance(st, ast.Assign) and len(st.targets) == 1 and isinstance(st.targets[0], ast.Name):
            env[st.targets[0].id] = names(st.value)
            if st.targets[0].id == "Jy":
                jy = st
        elif isinstance(st, ast.AugAssign) and isinstance(st.target, ast.Name):
            env[st.target.id] = env.get(st.target.id, {st.target.id}) | names(st.value)
            if st.target.id == "Jy":
                jy = st
    if jy is None:
        rep.ok(rule, C, "no definition of Jy in the slip branch (no verdict)", verdict="unknown", trivial=True)
        return
    if "rho" in env["Jy"]:
        rep.bad(rule, C, jy, f"`{norm_src(jy)[:60]}` depends on `rho` outside `arg` (through {sorted(n_ for n_ in env['Jy'] if n_ in env and 'rho' in env[n_] and n_ not in STOP) or 'its own expression'}): "
                "the reported Jy is I - rho F instead of I - F; Jx + Jy = I only for rho = 1", f"{PX}:{jy.lineno}")
    else:
        rep.ok(rule, C, f"`{norm_src(jy)[:60]}`: no explicit factor rho")


def stick_branch_jacobian(ctx, rule="C27.R7"):
    """In the stick branch the implemented residual is one of its arguments itself (`return x`: the modified equation of the active-set
    strategy).  Its derivative is then exact and trivial: identity with respect to that argument, zero with respect to the others.  The
    Jacobian's stick branch must say exactly that - any factor on the identity (rho!) belongs to the unmodified equation y + prox(rho x - y),
    which is NOT what residual() returns."""
    rep = ctx.rep
    sph = ctx.model.cls("Sphere", PX)
    res, jac = sph.methods.get("residual"), sph.methods.get("Jacobian")
    C = f"{PX}:Sphere.Jacobian"
    if res is None or jac is None:
        raise AnalysisError("Sphere.residual / Sphere.Jacobian vanished")

    def stick(fn):
        for w in ast.walk(fn):
            if isinstance(w, ast.If) and norm_src(w.test) == "active_set":
                return w.body
        return None
    rb, jb = stick(res), stick(jac)
    if rb is None or jb is None:
        rep.ok(rule, C, "no `if active_set:` branch in residual / Jacobian (no verdict)", verdict="unknown", trivial=True)
        return
    rets = [w.value for st in rb for w in ast.walk(st) if isinstance(w, ast.Return)]
    params = [a.arg for a in res.args.args][1:]
    if len(rets) != 1 or not isinstance(rets[0], ast.Name) or rets[0].id not in params:
        rep.ok(rule, C, f"the stick residual `{norm_src(rets[0]) if rets else '?'}` is not a bare argument (no verdict)", verdict="unknown", trivial=True)
        return
    wrt = rets[0].id
    stores = {}
    for st in jb:
        for w in ast.walk(st):
            if isinstance(w, ast.Assign) and len(w.targets) == 1 and isinstance(w.targets[0], ast.Name):
                stores[w.targets[0].id] = w.value
    for name, v in sorted(stores.items()):
        if not name.startswith("J"):
            continue
        is_eye = isinstance(v, ast.Call) and (dotted(v.func) or "").split(".")[-1] in ("eye", "identity")
        is_zero = isinstance(v, ast.Call) and (dotted(v.func) or "").split(".")[-1] in ("zeros", "zeros_like")
        if name == "J" + wrt:
            if is_eye:
                rep.ok(rule, C, f"stick branch: {name} = `{norm_src(v)}` is the derivative of the stick residual `{wrt}`")
            else:
                rep.bad(rule, C, v, f"stick branch: residual() returns `{wrt}` itself, whose derivative with respect to `{wrt}` is the identity, but Jacobian() reports {name} = `{norm_src(v)[:60]}`: "
                        "the reported Jacobian is not the derivative of the implemented residual well inside the ball", f"{PX}:{v.lineno}")
        else:
            if is_zero:
                rep.ok(rule, C, f"stick branch: {name} = 0 (the stick residual does not depend on {name[1:]})")
            else:
                rep.bad(rule, C, v, f"stick branch: residual() returns `{wrt}`, which does not depend on `{name[1:]}`, but Jacobian() reports {name} = `{norm_src(v)[:60]}` instead of zeros", f"{PX}:{v.lineno}")


def run(ctx):
    rep = ctx.rep
    rep.rule("C27.R8", "slip branch: the y-derivative of the residual y + radius * arg / |arg| sees rho only through arg = rho x - y (d arg / dy = -1): after inlining, Jy carries no explicit factor rho", 1)
    slip_branch_jy(ctx)
    rep.rule("C27.R7", "stick branch: the Jacobian the ball reports is the derivative of the residual it implements there (the bare argument x): identity in x, zero in y and z", 3)
    stick_branch_jacobian(ctx)
    rep.rule("C27.R6", "Sphere.residual and Sphere.Jacobian normalise the slip argument with the same plain norm", 3)
    norm_agreement(ctx)
    rep.rule("C27.R5", "the prox-parameter estimate for a non-empty W does not pass through a buffer typed by an argument's dtype", 1)
    estimate_dtype(ctx)
    rep.rule("C27.R1", "radius is non-negative and the same in all Sphere methods", 5)
    rep.rule("C27.R2", "NegativeOrthant sign and complementary masks", 3)
    rep.rule("C27.R3", "Sphere.prox branches, active set and residual agree", 6)
    rep.rule("C27.R4", "the derivative of the clamped radius max(0, r z) with respect to z depends on the sign of r z (it is 0 on the degenerate ball)", 1)
    clamp_rule(ctx)
    sph = ctx.model.cls("Sphere", PX)
    no = ctx.model.cls("NegativeOrthant", PX)
    # ---- R1
    radius_exprs = {}
    for m in ("prox", "active_set", "residual", "Jacobian"):
        fn = sph.methods.get(m)
        if fn is None:
            raise AnalysisError(f"Sphere.{m} vanished")
        C = f"{PX}:Sphere.{m}"
        # expressions multiplying z with self.r
        cands = []
        for n in ast.walk(fn):
            if isinstance(n, ast.BinOp) and isinstance(n.op, ast.Mult) and {norm_src(n.left), norm_src(n.right)} == {"self.r", "z"}:
                if isinstance(getattr(n, "_parent", None), ast.Compare):
                    continue  # `self.r * z > 0` is a test on the sign of the radius argument, not a radius
                cands.append(n)
        if not cands:
            rep.bad("C27.R1", C, fn.name, "the ball radius r * z is not used", f"{PX}:{fn.lineno}")
            continue
        for c in cands:
            # the enclosing expression that is actually used as radius: climb while parent is a Call (max/np.maximum)
            p = getattr(c, "_parent", None)
            top = c
            while isinstance(p, ast.Call):
                top = p
                p = getattr(p, "_parent", None)
            s = Signs().of(top)
            if is_nonneg(s):
                rep.ok("C27.R1", C, f"radius `{norm_src(top)}` has sign {s}")
                radius_exprs[m] = _canon_radius(top)
            else:
                # Jz = self.r * direction is not a radius: skip products whose other operand is not z
                rep.bad("C27.R1", C, top, f"the radius `{norm_src(top)}` can be negative (sign {s}): for a non-positive normal force the friction ball is not the "
                        f"degenerate ball {{0}}", f"{PX}:{top.lineno}")
    if len(set(radius_exprs.values())) == 1 and len(radius_exprs) == 4:
        rep.ok("C27.R1", f"{PX}:Sphere", f"all four methods use the radius `{list(radius_exprs.values())[0]}`")
    elif len(radius_exprs) == 4:
        rep.bad("C27.R1", f"{PX}:Sphere", f"radius expressions {sorted(set(radius_exprs.values()))}", "prox, active_set, residual and Jacobian use different radius expressions",
                f"{PX}:{sph.node.lineno}")
    # ---- R2
    fn = no.methods.get("prox")
    C = f"{PX}:NegativeOrthant.prox"
    rets = [n for n in ast.walk(fn) if isinstance(n, ast.Return)]
    for r in rets:
        s = Signs().of(r.value)
        if is_nonpos(s):
            rep.ok("C27.R2", C, f"`{norm_src(r.value)}` has sign {s} for every input")
        else:
            rep.bad("C27.R2", C, r, f"the returned value `{norm_src(r.value)}` is not provably <= 0 (sign {s}): it can leave the negative orthant", f"{PX}:{r.lineno}")
    a = no.methods.get("active_set")
    if a is not None:
        r = [n for n in ast.walk(a) if isinstance(n, ast.Return)][0]
        if norm_src(r.value) in ("rho * x - y <= 0", "(rho * x - y) <= 0"):
            rep.ok("C27.R2", f"{PX}:NegativeOrthant.active_set", norm_src(r.value))
        else:
            rep.bad("C27.R2", f"{PX}:NegativeOrthant.active_set", r, "active set is not `rho * x - y <= 0` (the set on which prox is the identity)", f"{PX}:{r.lineno}")
    j = no.methods.get("Jacobian")
    if j is not None:
        src = ast.unparse(j)
        if "diags(active_set.astype(float))" in src and "diags((~active_set).astype(float))" in src:
            rep.ok("C27.R2", f"{PX}:NegativeOrthant.Jacobian", "complementary masks active_set / ~active_set")
        else:
            rep.bad("C27.R2", f"{PX}:NegativeOrthant.Jacobian", j.name, "Jacobian blocks are not the complementary masks of the active set", f"{PX}:{j.lineno}")
    # ---- R3
    fn = sph.methods["prox"]
    C = f"{PX}:Sphere.prox"
    params = [p.arg for p in fn.args.args]
    x = params[1]
    asg = _assigns(fn)
    ifs = [n for n in fn.body if isinstance(n, ast.If)]
    if len(ifs) != 1:
        raise AnalysisError("Sphere.prox: branch structure not recognised")
    br = ifs[0]
    t = br.test
    sg = Signs()
    for name, nodes in asg.items():
        if len(nodes) == 1:
            sg.env[name] = sg.of(nodes[0].value)
    norm_name = next((n for n, nodes in asg.items() if len(nodes) == 1 and norm_src(nodes[0].value) in (f"np.linalg.norm({x})", f"norm({x})")), None)
    rad_name = next((n for n, nodes in asg.items() if len(nodes) == 1 and "self.r" in norm_src(nodes[0].value)), None)
    if norm_name is None or rad_name is None:
        raise AnalysisError("Sphere.prox: norm / radius locals not recognised")
    inside_first = isinstance(t, ast.Compare) and norm_src(t) in (f"{norm_name} <= {rad_name}", f"{norm_name} < {rad_name}")
    if not inside_first:
        rep.bad("C27.R3", C, t, f"branch condition is not `{norm_name} <= {rad_name}`", f"{PX}:{br.lineno}")
    else:
        inside, outside = br.body, br.orelse
        ri = [s for s in inside if isinstance(s, ast.Return)]
        if ri and norm_src(ri[0].value) == x:
            rep.ok("C27.R3", C, f"inside the ball (`{norm_src(t)}`) the argument is returned unchanged")
        else:
            rep.bad("C27.R3", C, ri[0] if ri else br, "inside the ball the argument is not returned unchanged (prox is not the identity on the set)", f"{PX}:{br.lineno}")
        ro = [s for s in outside if isinstance(s, ast.Return)]
        so = Signs(sg.env)
        so.refine(t, False)
        if ro:
            v = ro[0].value
            ok_form = norm_src(v) in (f"{rad_name} * {x} / {norm_name}", f"{x} * {rad_name} / {norm_name}", f"{rad_name} / {norm_name} * {x}", f"({rad_name} / {norm_name}) * {x}")
            dens = [d.right for d in ast.walk(v) if isinstance(d, ast.BinOp) and isinstance(d.op, ast.Div)]
            zero = [d for d in dens if can_be_zero(so.of(d))]
            if ok_form and not zero:
                rep.ok("C27.R3", C, f"outside: `{norm_src(v)}`; denominator sign {so.of(dens[0]) if dens else '-'} under `not ({norm_src(t)})`")
            elif zero:
                rep.bad("C27.R3", C, v, f"denominator `{norm_src(zero[0])}` can be zero on the outside branch", f"{PX}:{v.lineno}")
            else:
                rep.bad("C27.R3", C, v, f"outside the ball the result is not `{rad_name} * {x} / {norm_name}` (radial projection onto the sphere)", f"{PX}:{v.lineno}")
    # active_set / residual / Jacobian use the same argument
    aset = sph.methods["active_set"]
    tests = [n for n in ast.walk(aset) if isinstance(n, ast.If)]
    C2 = f"{PX}:Sphere.active_set"
    if tests and isinstance(tests[0].test, ast.Compare) and isinstance(tests[0].test.ops[0], ast.LtE) and "rho * x - y" in norm_src(tests[0].test.left) \
            and "norm" in norm_src(tests[0].test.left) and _canon_radius(tests[0].test.comparators[0]) == radius_exprs.get("active_set"):
        body_true = any(isinstance(s, ast.Return) and norm_src(s.value) == "True" for s in tests[0].body)
        if body_true:
            rep.ok("C27.R3", C2, f"`{norm_src(tests[0].test)}` -> True (same relation as prox's inside branch)")
        else:
            rep.bad("C27.R3", C2, tests[0].test, "active set polarity inverted", f"{PX}:{tests[0].lineno}")
    else:
        rep.bad("C27.R3", C2, tests[0].test if tests else aset.name, "active set does not test ||rho*x - y|| <= radius", f"{PX}:{aset.lineno}")
    for m in ("residual", "Jacobian"):
        fn = sph.methods[m]
        a2 = _assigns(fn)
        Cm = f"{PX}:Sphere.{m}"
        if "arg" in a2 and norm_src(a2["arg"][0].value) == "rho * x - y":
            rep.ok("C27.R3", Cm, "arg = rho * x - y")
        else:
            rep.bad("C27.R3", Cm, a2["arg"][0] if "arg" in a2 else fn.name, "the projected argument is not rho * x - y", f"{PX}:{fn.lineno}")
    res = sph.methods["residual"]
    r_in = [n for n in ast.walk(res) if isinstance(n, ast.Return)]
    if any("y + radius * arg / np.linalg.norm(arg)" == norm_src(r.value) for r in r_in) and any(norm_src(r.value) == "x" for r in r_in):
        rep.ok("C27.R3", f"{PX}:Sphere.residual", "active: x ; inactive: y + radius * arg / ||arg||")
    else:
        rep.bad("C27.R3", f"{PX}:Sphere.residual", r_in[-1] if r_in else res.name, "residual is not (x | y + radius * arg / ||arg||)", f"{PX}:{res.lineno}")


MUTANTS = [
    dict(id="c27-m1", canary=True, what="Sphere.prox: max(0, .) dropped from the radius", file=PX,
         old="    def prox(self, x, z):\n        radius = max(0, self.r * z)", new="    def prox(self, x, z):\n        radius = self.r * z", expect="C27.R1"),
    dict(id="c27-m2", canary=True, what="NegativeOrthant.prox uses maximum", file=PX,
         old="        return np.minimum(x, np.zeros_like(x))", new="        return np.maximum(x, np.zeros_like(x))", expect="C27.R2"),
    dict(id="c27-m3", what="Sphere.prox projects with the un-normalised direction", file=PX,
         old="            return radius * x / norm_x", new="            return radius * x", expect="C27.R3"),
    dict(id="c27-m4", what="active set uses abs radius", file=PX,
         old="        if np.linalg.norm(rho * x - y) <= max(0, self.r * z):", new="        if np.linalg.norm(rho * x - y) <= abs(self.r * z):", expect=["C27.R1", "C27.R3"]),
    dict(id="c27-m5", what="inside branch returns a scaled argument", file=PX,
         old="        if norm_x <= radius:\n            return x", new="        if norm_x <= radius:\n            return radius * x", expect="C27.R3"),
    dict(id="c27-m6", what="branch condition flipped to >= (division by zero possible at x = 0)", file=PX,
         old="        if norm_x <= radius:\n            return x\n        else:\n            return radius * x / norm_x", new="        if norm_x >= radius:\n            return radius * x / norm_x\n        else:\n            return x", expect="C27.R3"),
    dict(id="c27-m7", what="residual uses rho*x + y", file=PX,
         old="            radius = max(0, self.r * z)\n            arg = rho * x - y\n            return y + radius * arg / np.linalg.norm(arg)",
         new="            radius = max(0, self.r * z)\n            arg = rho * x + y\n            return y + radius * arg / np.linalg.norm(arg)", expect="C27.R3"),
]
MUTANTS += [
    dict(id="c27-r4-orig", canary=True, what="Sphere.Jacobian: dR/dz = r * direction also on the degenerate ball (original defect)", file=PX,
         old="            Jz = (self.r if radius > 0 else 0.0) * direction.reshape((nx, nr))", new="            Jz = self.r * direction.reshape((nx, nr))", expect="C27.R4"),
]
NEUTRAL = [
    dict(id="c27-n-r4", what="Sphere.Jacobian: clamp derivative through a comparison of r z", file=PX,
         old="            Jz = (self.r if radius > 0 else 0.0) * direction.reshape((nx, nr))", new="            Jz = self.r * (self.r * z > 0) * direction.reshape((nx, nr))"),
    dict(id="c27-n1", canary=True, what="np.maximum instead of max", file=PX,
         old="    def prox(self, x, z):\n        radius = max(0, self.r * z)", new="    def prox(self, x, z):\n        radius = max(0.0, self.r * z)"),
]
MUTANTS += [
    dict(id="c27-r5-seed", canary=True, what="[seeded by sub-agent] estimate_prox_parameter: default np.full(cols, alpha, dtype=W.dtype) created up front and divided by the diagonal", file=PX,
         old="    cols = W.shape[1]\n    if cols > 0:\n        W = csc_array(W)\n        M_inv_W = spsolve(csc_array(M), W)\n        WT_M_inv_W = csc_array((W.T @ M_inv_W).reshape((cols, cols)))\n        return alpha / WT_M_inv_W.diagonal()\n    else:\n        return np.full(cols, alpha, dtype=W.dtype)\n",
         new="    cols = W.shape[1]\n    prox_r = np.full(cols, alpha, dtype=W.dtype)\n    if cols > 0:\n        W = csc_array(W)\n        M_inv_W = spsolve(csc_array(M), W)\n        WT_M_inv_W = csc_array((W.T @ M_inv_W).reshape((cols, cols)))\n        prox_r = prox_r / WT_M_inv_W.diagonal()\n    return prox_r\n",
         expect="C27.R5"),
]
NEUTRAL += [
    dict(id="c27-n-r5", canary=True, what="estimate_prox_parameter: single exit with a float default", file=PX,
         old="    cols = W.shape[1]\n    if cols > 0:\n        W = csc_array(W)\n        M_inv_W = spsolve(csc_array(M), W)\n        WT_M_inv_W = csc_array((W.T @ M_inv_W).reshape((cols, cols)))\n        return alpha / WT_M_inv_W.diagonal()\n    else:\n        return np.full(cols, alpha, dtype=W.dtype)\n",
         new="    cols = W.shape[1]\n    prox_r = np.full(cols, alpha, dtype=float)\n    if cols > 0:\n        W = csc_array(W)\n        M_inv_W = spsolve(csc_array(M), W)\n        WT_M_inv_W = csc_array((W.T @ M_inv_W).reshape((cols, cols)))\n        prox_r = prox_r / WT_M_inv_W.diagonal()\n    return prox_r\n"),
]
MUTANTS += [
    dict(id="c27-r6-seed", canary=True, what="[seeded by sub-agent] Sphere.Jacobian clamps the norm of the slip argument by machine epsilon", file=PX,
         old="            norm_arg = np.linalg.norm(arg)\n", new="            norm_arg = max(np.linalg.norm(arg), np.finfo(float).eps)\n", expect="C27.R6"),
]

MUTANTS += [
    dict(id="c27-r7-seed", canary=True, what="[seeded by sub-agent] Sphere.Jacobian stick branch 'corrected' to Jx = rho * eye (derivative of the unmodified equation, not of residual())", file=PX,
         old="            Jx = np.eye(nx)\n", new="            Jx = rho * np.eye(nx)\n", expect="C27.R7"),
]

MUTANTS += [
    dict(id="c27-r8-seed", canary=True, what="[seeded by sub-agent] Sphere.Jacobian slip branch: Jx scaled in place by rho * radius / |arg| and Jy taken from that buffer (I - rho F)", file=PX,
         old='            factor = radius * (np.eye(nx) - np.outer(direction, direction)) / norm_arg\n\n            Jx = factor * rho\n            Jy = np.eye(nx) - factor\n', new='            Jx = np.eye(nx) - np.outer(direction, direction)\n            Jx *= rho * radius / norm_arg\n            Jy = np.eye(nx) - Jx\n', expect="C27.R8"),
]
NEUTRAL += [
    dict(id="c27-n-r8", canary=True, what="Sphere.Jacobian slip branch: the common factor scaled in place BEFORE rho enters", file=PX, old='            factor = radius * (np.eye(nx) - np.outer(direction, direction)) / norm_arg\n\n            Jx = factor * rho\n            Jy = np.eye(nx) - factor\n', new='            factor = np.eye(nx) - np.outer(direction, direction)\n            factor *= radius / norm_arg\n\n            Jx = factor * rho\n            Jy = np.eye(nx) - factor\n'),
]
