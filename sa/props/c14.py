"""C14  System assembly is a faithful, repeatable scatter of its contributions.

Structural clauses decided (DESIGN §3/C14):
 R1 registry pairing            every mutation of System.contributions is paired with the matching
                                mutation of System.contributions_map on every normal path; insertion
                                into the map is preceded by the uniqueness test/rename
 R2 counter discipline          each dimension counter is zeroed before the assembly loop; each
                                `contr.KDOF = np.arange(0, contr.nK) + self.nK` is under `hasattr(contr,"nK")`
                                and followed by `self.nK += contr.nK` with the same K
 R3 index-kind typing           every `X[contr.KDOF]` in a scatter loop uses the kind of X's axis
 R4 accumulate vs overwrite     plain `=` into a freshly allocated system vector only on owned index sets
 R5 list/callee co-definition   `for contr in self.__p_contr: contr.m(...)` : every class registered under
                                p provides m (non-contact, non-E_pot part; contact -> C06, E_pot -> C07)
 R6 callee agreement            the scatter method `m` calls `contr.m` (same quantity), with a frozen
                                exception table
"""
from __future__ import annotations

import ast
import re

from ..core import AnalysisError, dotted, norm_src, walk_no_nested, parent
from ..cfg import CFG
from .. import sysmodel

EXPLANATION = (
    "Static rules over cardillo/system.py (and the class table for R5): registry pairing of "
    "contributions/contributions_map by a CFG must-pass-through check; counter discipline of "
    "System.assemble; index-kind typing of every contr.*DOF subscript in the scatter methods; "
    "accumulate-vs-overwrite on shared index sets; list/callee co-definition over all contribution "
    "classes (resolved MRO incl. class factories). Every instance in the parsed program is enumerated."
)
NOT_DECIDED = "numerical equality with a dense reference sum (follows from R3/R4 + C15 but is a value fact)"
ASSUMPTIONS = [
    "contributions are registered under a key p iff they have a callable attribute p (System.assemble's own test)",
    "owned index sets (my_qDOF, la_*DOF, tauDOF) are disjoint across contributions — this is what R2 establishes",
]
BLIND_SPOTS = ["a wrong numerical block returned by a contribution", "sign errors in a contribution's local quantity"]

SYS = "cardillo/system.py"


def property_scan_per_instance(ctx, rule="C14.R18"):
    """`each system-level vector and matrix equals the sum of the contributions' local quantities`: a contribution contributes to quantity p
    iff IT offers p.  Contacts, force laws and springs bind optional quantities per instance in __init__, so two objects of one class can
    differ.  The append of `contr` to the list of property `p` has to be guarded, in the same loop pass, by a test that reads that attribute
    of that object (hasattr(contr, p) / callable(getattr(contr, p)))."""
    from ..model import guards_of
    rep = ctx.rep
    rel = "cardillo/system.py"
    fn = ctx.repo.get(rel, "System.assemble")
    C = f"{rel}:System.assemble"
    apps = [w for w in ast.walk(fn) if isinstance(w, ast.Expr) and isinstance(w.value, ast.Call) and isinstance(w.value.func, ast.Attribute) and w.value.func.attr == "append"
            and isinstance(w.value.func.value, ast.Call) and (dotted(w.value.func.value.func) or "") == "getattr" and w.value.args and isinstance(w.value.args[0], ast.Name)]
    if not apps:
        rep.ok(rule, C, "no append to a per-property contribution list found (no verdict)", verdict="unknown", trivial=True)
        return
    for ap in apps:
        obj = ap.value.args[0].id
        gs = guards_of(ap, fn)
        ok_ = any(pol and re.search(rf"(hasattr|getattr)\(\s*{obj}\s*,\s*p\b", t) for (t, pol) in gs)
        if ok_:
            rep.ok(rule, C, f"`{obj}` joins a property list under a test of its own attribute ({[t for t, p_ in gs if p_][-1][:60]})")
        else:
            rep.bad(rule, C, ap, f"`{norm_src(ap)[:80]}` is not guarded by hasattr / callable(getattr({obj}, p)) in its own loop pass: which lists `{obj}` joins is decided elsewhere (per type, "
                    "from another instance), although optional quantities are bound per instance - a frictional contact added after a frictionless one is missing from the gamma_F list and "
                    "its friction silently disappears from System.gamma_F / W_F", f"{rel}:{ap.lineno}")


def add_membership_sees_same_call(ctx, rule="C14.R17"):
    """`names stay unique and the registry maps exactly the current contributions` rests on add() rejecting an object that is already listed.
    With the test and the append in ONE loop pass the test sees the earlier arguments of the same call.  A validate-all-then-append-all
    split tests against the state before the call only: add(f, f) appends f twice, registers it under two names and assemble() counts it
    twice.  The rule: every append to self.contributions inside a loop over the arguments is guarded, in that loop, by the membership test
    on self.contributions - unless the function tests the argument tuple itself for duplicates (set / count), which is left undecided."""
    from ..model import guards_of
    rep = ctx.rep
    rel = "cardillo/system.py"
    fn = ctx.repo.get(rel, "System.add")
    C = f"{rel}:System.add"
    apps = [w for w in ast.walk(fn) if isinstance(w, ast.Expr) and isinstance(w.value, ast.Call) and isinstance(w.value.func, ast.Attribute) and w.value.func.attr in ("append", "extend", "insert")
            and norm_src(w.value.func.value) == "self.contributions"]
    if not apps:
        rep.ok(rule, C, "no append to self.contributions found (no verdict)", verdict="unknown", trivial=True)
        return
    own_dup_test = any(isinstance(w, ast.Call) and ((isinstance(w.func, ast.Name) and w.func.id == "set") or (isinstance(w.func, ast.Attribute) and w.func.attr == "count")) for w in ast.walk(fn))
    for ap in apps:
        gs = guards_of(ap, fn)
        ok_ = any((pol and re.sub(r"\s+", " ", t) in ("not contr in self.contributions", "contr not in self.contributions")) or
                  (pol and " not in self.contributions" in t) or (pol and t.startswith("not ") and t.endswith(" in self.contributions")) or
                  (not pol and t.endswith(" in self.contributions") and not t.startswith("not ") and " not in " not in t) for (t, pol) in gs)
        if ok_:
            rep.ok(rule, C, f"`{norm_src(ap)}` is guarded by the membership test in the same pass")
        elif own_dup_test:
            rep.ok(rule, C, f"`{norm_src(ap)}` is not guarded by the membership test, but the function tests its arguments for duplicates itself (no verdict)", verdict="unknown")
        else:
            rep.bad(rule, C, ap, f"`{norm_src(ap)}` is not guarded by `... in self.contributions` in its own loop pass: a membership test done beforehand sees the state before the call only, so an "
                    "object that occurs twice among the arguments is appended twice, registered under two names (one stale) and evaluated twice after assemble()", f"{rel}:{ap.lineno}")


def assemble_accumulators_reset(ctx, rule="C14.R16"):
    """System.assemble counts and collects: `self.nq += ...`, `e_N.extend(...)`, ...  Whatever it accumulates into an attribute of the
    system must start from a value bound in assemble itself, on every path before the accumulation - an accumulator created in __init__
    grows with every re-assembly (set_new_initial_state re-assembles)."""
    from ..cfg import CFG
    rep = ctx.rep
    rel = "cardillo/system.py"
    fn = ctx.repo.get(rel, "System.assemble")
    C = f"{rel}:System.assemble"
    cfg = CFG(fn)
    binds = {}
    for w in ast.walk(fn):
        if isinstance(w, ast.Assign):
            for t in w.targets:
                for tt in (t.elts if isinstance(t, ast.Tuple) else [t]):
                    if isinstance(tt, ast.Attribute) and dotted(tt.value) == "self":
                        binds.setdefault(tt.attr, []).append(w)
    acc = []
    for w in ast.walk(fn):
        if isinstance(w, ast.AugAssign) and isinstance(w.target, ast.Attribute) and dotted(w.target.value) == "self":
            acc.append((w, w.target.attr))
        elif isinstance(w, ast.Expr) and isinstance(w.value, ast.Call) and isinstance(w.value.func, ast.Attribute) and w.value.func.attr in ("append", "extend", "update", "add", "insert") \
                and isinstance(w.value.func.value, ast.Attribute) and dotted(w.value.func.value.value) == "self":
            acc.append((w, w.value.func.value.attr))
    seen = set()
    n = 0
    for w, a in acc:
        if a in seen:
            continue
        seen.add(a)
        n += 1
        wn = cfg.node_of(w)
        ok_ = any(cfg.node_of(b) is not None and wn is not None and cfg.dominates(cfg.node_of(b), wn) for b in binds.get(a, []))
        if ok_:
            rep.ok(rule, C, f"self.{a} is accumulated from a value bound earlier in assemble")
        else:
            rep.bad(rule, C, w, f"`{norm_src(w)[:70]}` accumulates into self.{a}, which assemble does not bind first: the attribute keeps what the previous assembly put there, so after "
                    "assemble() / set_new_initial_state() it holds every entry twice", f"{rel}:{w.lineno}")
    if n < 8:
        raise AnalysisError(f"{rule}: only {n} accumulated attributes found in System.assemble")


def persistent_containers_fresh(ctx, rule="C14.R15"):
    """K8: `coo[rows, cols] = block` on a CooMatrix appends triplets (duplicates are summed on conversion).  A CooMatrix bound to `self.X` is
    state that survives the call; the pinned tree creates it in the same routine that fills it (`_M_coo`, `_c_la_c_coo`, both run by
    assembler_callback), so each assembly starts from an empty container.  Every item store / extend on such an attribute must be dominated,
    in its own function, by a rebinding of the attribute to a fresh CooMatrix."""
    from ..cfg import CFG
    rep = ctx.rep
    n = 0
    for rel, mod in sorted(ctx.repo.modules.items()):
        if not rel.startswith("cardillo/") or rel.startswith("cardillo/utility/"):
            continue
        for cls in [c for c in ast.walk(mod.tree) if isinstance(c, ast.ClassDef)]:
            fresh_attrs = set()
            for w in ast.walk(cls):
                if isinstance(w, ast.Assign) and len(w.targets) == 1 and isinstance(w.targets[0], ast.Attribute) and isinstance(w.targets[0].value, ast.Name) \
                        and w.targets[0].value.id == "self" and isinstance(w.value, ast.Call) and (dotted(w.value.func) or "").split(".")[-1] == "CooMatrix":
                    fresh_attrs.add(w.targets[0].attr)
            if not fresh_attrs:
                continue
            for fn in [f for f in cls.body if isinstance(f, ast.FunctionDef)]:
                writes = []
                for w in ast.walk(fn):
                    tgt = None
                    if isinstance(w, (ast.Assign, ast.AugAssign)):
                        for t in (w.targets if isinstance(w, ast.Assign) else [w.target]):
                            if isinstance(t, ast.Subscript) and isinstance(t.value, ast.Attribute) and isinstance(t.value.value, ast.Name) and t.value.value.id == "self" \
                                    and t.value.attr in fresh_attrs:
                                tgt = t.value.attr
                    elif isinstance(w, ast.Expr) and isinstance(w.value, ast.Call) and isinstance(w.value.func, ast.Attribute) and w.value.func.attr == "extend" \
                            and isinstance(w.value.func.value, ast.Attribute) and dotted(w.value.func.value.value) == "self" and w.value.func.value.attr in fresh_attrs:
                        tgt = w.value.func.value.attr
                    if tgt:
                        writes.append((w, tgt))
                if not writes:
                    continue
                cfg = CFG(fn)
                C = f"{rel}:{cls.name}.{fn.name}"
                for attr in sorted({a for _, a in writes}):
                    n += 1
                    binds = [w for w in ast.walk(fn) if isinstance(w, ast.Assign) and len(w.targets) == 1 and isinstance(w.targets[0], ast.Attribute) and dotted(w.targets[0].value) == "self"
                             and w.targets[0].attr == attr and isinstance(w.value, ast.Call) and (dotted(w.value.func) or "").split(".")[-1] == "CooMatrix"]
                    bnodes = [cfg.node_of(b) for b in binds]
                    bad = None
                    for w, a in writes:
                        if a != attr:
                            continue
                        wn = cfg.node_of(w)
                        if not any(bn is not None and wn is not None and cfg.dominates(bn, wn) for bn in bnodes):
                            bad = w
                            break
                    if bad is None:
                        rep.ok(rule, C, f"self.{attr} is rebound to a fresh CooMatrix before it is filled ({sum(1 for _, a in writes if a == attr)} store site(s))")
                    elif fn.name == "__init__":
                        rep.ok(rule, C, f"self.{attr} is filled by the constructor only", trivial=True)
                    else:
                        rep.bad(rule, C, bad, f"`{norm_src(bad)[:70]}` appends to the persistent container self.{attr}, which this routine does not create: the container is allocated elsewhere "
                                "(constructor) and every further call - each System.assemble() runs the callbacks again - adds another copy of all blocks, which the conversion sums",
                                f"{rel}:{bad.lineno}")
    rep.note(f"{rule}: {n} persistent CooMatrix attribute(s) with item stores (2 on the pinned tree: the rods' constant mass and compliance matrices)")


def run(ctx):
    rep = ctx.rep
    rep.rule("C14.R1", "registry pairing contributions <-> contributions_map on every normal path", 3)
    rep.rule("C14.R2", "counter discipline in System.assemble", 20)
    rep.rule("C14.R3", "index-kind typing of contr.*DOF subscripts", 150)
    rep.rule("C14.R4", "plain '=' into allocated system vectors only on owned index sets", 15)
    rep.rule("C14.R5", "list/callee co-definition (non-contact, non-E_pot families)", 40)
    rep.rule("C14.R6", "scatter method m calls contr.m (frozen exception table)", 60)
    rep.rule("C14.R8", "accumulation into index sets that may repeat an index (uDOF/qDOF of interactions) is unbuffered (np.add.at / COO)", 1)
    rep.rule("C14.R19", "System.step_callback threads ONE state through the contributions' callbacks: each callback sees what the earlier ones wrote (a contribution without own coordinates that returns its bodies' coordinates unchanged must not overwrite their projection with a stale snapshot)", 5)
    from .c17 import callback_threading
    callback_threading(ctx, "C14.R19")
    rep.rule("C14.R18", "assemble() decides for EACH contribution, by looking at that object, which per-property lists it joins (optional quantities are bound per instance: gamma_F only with mu > 0, h or c by compliance_form): no decision cached per type or taken from another instance", 1)
    property_scan_per_instance(ctx)
    rep.rule("C14.R17", "System.add tests 'already part of the system' in the same loop pass that appends: the test has to see what the same call has appended so far (an object listed twice in one add() must be rejected at its second occurrence)", 1)
    add_membership_sees_same_call(ctx)
    rep.rule("C14.R16", "every attribute System.assemble accumulates into (counters, index lists, connectivity) is bound in assemble itself before the accumulation", 8)
    assemble_accumulators_reset(ctx)
    rep.rule("C14.R15", "a CooMatrix kept on a contribution (constant mass / compliance matrix) is created in the routine that fills it: item stores into a CooMatrix APPEND, so a container created once and filled on every assembly holds k copies after the k-th assemble()", 0)
    persistent_containers_fresh(ctx)
    rep.rule("C14.R11", "System state that evaluation methods fill in (memoised conversions, lists) is re-initialised by assemble()", 1)
    rep.rule("C14.R10", "a contribution's stored initial state (q0 / u0) is written from its OWNED index set (my_qDOF / my_uDOF), the set the layout was built from", 2)
    rep.rule("C14.R9", "the name that is inserted into the registry has been tested for uniqueness after its last change", 2)
    rep.rule("C14.R7", "repeatability: marker attributes are constructor data; the unique-name counter is monotone", 12)
    rep.rule("C14.R14", "the dense form of a system matrix is the SUM of the contributions' blocks: every CooMatrix conversion goes through a duplicate-summing constructor (shared with C15.R7)", 4)
    from .c15 import r7_conversions
    r7_conversions(ctx, "C14.R14")
    rep.rule("C14.R13", "contributions that copy their subsystem's DOF tables run the subsystem's assembler_callback first (independent of the order of the contribution list)", 3)
    r13_subsystem_first(ctx)
    rep.rule("C14.R12", "System hands per-contribution callables (set_tau) that bind the contribution when they are created, not when they are called (K16 late binding)", 1)
    r12_closures(ctx)
    sm = sysmodel.SystemModel(ctx)
    r1_registry(ctx, sm)
    r2_counters(ctx, sm)
    r3_r4_r6_scatter(ctx, sm)
    _r8_add_at(ctx, sm)
    sysmodel.codefinition(ctx, sm, "C14.R5", family=lambda p, m: not sysmodel.is_contact(m) and m != "E_pot")
    r7_markers_and_counter(ctx, sm)
    r9_final_name_unique(ctx, sm)
    r10_state_writeback(ctx, sm)
    r11_evaluation_state(ctx, sm)


# --------------------------------------------------------------------------
LIST_MUT_ADD = {"append", "insert", "extend"}
LIST_MUT_DEL = {"remove", "pop", "clear"}


def _is_self_attr(node, attr):
    return isinstance(node, ast.Attribute) and node.attr == attr and isinstance(node.value, ast.Name) and node.value.id == "self"


def _list_mutation(stmt):
    """('add'|'del', node) if the simple statement mutates self.contributions."""
    for n in ast.walk(stmt):
        if isinstance(n, ast.Call) and isinstance(n.func, ast.Attribute) and _is_self_attr(n.func.value, "contributions"):
            if n.func.attr in LIST_MUT_ADD:
                return "add"
            if n.func.attr in LIST_MUT_DEL:
                return "del"
    if isinstance(stmt, ast.Delete):
        for t in stmt.targets:
            if isinstance(t, ast.Subscript) and _is_self_attr(t.value, "contributions"):
                return "del"
    if isinstance(stmt, (ast.Assign, ast.AugAssign)):
        tg = stmt.targets if isinstance(stmt, ast.Assign) else [stmt.target]
        for t in tg:
            if _is_self_attr(t, "contributions") or (isinstance(t, ast.Subscript) and _is_self_attr(t.value, "contributions")):
                return "reset"
    return None


def _map_mutation(stmt):
    for n in ast.walk(stmt):
        if isinstance(n, ast.Call) and isinstance(n.func, ast.Attribute) and _is_self_attr(n.func.value, "contributions_map"):
            if n.func.attr in ("pop", "popitem", "clear", "__delitem__"):
                return "del"
            if n.func.attr in ("update", "setdefault", "__setitem__"):
                return "add"
    if isinstance(stmt, ast.Delete):
        for t in stmt.targets:
            if isinstance(t, ast.Subscript) and _is_self_attr(t.value, "contributions_map"):
                return "del"
    if isinstance(stmt, (ast.Assign, ast.AugAssign)):
        tg = stmt.targets if isinstance(stmt, ast.Assign) else [stmt.target]
        for t in tg:
            if isinstance(t, ast.Subscript) and _is_self_attr(t.value, "contributions_map"):
                return "add"
            if _is_self_attr(t, "contributions_map"):
                return "reset"
    return None


def r1_registry(ctx, sm):
    rep = ctx.rep
    cls = sm.system
    n_inst = 0
    for mname, fn in cls.methods.items():
        cfg = CFG(fn)
        muts = []
        for node in cfg.nodes:
            if node.kind != "stmt":
                continue
            k = _list_mutation(node.ast)
            if k:
                muts.append((node, k))
        if not muts:
            continue
        construct = f"{SYS}:System.{mname}"
        for node, k in muts:
            n_inst += 1
            if k == "reset":
                # (re)initialisation: map must be reset in the same method
                ok = any(n2.kind == "stmt" and _map_mutation(n2.ast) == "reset" for n2 in cfg.nodes)
                if ok:
                    rep.ok("C14.R1", construct, node.ast)
                else:
                    rep.bad("C14.R1", construct, node.ast, "contributions is (re)bound without re-binding contributions_map",
                            f"{SYS}:{node.lineno}")
                continue
            want = k
            is_match = lambda n2: n2.kind == "stmt" and _map_mutation(n2.ast) == want
            # region boundary: function exit or the header of the innermost enclosing loop
            hdr = _enclosing_loop_header(cfg, node)
            targets = [cfg.exit] + ([hdr] if hdr is not None else [])
            fwd_ok = True
            for tgt in targets:
                path = cfg.find_path([s for s, _ in node.succ], tgt, blocked=lambda n2: is_match(n2))
                if path is not None:
                    fwd_ok = False
                    break
            # alternative: the matching map update happened before on every path from region start
            bwd_ok = False
            if not fwd_ok:
                starts = [cfg.entry] if hdr is None else [(hdr, "body")]
                p2 = cfg.find_path(starts, node, blocked=lambda n2: is_match(n2))
                bwd_ok = p2 is None
            if fwd_ok or bwd_ok:
                rep.ok("C14.R1", construct, node.ast)
            else:
                what = "insertion into" if want == "add" else "removal from"
                rep.bad("C14.R1", construct, node.ast,
                        f"{what} self.contributions without the matching update of self.contributions_map on a normal path "
                        f"(name registry no longer maps exactly the current contributions)", f"{SYS}:{node.lineno}")
        # uniqueness of names: each insertion into the map is preceded by the membership test with a rename
        for node in cfg.nodes:
            if node.kind == "stmt" and _map_mutation(node.ast) == "add" and isinstance(node.ast, ast.Assign):
                n_inst += 1
                t = node.ast.targets[0]
                key = norm_src(t.slice)
                hdr = _enclosing_loop_header(cfg, node)
                starts = [cfg.entry] if hdr is None else [(hdr, "body")]

                def is_test(n2, key=key):
                    return n2.kind == "test" and isinstance(n2.ast, ast.Compare) and len(n2.ast.ops) == 1 \
                        and isinstance(n2.ast.ops[0], (ast.In, ast.NotIn)) and norm_src(n2.ast.left) == key \
                        and _is_self_attr(n2.ast.comparators[0], "contributions_map")

                p1 = cfg.find_path(starts, node, blocked=is_test)
                if p1 is not None:
                    rep.bad("C14.R1", construct, node.ast,
                            "insertion into contributions_map not dominated by the uniqueness test `name in contributions_map`",
                            f"{SYS}:{node.lineno}")
                    continue
                # on the branch where the name is already present, the key expression must be re-assigned
                tests = [n2 for n2 in cfg.nodes if is_test(n2)]
                bad = False
                for tn in tests:
                    present_label = isinstance(tn.ast.ops[0], ast.In)
                    p3 = cfg.find_path([(tn, present_label)], node,
                                       blocked=lambda n2: n2.kind == "stmt" and isinstance(n2.ast, ast.Assign) and any(
                                           norm_src(tt) == key for tt in n2.ast.targets))
                    if p3 is not None:
                        bad = True
                if bad:
                    rep.bad("C14.R1", construct, node.ast,
                            "a name that is already registered reaches the map insertion without being renamed (overwrites the entry)",
                            f"{SYS}:{node.lineno}")
                else:
                    rep.ok("C14.R1", construct, f"uniqueness test precedes {norm_src(node.ast)}")
    if n_inst == 0:
        raise AnalysisError("C14.R1: no mutation of self.contributions found in System")


def _enclosing_loop_header(cfg, node):
    from ..core import enclosing
    a = node.owner if node.owner is not None else node.ast
    loop = enclosing(a, (ast.For, ast.While))
    if loop is None:
        return None
    # stop at function boundary
    fn = enclosing(a, (ast.FunctionDef, ast.Lambda))
    if enclosing(loop, (ast.FunctionDef, ast.Lambda)) is not fn and loop is not None and fn is not cfg.fn:
        return None
    return cfg.node_of(loop)


# --------------------------------------------------------------------------
COUNTERS = ["nq", "nu", "nla_g", "nla_gamma", "nla_c", "nla_tau", "ntau", "nla_S", "nla_N", "nla_F"]
DOF_OF = {"nq": ["my_qDOF"], "nu": ["my_uDOF"], "nla_g": ["la_gDOF"], "nla_gamma": ["la_gammaDOF"], "nla_c": ["la_cDOF"],
          "nla_tau": ["la_tauDOF"], "ntau": ["tauDOF"], "nla_S": ["la_SDOF"], "nla_N": ["la_NDOF"], "nla_F": ["la_FDOF"]}


def r2_counters(ctx, sm):
    rep = ctx.rep
    fn = sm.system.methods.get("assemble")
    if fn is None:
        raise AnalysisError("System.assemble vanished")
    construct = f"{SYS}:System.assemble"
    cfg = CFG(fn)
    # the assembly loop: `for contr in self.contributions`
    loop = None
    for n in walk_no_nested(fn):
        if isinstance(n, ast.For) and _is_self_attr(n.iter, "contributions"):
            loop = n
            break
    if loop is None:
        raise AnalysisError("assembly loop `for contr in self.contributions` not found in System.assemble")
    var = loop.target.id
    lh = cfg.node_of(loop)
    # (a) zeroing dominates the loop
    for c in COUNTERS:
        zero = [n for n in cfg.nodes if n.kind == "stmt" and isinstance(n.ast, ast.Assign) and any(_is_self_attr(t, c) for t in n.ast.targets)
                and isinstance(n.ast.value, ast.Constant) and n.ast.value.value == 0]
        if any(cfg.dominates(z, lh) for z in zero):
            rep.ok("C14.R2", construct, f"self.{c} = 0 dominates the assembly loop")
        else:
            rep.bad("C14.R2", construct, f"self.{c} = 0", f"counter self.{c} is not reset to 0 before the assembly loop "
                    f"(a second assemble would shift every index set)", f"{SYS}:{loop.lineno}")
    # (b) per-kind blocks
    found = set()
    for n in ast.walk(loop):
        if not isinstance(n, ast.Assign) or len(n.targets) != 1:
            continue
        t = n.targets[0]
        if not (isinstance(t, ast.Attribute) and isinstance(t.value, ast.Name) and t.value.id == var and t.attr.endswith("DOF")):
            continue
        dof = t.attr
        v = n.value
        if dof in ("qDOF", "uDOF"):
            # must be a copy of my_qDOF / my_uDOF
            want = f"{var}.my_{dof}.copy()"
            if norm_src(v) == want:
                rep.ok("C14.R2", construct, n)
            else:
                rep.bad("C14.R2", construct, n, f"{var}.{dof} must be initialised as {want}", f"{SYS}:{n.lineno}")
            continue
        kinds = [k for k, ds in DOF_OF.items() if dof in ds]
        if not kinds:
            rep.note(f"C14.R2: unclassified DOF attribute {dof} in assemble")
            continue
        k = kinds[0]
        found.add(k)
        want = f"np.arange(0, {var}.{k}) + self.{k}"
        alt = f"self.{k} + np.arange(0, {var}.{k})"
        alt2 = f"np.arange({var}.{k}) + self.{k}"
        if norm_src(v) not in (want, alt, alt2):
            rep.bad("C14.R2", construct, n, f"index set {dof} must be arange(0, {var}.{k}) + self.{k} (offset by the running counter of the same kind)",
                    f"{SYS}:{n.lineno}")
            continue
        # guard hasattr(contr, "nK")
        from ..model import guards_of
        g = guards_of(n, fn)
        if (f"hasattr({var}, '{k}')", True) not in g:
            rep.bad("C14.R2", construct, n, f"index set {dof} is not guarded by hasattr({var}, '{k}')", f"{SYS}:{n.lineno}")
            continue
        # followed by self.nK += contr.nK in the same block, before any other use of self.nK
        blk = _block_of(n)
        idx = blk.index(n)
        inc_ok = False
        for s in blk[idx + 1:]:
            if isinstance(s, ast.AugAssign) and isinstance(s.op, ast.Add) and _is_self_attr(s.target, k) and norm_src(s.value) == f"{var}.{k}":
                inc_ok = True
                break
            if any(_is_self_attr(x, k) for x in ast.walk(s)):
                break
        # and no other increments of that counter inside the loop
        n_inc = sum(1 for s in ast.walk(loop) if isinstance(s, (ast.AugAssign, ast.Assign)) and any(
            _is_self_attr(x, k) for x in ([s.target] if isinstance(s, ast.AugAssign) else s.targets)))
        if inc_ok and n_inc == 1:
            rep.ok("C14.R2", construct, f"{norm_src(n)} ; self.{k} += {var}.{k}")
        else:
            rep.bad("C14.R2", construct, n, f"index set {dof} is not followed by exactly one `self.{k} += {var}.{k}` (partition of the global range breaks)",
                    f"{SYS}:{n.lineno}")
    for k in COUNTERS:
        if k not in found:
            rep.bad("C14.R2", construct, f"{var}.{DOF_OF[k][0]} = ...", f"no index set is assigned for counter {k}", f"{SYS}:{loop.lineno}")
    # (c) per-property lists are re-created on every assemble, before the loop
    recreated = False
    for n in cfg.nodes:
        if n.kind == "stmt" and isinstance(n.ast, ast.Expr) and isinstance(n.ast.value, ast.Call) and dotted(n.ast.value.func) == "setattr":
            args = n.ast.value.args
            if len(args) == 3 and isinstance(args[2], ast.List) and not args[2].elts and "_contr" in norm_src(args[1]):
                from ..core import enclosing
                outer = enclosing(n.ast, (ast.For,))
                if cfg.dominates(n, lh) or (outer is not None and norm_src(outer.iter) == "properties"
                                            and cfg.node_of(outer) is not None and cfg.dominates(cfg.node_of(outer), lh)):
                    recreated = True
    if recreated:
        rep.ok("C14.R2", construct, "per-property contribution lists are re-created ([]) before the assembly loop")
    else:
        rep.bad("C14.R2", construct, "setattr(self, f'_System__{p}_contr', [])",
                "per-property contribution lists are not re-created before the assembly loop (re-assembly would duplicate contributions)",
                f"{SYS}:{loop.lineno}")


def _block_of(stmt):
    p = parent(stmt)
    for fld in ("body", "orelse", "finalbody"):
        b = getattr(p, fld, None)
        if isinstance(b, list) and any(s is stmt for s in b):
            return b
    return [stmt]


# --------------------------------------------------------------------------
def r7_markers_and_counter(ctx, sm):
    """(a) System.assemble decides by hasattr(contr, "n<kind>") which index sets a contribution owns.  If a contribution creates
    such a marker outside its constructor (e.g. in assembler_callback) its status changes with the first assembly and a second
    assemble() / set_new_initial_state() lays the system out differently.  (b) names stay unique only if the counter that
    supplies the unique suffix never goes down and is advanced with every insertion."""
    rep = ctx.rep
    markers = set()
    fn = sm.system.methods["assemble"]
    for n in ast.walk(fn):
        if isinstance(n, ast.Call) and dotted(n.func) == "hasattr" and len(n.args) == 2 and isinstance(n.args[1], ast.Constant) \
                and isinstance(n.args[0], ast.Name) and n.args[0].id == "contr":
            markers.add(n.args[1].value)
    markers = {m for m in markers if m.startswith("n")}
    if len(markers) < 8:
        raise AnalysisError("marker attributes of System.assemble not recognised")
    skip = ("cardillo/system.py", "cardillo/solver/", "cardillo/visualization/", "cardillo/utility/", "cardillo/math/", "cardillo/rods/discretization/")
    for ci in sm.model.all_classes():
        if ci.rel.startswith(skip):
            continue
        for m in sorted(markers):
            for st in ci.stores.get(m, []):
                C = f"{ci.rel}:{ci.qual}.{st.method}"
                if st.method == "__init__":
                    rep.ok("C14.R7", C, f"self.{m} is constructor data")
                else:
                    rep.bad("C14.R7", C, st.node, f"`self.{m}` is the marker by which System.assemble/set_new_initial_state recognise an owner of {m[1:]}-index "
                            f"sets, but it is created in `{st.method}` (after the first assembly): assembling again, or restarting, treats the "
                            f"contribution differently (allocates index sets, reads its q0/u0) - the layout is not repeatable", f"{ci.rel}:{st.node.lineno}")
    # (b) unique-suffix counter
    for mname, f2 in sm.system.methods.items():
        for n in ast.walk(f2):
            if isinstance(n, ast.AugAssign) and _is_self_attr(n.target, "ncontr"):
                C = f"{SYS}:System.{mname}"
                if isinstance(n.op, ast.Add) and isinstance(n.value, ast.Constant) and n.value.value > 0:
                    rep.ok("C14.R7", C, norm_src(n))
                else:
                    rep.bad("C14.R7", C, n, "the counter that supplies the unique name suffix is decreased/changed non-monotonically: a suffix can be handed out "
                            "twice, so two contributions get the same name and the registry overwrites one of them", f"{SYS}:{n.lineno}")
            if isinstance(n, ast.Assign) and any(_is_self_attr(t, "ncontr") for t in n.targets):
                C = f"{SYS}:System.{mname}"
                if mname == "__init__" and isinstance(n.value, ast.Constant) and n.value.value == 0:
                    rep.ok("C14.R7", C, norm_src(n))
                else:
                    rep.bad("C14.R7", C, n, "the unique-suffix counter is re-bound outside the constructor (suffixes can repeat)", f"{SYS}:{n.lineno}")
    add = sm.system.methods["add"]
    cfg = CFG(add)
    ins = [n for n in cfg.nodes if n.kind == "stmt" and _map_mutation(n.ast) == "add"]
    inc = [n for n in cfg.nodes if n.kind == "stmt" and isinstance(n.ast, ast.AugAssign) and _is_self_attr(n.ast.target, "ncontr")]
    C = f"{SYS}:System.add"
    if ins and inc:
        hdr = _enclosing_loop_header(cfg, ins[0])
        targets = [cfg.exit] + ([hdr] if hdr is not None else [])
        leak = any(cfg.find_path([s for s, _ in ins[0].succ], t, blocked=lambda m: m is inc[0]) is not None for t in targets)
        if leak:
            rep.bad("C14.R7", C, ins[0].ast, "an insertion into the registry is not followed by `self.ncontr += 1` on every path", f"{SYS}:{ins[0].lineno}")
        else:
            rep.ok("C14.R7", C, "every registry insertion advances the unique-suffix counter")
    else:
        rep.bad("C14.R7", C, "self.ncontr += 1", "registry insertion / counter increment not found", f"{SYS}:{add.lineno}")


# contribution-list key -> multiplier index set that every member of the list owns
KEY_KIND = {"g": "la_g", "gamma": "la_gamma", "c": "la_c", "c_q": "la_c", "c_u": "la_c", "g_S": "la_S", "g_N": "la_N",
            "gamma_F": "la_F", "gamma_F_q": "la_F", "la_tau": "la_tau", "tau": "tau"}

OWNED = {"my_q", "la_g", "la_gamma", "la_c", "la_tau", "tau", "la_S", "la_N", "la_F"}

# scatter method -> contribution method it must call (exceptions to `same name`), each with its reason
CALLEE_EXCEPTIONS = {
    "xi_N": {"g_N_dot"},        # Newton impact law: xi_N = g_N_dot(post) + e_N g_N_dot(pre)
    "xi_N_q": {"g_N_dot_q"},    # derivative of the post-impact part
    "xi_F": {"gamma_F"},        # same for friction
    "xi_F_q": {"gamma_F_q"},
    "assemble": {"M", "c_la_c"},  # constant parts are cached at assembly
    "set_new_initial_state": set(), "export": set(), "reset": {"reset"}, "add": set(), "remove": set(),
    "set_tau": set(), "set_tau_from_dict": set(),
}


def r3_r4_r6_scatter(ctx, sm):
    rep = ctx.rep
    for mname, fn in sm.system.methods.items():
        construct = f"{SYS}:System.{mname}"
        for loop in sm.contr_loops(fn):
            var = loop.var
            env = sm.local_env(fn)
            # --- R6 callee agreement
            for call in loop.contr_calls:
                callee = call.func.attr
                allowed = CALLEE_EXCEPTIONS.get(mname, {mname})
                if mname in CALLEE_EXCEPTIONS and not allowed:
                    continue
                if callee in allowed:
                    rep.ok("C14.R6", construct, f"{var}.{callee}(...)")
                else:
                    rep.bad("C14.R6", construct, call, f"System.{mname} scatters {var}.{callee}(...) instead of {var}.{'/'.join(sorted(allowed))}(...)",
                            f"{SYS}:{call.lineno}")
            # --- R3b: multiplier index sets used in a loop are the ones the iterated list guarantees
            if loop.key is not None:
                guaranteed = KEY_KIND.get(loop.key)
                for sub in loop.dof_subscripts:
                    idx = sub.slice
                    for e in (idx.elts if isinstance(idx, ast.Tuple) else [idx]):
                        k = sm.dof_kind(e, var)
                        if k is None or k in ("q", "u", "my_q", "my_u"):
                            continue
                        if guaranteed == k:
                            rep.ok("C14.R3", construct, f"loop over __{loop.key}_contr uses {var}.{k}DOF")
                        else:
                            rep.bad("C14.R3", construct, sub,
                                    f"loop over the '{loop.key}' contributions uses the index set {var}.{k}DOF, which only "
                                    f"contributions registered under {sorted(p for p, kk in KEY_KIND.items() if kk == k)} own",
                                    f"{SYS}:{sub.lineno}")
            # --- R3 kind typing of every subscript indexed by contr.*DOF
            for sub in loop.dof_subscripts:
                base = sub.value
                idx = sub.slice
                elts = idx.elts if isinstance(idx, ast.Tuple) else [idx]
                got = []
                okform = True
                for e in elts:
                    k = sm.dof_kind(e, var)
                    if k is None:
                        okform = False
                    got.append(k)
                if not okform:
                    rep.note(f"C14.R3: subscript not classified: {norm_src(sub)} in System.{mname}")
                    continue
                want = sm.axis_kinds(base, env, fn)
                if want is None:
                    rep.note(f"C14.R3: base not classified: {norm_src(sub)} in System.{mname}")
                    continue
                norm_got = [sysmodel.kind_eq(g) for g in got]
                if len(want) != len(got):
                    rep.bad("C14.R3", construct, sub, f"{len(got)} index sets for an object with {len(want)} axes", f"{SYS}:{sub.lineno}")
                elif all(w is None or w == g for w, g in zip(want, norm_got)):
                    rep.ok("C14.R3", construct, f"{norm_src(sub)} : axes {want}")
                else:
                    rep.bad("C14.R3", construct, sub,
                            f"index kinds {got} do not match the axes {want} of `{norm_src(base)}` (block lands on the wrong degrees of freedom)",
                            f"{SYS}:{sub.lineno}")
            # --- R4 accumulate vs overwrite
            for st in loop.stores:
                tgt = st.targets[0] if isinstance(st, ast.Assign) else st.target
                tgts = list(tgt.elts) if isinstance(tgt, ast.Tuple) else [tgt]
                for tg in tgts:
                    if not isinstance(tg, ast.Subscript) or not isinstance(tg.value, ast.Name):
                        continue
                    alloc = env.get(tg.value.id)
                    if alloc is None or alloc[0] != "zeros":
                        continue
                    k = sm.dof_kind(tg.slice, var)
                    if k is None:
                        continue
                    if isinstance(st, ast.AugAssign):
                        rep.ok("C14.R4", construct, st, "accumulates")
                        if k not in OWNED:
                            # x[idx] += v is buffered: an index that occurs twice in idx receives only ONE of its summands.  The shared
                            # sets are concatenations of subsystem sets (concatenate_uDOF) and repeat every index when both ends of an
                            # interaction sit on the same body / rod, while the matrices (COO, duplicates summed) keep both terms.
                            rep.bad("C14.R8", construct, st, f"`{norm_src(tg)} += ...` on the shared index set {var}.{k}DOF: fancy-index `+=` is buffered, so when the set repeats an "
                                    f"index (two-point interaction between two points of the same body or rod) one of the two summands is lost and the vector no longer is "
                                    f"the sum of the local contributions (and disagrees with its COO-assembled Jacobian)", f"{SYS}:{st.lineno}")
                    elif k in OWNED:
                        rep.ok("C14.R4", construct, st, f"plain store into owned index set ({k})")
                    else:
                        rep.bad("C14.R4", construct, st,
                                f"plain '=' into the shared index set {var}.{k}DOF of a freshly allocated system vector: contributions "
                                f"acting on the same degrees of freedom overwrite each other instead of adding up", f"{SYS}:{st.lineno}")


def _r8_add_at(ctx, sm):
    rep = ctx.rep
    for mname, fn in sm.system.methods.items():
        construct = f"{SYS}:System.{mname}"
        for loop in sm.contr_loops(fn):
            for call in loop.add_at:
                if len(call.args) >= 2:
                    k = sm.dof_kind(call.args[1], loop.var)
                    if k is not None:
                        rep.ok("C14.R8", construct, f"{norm_src(call)[:90]}: unbuffered accumulation on {loop.var}.{k}DOF")


SETUP_METHODS = {"__init__", "assemble", "add", "remove", "pop", "extend", "deepcopy", "set_new_initial_state", "assembler_callback", "reset",
                 "set_tau", "set_tau_from_dict", "export", "get_contribution_list"}


def r11_evaluation_state(ctx, sm):
    """'calling assemble again ... leaves the layout and every evaluation unchanged' and evaluations follow the current contributions:
    an attribute of System that an EVALUATION method writes (a memo dict, a remembered conversion) survives a re-assembly unless
    assemble() itself (or a method assemble calls) re-creates it."""
    rep = ctx.rep
    methods = sm.system.methods
    asm = methods.get("assemble")
    if asm is None:
        raise AnalysisError("System.assemble vanished")
    # attributes (re)bound by assemble and by the System methods it calls
    rebound = set()
    work, seen = [asm], set()
    while work:
        f = work.pop()
        if id(f) in seen:
            continue
        seen.add(id(f))
        for w in ast.walk(f):
            if isinstance(w, ast.Assign):
                for t in w.targets:
                    for tt in (t.elts if isinstance(t, (ast.Tuple, ast.List)) else [t]):
                        if isinstance(tt, ast.Attribute) and isinstance(tt.value, ast.Name) and tt.value.id == "self":
                            rebound.add(tt.attr)
            if isinstance(w, ast.Call) and isinstance(w.func, ast.Attribute) and isinstance(w.func.value, ast.Name) and w.func.value.id == "self" and w.func.attr in methods:
                work.append(methods[w.func.attr])
    n = 0
    for mname, fn in methods.items():
        if mname in SETUP_METHODS:
            continue
        written = {}
        for w in walk_no_nested(fn):
            tg = []
            if isinstance(w, ast.Assign):
                tg = w.targets
            elif isinstance(w, ast.AugAssign):
                tg = [w.target]
            for t in tg:
                for tt in (t.elts if isinstance(t, (ast.Tuple, ast.List)) else [t]):
                    base = tt
                    while isinstance(base, ast.Subscript):
                        base = base.value
                    if isinstance(base, ast.Attribute) and isinstance(base.value, ast.Name) and base.value.id == "self":
                        written.setdefault(base.attr, w)
            if isinstance(w, ast.Call) and isinstance(w.func, ast.Attribute) and w.func.attr in ("append", "extend", "setdefault", "update", "add") \
                    and isinstance(w.func.value, ast.Attribute) and isinstance(w.func.value.value, ast.Name) and w.func.value.value.id == "self":
                written.setdefault(w.func.value.attr, w)
        for a, node in sorted(written.items()):
            n += 1
            C = f"{SYS}:System.{mname}"
            mangled = a if not a.startswith("__") else "_System" + a
            if a in rebound or mangled in rebound:
                rep.ok("C14.R11", C, f"self.{a} is written here and re-created by assemble()")
            else:
                rep.bad("C14.R11", C, node, f"the evaluation method `{mname}` stores into `self.{a}`, which assemble() never re-creates: what was remembered for the previous set of "
                        "contributions (e.g. a converted mass matrix) is handed out again after contributions were added / removed and the system was re-assembled",
                        f"{SYS}:{node.lineno}")
    if n == 0:
        rep.ok("C14.R11", f"{SYS}:System", "no evaluation method of System writes an attribute of the system (nothing can go stale)", trivial=False)


def r13_subsystem_first(ctx, rule="C14.R13", want=lambda rel: True, floor=3):
    """Force laws, actuators and controllers copy qDOF / uDOF of the subsystem they act on (`self.subsystem.qDOF`).  Those tables are written
    by the subsystem's own assembler_callback; the copy is current only if that callback has run in THIS assembly before the copy is taken.
    System.assemble calls the callbacks in the order of the contribution list, which add / remove sequences change: a contribution that does
    not run `self.subsystem.assembler_callback()` itself (the idiom of the force laws) reads the previous layout when its subsystem comes later
    in the list - silently, if another body now owns those indices."""
    from .. import protocol
    rep = ctx.rep
    n = 0
    done = set()
    for ci in ctx.model.all_classes():
        if not ci.rel.startswith("cardillo/") or "assembler_callback" not in ci.methods or not want(ci.rel):
            continue
        fn = ci.methods["assembler_callback"]
        key = (ci.rel, ci.qual)
        if key in done:
            continue
        done.add(key)
        reads = [w for w in ast.walk(fn) if isinstance(w, ast.Attribute) and w.attr in ("qDOF", "uDOF") and dotted(w.value) == "self.subsystem" and isinstance(w.ctx, ast.Load)]
        if not reads:
            continue
        # only subsystems that DERIVE their DOF tables in their own assembler_callback matter (joints, interactions: the scalar interface
        # l / l_dot / W_l); a body's qDOF is written by System.assemble itself before any callback runs
        view0 = protocol.ClassView(ctx, ci)
        family = [d_ for d_ in ctx.model.all_classes() if d_.rel.startswith("cardillo/") and ci in protocol.ClassView(ctx, d_).mro]
        scalar = any(isinstance(w, ast.Attribute) and w.attr in ("l", "l_dot", "W_l", "l_q", "W_l_q") and dotted(w.value) == "self.subsystem"
                     for c_ in list(view0.mro) + family for f_ in c_.methods.values() for w in ast.walk(f_))
        if not scalar:
            continue
        n += 1
        first = min(r.lineno for r in reads)
        C = f"{ci.rel}:{ci.qual}.assembler_callback"

        def runs_first(cinfo, f, before):
            for st in f.body:
                if st.lineno >= before:
                    break
                if isinstance(st, ast.Expr) and isinstance(st.value, ast.Call):
                    src = norm_src(st.value.func)
                    if src == "self.subsystem.assembler_callback":
                        return True
                    if src == "super().assembler_callback":
                        view = protocol.ClassView(ctx, cinfo)
                        mro = view.mro
                        if cinfo in mro:
                            for cc in mro[mro.index(cinfo) + 1:]:
                                if "assembler_callback" in cc.methods:
                                    f2 = cc.methods["assembler_callback"]
                                    return runs_first(cc, f2, 10**9)
            return False
        if runs_first(ci, fn, first):
            rep.ok(rule, C, "runs self.subsystem.assembler_callback() before copying the subsystem's DOF tables")
        else:
            rep.bad(rule, C, reads[0], f"`{norm_src(reads[0])}` is copied without running `self.subsystem.assembler_callback()` first (the force laws do): if the subsystem stands later in "
                    "the contribution list - after a remove / add sequence - the copy is the layout of the PREVIOUS assembly and the contribution acts on coordinates that are not its "
                    "subsystem's (or the first assembly fails with AttributeError)", f"{ci.rel}:{reads[0].lineno}")
    if n < floor:
        raise AnalysisError(f"{rule}: only {n} assembler callbacks that copy a subsystem's DOF tables found")


def r12_closures(ctx):
    """System.set_tau distributes the control vector: every actuator gets a callable that picks ITS entries tau[contr.tauDOF].  A lambda
    created in the loop over the actuators looks `contr` up when it is called, i.e. after the loop: every actuator then reads the LAST
    actuator's entries (the system-level la_tau is no longer the contributions' own data at their own DOFs)."""
    from .. import closures
    rep = ctx.rep
    mod = ctx.repo.module(SYS)
    n = 0
    for q, fn in mod.defs().items():
        if not isinstance(fn, ast.FunctionDef) or not q.startswith("System."):
            continue
        lams = [w for w in ast.walk(fn) if isinstance(w, ast.Lambda) or (isinstance(w, ast.FunctionDef) and w is not fn)]
        loops = [w for w in ast.walk(fn) if isinstance(w, (ast.For, ast.While))]
        if not lams or not loops:
            continue
        if any(isinstance(w, ast.Raise) for w in fn.body[:1]):
            continue        # explicitly disabled (raise NotImplementedError first)
        found = closures.find(fn)
        n += 1
        C = f"{SYS}:{q}"
        if found:
            for clo, loop, late in found:
                rep.bad("C14.R12", C, clo, f"the closure `{norm_src(clo)[:70]}` is created inside a loop and reads {late}, which the loop re-binds: called later, every contribution's "
                        "callable uses the LAST contribution (with two actuators both return the second one's entries of tau)", f"{SYS}:{clo.lineno}")
        else:
            rep.ok("C14.R12", C, "closures created in loops bind the loop variable at creation (default argument) or do not outlive the iteration")


def r10_state_writeback(ctx, sm):
    """assemble() builds system.q0 by concatenating contr.q0 over the contributions that own coordinates and gives each of them
    my_qDOF = that slice.  Whatever writes contr.q0 / contr.u0 back must therefore read exactly that slice: qDOF / uDOF of an
    interaction (force law with internal coordinates, controller) is the concatenation of its own and its subsystems' sets, so
    writing q0 from it changes the length of q0 and shifts every later contribution at the next assemble()."""
    rep = ctx.rep
    n = 0
    want = {"q0": "my_qDOF", "u0": "my_uDOF"}
    for mname, fn in sm.system.methods.items():
        C = f"{SYS}:System.{mname}"
        for st in walk_no_nested(fn):
            if not isinstance(st, ast.Assign):
                continue
            for tg in st.targets:
                while isinstance(tg, ast.Subscript):      # contr.q0[:] = ... (in-place form) writes the same datum
                    tg = tg.value
                if isinstance(tg, ast.Attribute) and isinstance(tg.value, ast.Name) and tg.attr in want and tg.value.id not in ("self",):
                    var = tg.value.id
                    subs = [w for w in ast.walk(st.value) if isinstance(w, ast.Subscript) and isinstance(w.slice, ast.Attribute)
                            and isinstance(w.slice.value, ast.Name) and w.slice.value.id == var]
                    if not subs:
                        continue
                    n += 1
                    idx = subs[0].slice.attr
                    if idx == want[tg.attr]:
                        rep.ok("C14.R10", C, f"{norm_src(st)}")
                    else:
                        rep.bad("C14.R10", C, st, f"`{var}.{tg.attr}` is written from the index set `{var}.{idx}` instead of the owned set `{var}.{want[tg.attr]}`: for a contribution "
                                f"that also reads its subsystems' coordinates the stored initial state grows, and the next assemble() builds a longer, shifted system.{tg.attr}",
                                f"{SYS}:{st.lineno}")
    if n < 2:
        raise AnalysisError("C14.R10: the write-back of contr.q0 / contr.u0 in set_new_initial_state was not found")


def r9_final_name_unique(ctx, sm):
    """Every definition of the name under which a contribution is registered must, on every path to the insertion
    `self.contributions_map[contr.name] = contr`, pass a membership test of that name in the registry and leave it on the
    'not a member' edge.  A renamed name that is inserted without being tested again can collide with an existing entry."""
    rep = ctx.rep
    add = sm.system.methods.get("add")
    if add is None:
        raise AnalysisError("System.add vanished")
    C = f"{SYS}:System.add"
    cfg = CFG(add)
    ins = [n for n in cfg.nodes if n.kind == "stmt" and isinstance(n.ast, ast.Assign) and isinstance(n.ast.targets[0], ast.Subscript)
           and norm_src(n.ast.targets[0].value) == "self.contributions_map"]
    if len(ins) != 1:
        rep.note("C14.R9: not exactly one registry insertion in System.add (pairing is decided by C14.R1)")
        return
    store = ins[0]
    key = norm_src(store.ast.targets[0].slice)  # contr.name

    def member_test(n, name):
        """(True, label of the edge on which `name` is NOT in the registry) for test nodes on `name`"""
        if n.kind != "test":
            return None
        t = n.ast
        neg = False
        while isinstance(t, ast.UnaryOp) and isinstance(t.op, ast.Not):
            neg, t = not neg, t.operand
        if isinstance(t, ast.Compare) and len(t.ops) == 1 and norm_src(t.left) == name and norm_src(t.comparators[0]) in ("self.contributions_map", "self.contributions_map.keys()"):
            if isinstance(t.ops[0], ast.In):
                return (not neg) is False if False else (True if neg else False)
            if isinstance(t.ops[0], ast.NotIn):
                return False if neg else True
        return None

    def check_def(dnode, name, what):
        # is the store reachable from dnode without crossing a certifying edge of a membership test on `name`?
        def edge_ok(a, b, lab):
            cert = member_test(a, name)
            return not (cert is not None and lab == cert)
        starts = [m for m, _ in dnode.succ] if dnode is not cfg.entry else [cfg.entry]
        tgt = target_of[name]

        def redefines(n):
            # a later (re)definition of the same name ends this definition's obligation (it has its own)
            return n is not tgt and n is not dnode and n.kind == "stmt" and isinstance(n.ast, (ast.Assign, ast.AugAssign)) and any(
                norm_src(t) == name for t in (n.ast.targets if isinstance(n.ast, ast.Assign) else [n.ast.target]))
        reach = cfg.can_reach(starts, tgt, blocked=redefines, edge_ok=edge_ok)
        if reach:
            rep.bad("C14.R9", C, dnode.ast if dnode.ast is not None else key, f"{what} reaches `{norm_src(target_of[name].ast)}` without a test that it is not yet a key of "
                    "the registry: two contributions can end up under one name and the registry loses one of them", f"{SYS}:{dnode.lineno}")
        else:
            rep.ok("C14.R9", C, f"{what}: tested for uniqueness before it is used")

    target_of = {key: store}
    # definitions of contr.name inside add(), plus the name the contribution arrives with (entry)
    defs = [n for n in cfg.nodes if n.kind == "stmt" and isinstance(n.ast, ast.Assign) and any(norm_src(t) == key for t in n.ast.targets)]
    check_def(cfg.entry, key, f"the name a contribution arrives with (`{key}`)")
    for d in defs:
        v = d.ast.value
        if isinstance(v, ast.Name):
            # contr.name = new_name: the obligation moves to the local (tested before the assignment)
            target_of[v.id] = d
            vdefs = [n for n in cfg.nodes if n.kind == "stmt" and isinstance(n.ast, (ast.Assign, ast.AugAssign))
                     and any(norm_src(t) == v.id for t in (n.ast.targets if isinstance(n.ast, ast.Assign) else [n.ast.target]))]
            for vd in vdefs:
                check_def(vd, v.id, f"`{norm_src(vd.ast)}`")
        else:
            check_def(d, key, f"`{norm_src(d.ast)}`")


MUTANTS = [
    dict(id="c14-m1", canary=True, what="add(): drop the map insertion", file=SYS,
         old="                self.contributions_map[contr.name] = contr\n", new="                pass\n", expect="C14.R1"),
    dict(id="c14-m2", what="assemble(): la_g index set offset by the la_gamma counter", file=SYS,
         old="contr.la_gDOF = np.arange(0, contr.nla_g) + self.nla_g", new="contr.la_gDOF = np.arange(0, contr.nla_g) + self.nla_gamma", expect="C14.R2"),
    dict(id="c14-m3", what="assemble(): forget to advance nla_S", file=SYS,
         old="                self.nla_S += contr.nla_S\n", new="", expect="C14.R2"),
    dict(id="c14-m4", canary=True, what="h(): '+=' -> '='", file=SYS,
         old="np.add.at(h, contr.uDOF, contr.h(t, q[contr.qDOF], u[contr.uDOF]))", new="h[contr.uDOF] = contr.h(t, q[contr.qDOF], u[contr.uDOF])", expect="C14.R4"),
    dict(id="c14-r8-orig", canary=True, what="h(): buffered += on uDOF (original defect: repeated indices lose a summand)", file=SYS,
         old="np.add.at(h, contr.uDOF, contr.h(t, q[contr.qDOF], u[contr.uDOF]))", new="h[contr.uDOF] += contr.h(t, q[contr.qDOF], u[contr.uDOF])", expect="C14.R8"),
    dict(id="c14-r9-orig", canary=True, what="add(): generated name inserted without a second uniqueness test (original defect)", file=SYS,
         old="                    while new_name in self.contributions_map:\n                        suffix += 1\n                        new_name = contr.name + \"_contr\" + str(suffix)\n", new="", expect="C14.R9"),
    dict(id="c14-r9-2", what="add(): the arriving name is not tested at all", file=SYS,
         old="                if contr.name in self.contributions_map:\n                    suffix = self.ncontr", new="                if False:\n                    suffix = self.ncontr", expect=["C14.R9", "C14.R1"]),
    dict(id="c14-m5", canary=True, what="W_gamma: columns indexed with la_gDOF", file=SYS,
         old="coo[contr.uDOF, contr.la_gammaDOF] = contr.W_gamma(t, q[contr.qDOF])", new="coo[contr.uDOF, contr.la_gDOF] = contr.W_gamma(t, q[contr.qDOF])", expect="C14.R3"),
    dict(id="c14-m6", what="c_u: u argument indexed with qDOF", file=SYS,
         old="coo[contr.la_cDOF, contr.uDOF] = contr.c_u(\n                t, q[contr.qDOF], u[contr.uDOF], la_c[contr.la_cDOF]",
         new="coo[contr.la_cDOF, contr.uDOF] = contr.c_u(\n                t, q[contr.qDOF], u[contr.qDOF], la_c[contr.la_cDOF]", expect="C14.R3"),
    dict(id="c14-m7", what="h_q scatters contr.h_u", file=SYS,
         old="coo[contr.uDOF, contr.qDOF] = contr.h_q(t, q[contr.qDOF], u[contr.uDOF])", new="coo[contr.uDOF, contr.qDOF] = contr.h_u(t, q[contr.qDOF], u[contr.uDOF])", expect="C14.R6"),
    dict(id="c14-m8", what="assemble(): zeroing of nla_c removed", file=SYS,
         old="        self.nla_c = 0\n        self.nla_tau = 0\n        self.ntau = 0\n        self.nla_S = 0\n        self.nla_N = 0\n        self.nla_F = 0\n        q0 = []",
         new="        self.nla_tau = 0\n        self.ntau = 0\n        self.nla_S = 0\n        self.nla_N = 0\n        self.nla_F = 0\n        q0 = []", expect="C14.R2"),
    dict(id="c14-m9", what="Wla_g_q iterates the gamma list", file=SYS,
         old="        for contr in self.__g_contr:\n            coo[contr.uDOF, contr.qDOF] = contr.Wla_g_q(",
         new="        for contr in self.__gamma_contr:\n            coo[contr.uDOF, contr.qDOF] = contr.Wla_g_q(", expect="C14.R3"),
    dict(id="c14-m10", what="q_dot rows use qDOF instead of my_qDOF (interaction DOFs overwrite)", file=SYS,
         old="q_dot[contr.my_qDOF] = contr.q_dot(t, q[contr.qDOF], u[contr.uDOF])", new="q_dot[contr.qDOF] = contr.q_dot(t, q[contr.qDOF], u[contr.uDOF])", expect="C14.R4"),
    dict(id="c14-m11", what="add(): rename branch removed", file=SYS,
         old="                    contr.name = new_name\n", new="", expect="C14.R1"),
    dict(id="c14-m12", what="g_ddot passes u where u_dot is expected: u_dot[contr.qDOF]", file=SYS,
         old="t, q[contr.qDOF], u[contr.uDOF], u_dot[contr.uDOF]\n            )\n        return g_ddot",
         new="t, q[contr.qDOF], u[contr.uDOF], u_dot[contr.qDOF]\n            )\n        return g_ddot", expect="C14.R3"),
]
MUTANTS += [
    dict(id="c14-m13", canary=True, what="remove()/pop() decrement the unique-suffix counter (seeded/C14-1)", file=SYS,
         old="                del self.contributions_map[contr.name]\n            else:", new="                del self.contributions_map[contr.name]\n                self.ncontr -= 1\n            else:", expect="C14.R7"),
    dict(id="c14-m14", what="Sphere2Plane creates the markers nq/nu during assembly (original defect)", file="cardillo/contacts/sphere2plane.py",
         old="        self._nq = len(self.qDOF)\n", new="        self.nq = len(self.qDOF)\n", expect="C14.R7"),
]
MUTANTS += [
    dict(id="c14-r10-seed", canary=True, what="[seeded by sub-agent] assemble() writes the consistent initial state back with qDOF / uDOF", file=SYS,
         old="    def assembler_callback(self):\n        for contr in self.__assembler_callback_contr:",
         new="        for contr in self.contributions:\n            if hasattr(contr, \"nq\"):\n                contr.q0 = self.q0[contr.qDOF]\n            if hasattr(contr, \"nu\"):\n                contr.u0 = self.u0[contr.uDOF]\n\n    def assembler_callback(self):\n        for contr in self.__assembler_callback_contr:", expect="C14.R10"),
    dict(id="c14-r10-2", what="set_new_initial_state writes u0 from uDOF", file=SYS,
         old="                contr.u0 = u0[contr.my_uDOF]", new="                contr.u0 = u0[contr.uDOF]", expect=["C14.R10", "C24.R3"]),
]
MUTANTS += [
    dict(id="c14-r11-seed", canary=True, what="[seeded by sub-agent] System.M remembers the converted constant mass matrix in a dict that assemble() never clears", file=SYS,
         edits=[(SYS, "        self.contributions_map = {}\n        self.ncontr = 0\n", "        self.contributions_map = {}\n        self.ncontr = 0\n        self._M0_formats = {}\n"),
                (SYS, "    def M(self, t, q, format=\"coo\"):\n", "    def _M0_asformat(self, format):\n        if format not in self._M0_formats:\n            self._M0_formats[format] = self._M0.asformat(format)\n        return self._M0_formats[format]\n\n    def M(self, t, q, format=\"coo\"):\n")],
         expect="C14.R11"),
]
NEUTRAL = [
    dict(id="c14-n-r11", what="System.M memoises the converted constant mass matrix AND assemble() re-creates the memo", file=SYS,
         edits=[(SYS, "        self.contributions_map = {}\n        self.ncontr = 0\n", "        self.contributions_map = {}\n        self.ncontr = 0\n        self._M0_formats = {}\n"),
                (SYS, "    def M(self, t, q, format=\"coo\"):\n", "    def _M0_asformat(self, format):\n        if format not in self._M0_formats:\n            self._M0_formats[format] = self._M0.asformat(format)\n        return self._M0_formats[format]\n\n    def M(self, t, q, format=\"coo\"):\n"),
                (SYS, "        self.nla_F = 0\n        q0 = []", "        self.nla_F = 0\n        self._M0_formats = {}\n        q0 = []")]),
    dict(id="c14-n-r9", what="add(): uniqueness loop with a fresh counter", file=SYS,
         old="                    suffix = self.ncontr\n                    new_name = contr.name + \"_contr\" + str(suffix)\n                    while new_name in self.contributions_map:\n                        suffix += 1\n                        new_name = contr.name + \"_contr\" + str(suffix)\n",
         new="                    k = 0\n                    new_name = f\"{contr.name}_{k}\"\n                    while new_name in self.contributions_map:\n                        k += 1\n                        new_name = f\"{contr.name}_{k}\"\n"),
    dict(id="c14-n1", canary=True, what="rename loop-local and reformat", file=SYS,
         old="        for contr in self.__h_contr:\n            # unbuffered accumulation: uDOF repeats indices if an interaction acts twice on the same body\n            np.add.at(h, contr.uDOF, contr.h(t, q[contr.qDOF], u[contr.uDOF]))",
         new="        for c in self.__h_contr:\n            np.add.at(\n                h, c.uDOF, c.h(t, q[c.qDOF], u[c.uDOF])\n            )"),
    dict(id="c14-n3", what="add(): uniqueness loop written on contr.name itself", file=SYS,
         old="                    contr.name = new_name\n", new="                    contr.name = new_name\n                    while contr.name in self.contributions_map:\n                        contr.name = contr.name + \"_\"\n"),
    dict(id="c14-n2", what="la_c scatter written with +=", file=SYS,
         old="la_c[contr.la_cDOF] = contr.la_c(t, q[contr.qDOF], u[contr.uDOF])", new="la_c[contr.la_cDOF] += contr.la_c(t, q[contr.qDOF], u[contr.uDOF])"),
]
MUTANTS += [
    dict(id="c14-r12-orig", canary=True, what="System.set_tau binds the actuator late (original defect F49)", file=SYS,
         old="                contr.tau = lambda t, contr=contr: tau(t)[contr.tauDOF]\n", new="                contr.tau = lambda t: tau(t)[contr.tauDOF]\n", expect="C14.R12"),
]
MUTANTS += [
    dict(id="c14-r13-orig", canary=True, what="BaseActuator copies the subsystem's DOF tables without running its callback (original defect F51)", file="cardillo/actuators/_base.py",
         old="        self.subsystem.assembler_callback()\n        self.qDOF = self.subsystem.qDOF\n", new="        self.qDOF = self.subsystem.qDOF\n", expect="C14.R13"),
]
MUTANTS += [
    dict(id="c14-r14-seed", canary=True, what="[seeded by sub-agent] CooMatrix.toarray fills a dense array by fancy-index assignment (overlapping contributions overwrite each other)", file="cardillo/utility/coo_matrix.py",
         old="        return self.tocoo(copy).toarray()\n", new="        import numpy as _np\n        A = _np.zeros(self.shape, dtype=float)\n        A[_np.asarray(self.row, dtype=int), _np.asarray(self.col, dtype=int)] = self.data\n        return A\n", expect="C14.R14"),
]

MUTANTS += [
    dict(id="c14-r15-seed", canary=True, what="[seeded by sub-agent] rod: the constant mass matrix container is allocated in the constructor, _M_coo (run by every assembler_callback) only fills it", file='cardillo/rods/_base.py',
         edits=[('cardillo/rods/_base.py', "        self.set_reference_strains(self.Q)\n\n    def set_reference_strains(self, Q):", "        self.constant_mass_matrix = True\n        self.__M = CooMatrix((self.nu, self.nu))\n\n        self.set_reference_strains(self.Q)\n\n    def set_reference_strains(self, Q):"),
                ('cardillo/rods/_base.py', "        self.constant_mass_matrix = True\n        self.__M = CooMatrix((self.nu, self.nu))\n        for el in range(self.nelement):", "        for el in range(self.nelement):")], expect="C14.R15"),
]
NEUTRAL += [
    dict(id="c14-n-r15", canary=True, what="rod: _M_coo fills a local container and binds it to the instance at the end", file='cardillo/rods/_base.py',
         edits=[('cardillo/rods/_base.py', "        self.constant_mass_matrix = True\n        self.__M = CooMatrix((self.nu, self.nu))\n        for el in range(self.nelement):", "        self.constant_mass_matrix = True\n        self.__M = M_coo = CooMatrix((self.nu, self.nu))\n        for el in range(self.nelement):")]),
]

MUTANTS += [
    dict(id="c14-r16-seed", canary=True, what="[seeded by sub-agent for C24] System.assemble appends to a connectivity list created in __init__", file='cardillo/system.py', edits=[('cardillo/system.py', '        self.contributions = []\n        self.contributions_map = {}\n', '        self.NF_connectivity = []\n\n        self.contributions = []\n        self.contributions_map = {}\n'), ('cardillo/system.py', '                for i_N, i_F, force_law in contr.friction_laws:\n                    if len(i_N) == 0:\n                        self.constant_force_reservoir = True\n', '                for i_N, i_F, force_law in contr.friction_laws:\n                    if len(i_N) == 0:\n                        self.constant_force_reservoir = True\n                    self.NF_connectivity.append((contr.la_NDOF[i_N], contr.la_FDOF[i_F], force_law))\n')], expect="C14.R16"),
]

MUTANTS += [
    dict(id="c14-r17-seed", canary=True, what="[seeded by sub-agent] System.add made 'atomic': validate all arguments first, then append all (an object listed twice in one call is added twice)", file='cardillo/system.py',
         old='        for contr in contrs:\n            if not contr in self.contributions:\n                self.contributions.append(contr)\n                if not hasattr(contr, "name"):\n                    contr.name = "contr" + str(self.ncontr)\n\n                if contr.name in self.contributions_map:\n                    suffix = self.ncontr\n                    new_name = contr.name + "_contr" + str(suffix)\n                    while new_name in self.contributions_map:\n                        suffix += 1\n                        new_name = contr.name + "_contr" + str(suffix)\n                    print(\n                        f"There is another contribution named \'{contr.name}\' which is already part of the system. Changed the name to \'{new_name}\' and added it to the system."\n                    )\n                    contr.name = new_name\n                self.contributions_map[contr.name] = contr\n                self.ncontr += 1\n            else:\n                raise ValueError(f"contribution {str(contr)} already added")\n\n', new='        for contr in contrs:\n            if contr in self.contributions:\n                raise ValueError(f"contribution {str(contr)} already added")\n\n        for contr in contrs:\n            self.contributions.append(contr)\n            if not hasattr(contr, "name"):\n                contr.name = "contr" + str(self.ncontr)\n\n            if contr.name in self.contributions_map:\n                suffix = self.ncontr\n                new_name = contr.name + "_contr" + str(suffix)\n                while new_name in self.contributions_map:\n                    suffix += 1\n                    new_name = contr.name + "_contr" + str(suffix)\n                contr.name = new_name\n            self.contributions_map[contr.name] = contr\n            self.ncontr += 1\n\n', expect="C14.R17"),
]

MUTANTS += [
    dict(id="c14-r18-seed", canary=True, what="[seeded by sub-agent] System.assemble scans the implemented properties once per contribution TYPE and reuses the result for later instances", file='cardillo/system.py',
         edits=[('cardillo/system.py', '        for contr in self.contributions:\n            contr.t0 = self.t0\n', "        implemented = {}\n"+'        for contr in self.contributions:\n            contr.t0 = self.t0\n'), ('cardillo/system.py', '            for p in properties:\n                # if property is implemented as class function append to property contribution\n                # - p in contr.__class__.__dict__: has global class attribute p\n                # - callable(getattr(contr, p, None)): p is callable\n                if hasattr(contr, p) and callable(getattr(contr, p)):\n                    getattr(self, f"_{self.__class__.__name__}__{p}_contr").append(\n                        contr\n                    )\n\n', '            if type(contr) not in implemented:\n                implemented[type(contr)] = [\n                    p for p in properties if callable(getattr(contr, p, None))\n                ]\n            for p in implemented[type(contr)]:\n                getattr(self, f"_{self.__class__.__name__}__{p}_contr").append(contr)\n\n')], expect="C14.R18"),
]
