"""C18  Nonsmooth integrators satisfy the discrete Signorini-Coulomb laws.

Structural clauses decided, for the prox sites of Moreau, Rattle (stage 1 and 2), BackwardEuler and DualStormerVerlet:
 R1 template      every contact fixed-point update is  -NegativeOrthant.prox(r_N * kin_N - P_N)  resp.
                  -reservoir.prox(r_F * kin_F - P_F, P_N-of-linked-contact | dt)  with operands of the right provenance
                  (normal/friction prox parameters, kinematic quantity of the same kind, the force iterate)
 R2 level         position-level schemes (BackwardEuler.prox, Rattle.prox1) project with the gap g_N; velocity-level schemes
                  (Moreau, Rattle.prox2, DualStormerVerlet) with the Newton-restituted gap rate xi_N / xi_F (e_N, e_F enter)
 R3 active set    velocity-level normal percussions are restricted to closed contacts (active-set mask I_N / np.where /
                  column slicing by I_N), so percussions vanish for contacts that are not closed
 R5 NF link       compute_I_F (local connectivity of the active set, used by Moreau and the consistent initial conditions):
                  the local normal index handed out with a friction law is the POSITION of that law's global normal index
                  inside the active set I_N (a search of contr.la_NDOF[i_N] in I_N), because the local percussion vector is
                  ordered like I_N, which also contains frictionless contacts; the local friction indices are a running counter
                  that advances exactly where I_F is extended, by the length of what is appended
 R4 write-back    each site writes the projected normal and friction forces into the slots it read them from
"""
from __future__ import annotations

import ast

from ..core import AnalysisError, dotted, norm_src
from .. import termset, proxrule

EXPLANATION = ("Template matching of every prox call in the four nonsmooth integrators with operand provenance obtained "
               "from the term-set resolver; level and active-set rules per site.")
NOT_DECIDED = "complementarity, penetration and cone membership at convergence; energy decrease at impacts (value facts)."
ASSUMPTIONS = ["NegativeOrthant.prox / Sphere.prox are exact projections (C27)"]
BLIND_SPOTS = ["wrong restitution sign inside System.xi_N (checked under C14.R6 only structurally)"]

SITES = [
    # (file, class, function qualname, level, masked?)
    ("cardillo/solver/moreau.py", "Moreau", "Moreau.prox", "velocity"),
    ("cardillo/solver/rattle.py", "Rattle", "Rattle.prox1", "position"),
    ("cardillo/solver/rattle.py", "Rattle", "Rattle.prox2", "velocity"),
    ("cardillo/solver/backward_euler.py", "BackwardEuler", "BackwardEuler.prox", "position"),
    ("cardillo/solver/dual_stormer_verlet.py", "DualStormerVerlet", "DualStormerVerlet._step.fun.prox", "velocity"),
]


def run(ctx):
    rep = ctx.rep
    rep.rule("C18.R1", "prox template with operand provenance", 10)
    rep.rule("C18.R2", "position- vs velocity-level kinematic quantity", 5)
    rep.rule("C18.R4", "one scalar prox parameter per vector-valued friction law (Coulomb direction)", 4)
    rep.rule("C18.R3", "active-set restriction of velocity-level normal percussions", 3)
    rep.rule("C18.R5", "local normal/friction connectivity of the active set (index typing in compute_I_F)", 4)
    rep.rule("C18.R13", "DualStormerVerlet: the fixed point that couples the friction projection to the slip of the NEW velocity runs to convergence of ALL iterated quantities - its helpers compare iterates the (in-place) map cannot overwrite, else only the re-allocated normal percussions are compared and friction is projected once against the old slip (= C22.R5 on the same helpers)", 2)
    from .c22 import r5_isolation
    r5_isolation(ctx, "C18.R13")
    rep.rule("C18.R12", "Moreau applies Coulomb's law to xi_F = W_F.T u + ...: the friction force directions W_F = gamma_F_u.T of the contact elements carry exactly the factors of the slip gamma_F (Leibniz support, K10) and read no datum it does not read (K13) - otherwise Moreau projects a fictitious slip while the gamma_F-based schemes project the true one", 4)
    friction_direction_is_slip_jacobian(ctx)
    rep.rule("C18.R11", "RATTLE: the active set of stage 2 is the set on which stage 1's normal projection is active, decided from the SAME argument the stage-1 prox projects (so a contact that carries a stage-1 percussion is in it by construction, whatever gap residual the stage-1 iteration left)", 1)
    rattle_stage2_set(ctx)
    rep.rule("C18.R10", "velocity-level schemes: the active set is a function of the gap alone - every CLOSED contact takes part in the complementarity problem; no velocity-dependent pre-filter", 2)
    active_set_is_positional(ctx)
    rep.rule("C18.R6", "one evaluation point (t, q) for all gap-rate terms of a velocity-level Signorini update", 3)
    nf_link(ctx)
    rep.rule("C18.R9", "System.xi_N / xi_F are the linear form  rate(post) + e * rate(pre)  (no |.|, max or sign-dependent variant)", 2)
    xi_linear(ctx)
    rep.rule("C18.R8", "the percussion fixed point of a step compares successive iterates of THAT step (no reference iterate carried over from the previous step)", 3)
    fresh_reference_iterate(ctx)
    rep.rule("C18.R7", "operator form of the restituted gap rate: coefficient of the obstacle velocity chi equals one plus the coefficient of W^T u(-)", 2)
    restitution_coefficients(ctx)
    for rel, cname, q, level in SITES:
        cls = ctx.repo.get(rel, cname)
        fn = ctx.repo.get(rel, q)
        res = termset.Resolver(fn, cls)
        # enclosing function locals are visible to nested prox (DualStormerVerlet)
        if q.count(".") > 1:
            outer = ctx.repo.get(rel, q.rsplit(".", 1)[0])
            ro = termset.Resolver(outer, cls)
            for k, v in ro.local.items():
                res.local.setdefault(k, v)
            outer2 = ctx.repo.get(rel, q.rsplit(".", 2)[0])
            ro2 = termset.Resolver(outer2, cls)
            for k, v in ro2.local.items():
                res.local.setdefault(k, v)
        tags = proxrule.local_kinematics(fn, res)
        calls = proxrule.prox_calls(fn)
        C = f"{rel}:{q}"
        if len(calls) < 2:
            raise AnalysisError(f"{C}: fewer than 2 prox calls")
        nN = nF = 0
        for c in calls:
            r = proxrule.analyse_prox(c, res, tags)
            if r["kind"] == "N":
                nN += 1
            else:
                nF += 1
            if r["ok"]:
                rep.ok("C18.R1", C, r["desc"])
            else:
                rep.bad("C18.R1", C, c, "; ".join(r["problems"]), f"{rel}:{c.lineno}")
            if r.get("scalar_r") is True:
                rep.ok("C18.R4", C, f"scalar prox parameter in {r['desc'][:90]}")
            elif r.get("scalar_r") is False:
                rep.bad("C18.R4", C, c, r["scalar_msg"], f"{rel}:{c.lineno}")
            elif r["kind"] == "F":
                rep.note(f"C18.R4: {C}: prox parameter of `{r['desc'][:80]}` not classified (neither a reduction nor indexed like the slip)")
            # R2 level
            arg = c.args[0]
            if isinstance(arg, ast.Name) and arg.id in res.local:
                arg = res.local[arg.id][0]
            fam = res.families(arg) if arg is not None else set()
            s = norm_src(arg) if arg is not None else ""
            if r["kind"] == "N":
                if level == "position":
                    good = "g_N" in fam and not ({"xi_N", "g_N_dot"} & fam)
                    want = "the gap g_N"
                else:
                    good = ("xi_N" in fam) or ("xi_N" in s and _restituted(ctx, rel, cname, "xi_N0")) \
                        or ("g_N_dot" in fam and _mentions(res, arg, "e_N"))
                    want = "the restituted gap rate xi_N"
                if good:
                    rep.ok("C18.R2", C, f"{level}-level Signorini update uses {want}")
                else:
                    rep.bad("C18.R2", C, c, f"{level}-level scheme must project with {want}; found `{s[:80]}` (families {sorted(fam)})", f"{rel}:{c.lineno}")
            if r["kind"] == "N" and level == "velocity":
                evaluation_point(rep, C, rel, c, arg, res)
        nloc, badloc = proxrule.check_locality(fn, tags)
        for node, msg in badloc:
            rep.bad("C18.R1", C, proxrule._stmt_of(node), msg, f"{rel}:{node.lineno}")
        if not badloc and nloc:
            rep.ok("C18.R1", C, f"per-contact locality: {nloc} uses of contact arrays indexed with the contact's own i_N / i_F")
        if nN < 1 or nF < 1:
            rep.bad("C18.R1", C, fn.name, f"site has {nN} normal and {nF} friction projections (both are required)", f"{rel}:{fn.lineno}")
        # R3
        if level == "velocity":
            src = ast.unparse(fn)
            masked = ("I_N *" in src) or ("np.where(I_N" in src.replace("\n", "")) or ("np.where(\n" in src and "I_N" in src)
            if not masked and cname == "Moreau":
                # Moreau restricts the operators themselves to the active set
                st = ctx.repo.get(rel, "Moreau.step")
                ssrc = ast.unparse(st)
                masked = "[:, self.I_N]" in ssrc and "P_Nn1[self.I_N] = P_N" in ssrc
            if masked:
                rep.ok("C18.R3", C, "normal percussions restricted to the active set I_N")
            else:
                rep.bad("C18.R3", C, fn.name, "velocity-level normal percussions are not restricted to closed contacts (no active-set mask): an open contact "
                        "with approaching velocity would receive a percussion", f"{rel}:{fn.lineno}")


def friction_direction_is_slip_jacobian(ctx, rule="C18.R12"):
    from .. import support, depmono, protocol as _pr
    from .c06 import contact_classes
    rep = ctx.rep
    n = 0
    for ci in contact_classes(ctx):
        view = _pr.ClassView(ctx, ci)
        c, fn = view.method("gamma_F_u")
        if fn is None:
            bs = view.bodies("gamma_F_u")
            fn = bs[0][1] if bs else None
        if fn is None:
            continue
        n += 1
        support.check(rep, rule, view, f"{ci.rel}:{ci.qual}.gamma_F_u", ci.rel, "gamma_F", "gamma_F_u", "u", None, lineno=getattr(fn, "lineno", 0), zero=())
        depmono.check(rep, rule, view, ci.rel, ci.qual, "gamma_F", "gamma_F_u", lineno=getattr(fn, "lineno", 0))
    if n < 2:
        raise AnalysisError(f"{rule}: fewer than 2 contact classes with gamma_F_u")


def rattle_stage2_set(ctx, rule="C18.R11"):
    """P_N1 = -prox_{R-}(r g_N - P_N1) is positive exactly where the argument is <= 0.  Stage 2 restricts its percussions to I_N and returns
    P_N2 = -P_N1 elsewhere (total percussion zero).  If I_N is decided by another test - a closeness test on the gap with a tolerance tighter
    than the one the stage-1 iteration was stopped at - a contact held closed by P_N1 > 0 with a gap residual of 5e-8 drops out, its stored
    P_N is exactly 0 while it is closed with a negative restituted gap rate."""
    rep = ctx.rep
    rel = "cardillo/solver/rattle.py"
    fn = ctx.repo.maybe(rel, "Rattle.prox1")
    C = f"{rel}:Rattle.prox1"
    if fn is None:
        rep.ok(rule, C, "Rattle.prox1 not found (no verdict)", verdict="unknown", trivial=True)
        return
    binds = {w.targets[0].id: w.value for w in ast.walk(fn) if isinstance(w, ast.Assign) and len(w.targets) == 1 and isinstance(w.targets[0], ast.Name)}

    def inl(e, depth=0):
        if isinstance(e, ast.Name) and e.id in binds and depth < 4:
            return inl(binds[e.id], depth + 1)
        return e
    proj = [w for w in ast.walk(fn) if isinstance(w, ast.Call) and norm_src(w.func) == "NegativeOrthant.prox" and w.args]
    sets = [w for w in ast.walk(fn) if isinstance(w, ast.Assign) and len(w.targets) == 1 and norm_src(w.targets[0]) == "self.I_N"]
    if not proj or not sets:
        rep.ok(rule, C, "normal projection / definition of self.I_N not found in prox1 (no verdict)", verdict="unknown", trivial=True)
        return
    arg = norm_src(inl(proj[0].args[0]))
    for st in sets:
        v = st.value
        if isinstance(v, ast.Compare) and len(v.ops) == 1 and isinstance(v.ops[0], (ast.LtE, ast.Lt)) and norm_src(v.comparators[0]) in ("0", "0.0") and norm_src(inl(v.left)) == arg:
            rep.ok(rule, C, f"`{norm_src(st)[:60]}`: the set is where the projected argument `{arg[:40]}` is non-positive")
        else:
            rep.bad(rule, C, st, f"`{norm_src(st)[:80]}` decides the stage-2 active set by another test than the sign of the stage-1 prox argument `{arg[:50]}`: a contact with P_N1 > 0 whose gap "
                    "residual exceeds that test's tolerance is dropped, stage 2 cancels its percussion (P_N = 0) although it is closed and its restituted gap rate is negative", f"{rel}:{st.lineno}")


def active_set_is_positional(ctx, rule="C18.R10"):
    """Newton's impact law is a complementarity between P_N and xi_N for every closed contact; which of the closed contacts receive a
    percussion is the OUTCOME of the coupled problem (a percussion at one contact can drive a neighbour on the same body into its obstacle).
    The index set handed to the prox loop therefore has to contain every closed contact, i.e. be decided from the gap alone.  A filter on a
    velocity ("already separating under the free velocity") is right for an isolated contact only."""
    rep = ctx.rep
    VEL = {"g_N_dot", "xi_N", "g_N_ddot", "gamma_F", "xi_F", "gamma_F_dot"}
    for rel, q, target in (("cardillo/solver/moreau.py", "Moreau.step", "self.I_N"), ("cardillo/solver/dual_stormer_verlet.py", "DualStormerVerlet._step", "I_N")):
        try:
            fn = ctx.repo.get(rel, q)
        except Exception:
            fn = None
        if fn is None:
            rep.ok(rule, f"{rel}:{q}", "routine not found (no verdict)", verdict="unknown", trivial=True)
            continue
        C = f"{rel}:{q}"
        binds = {}
        for w in ast.walk(fn):
            if isinstance(w, ast.Assign) and len(w.targets) == 1 and isinstance(w.targets[0], ast.Name):
                binds.setdefault(w.targets[0].id, []).append(w.value)
        defs = [w for w in ast.walk(fn) if isinstance(w, ast.Assign) and len(w.targets) == 1 and norm_src(w.targets[0]) == target]
        if not defs:
            rep.ok(rule, C, f"no definition of {target} (no verdict)", verdict="unknown", trivial=True)
            continue
        for d in defs:
            calls, seen, work = set(), set(), [d.value]
            while work:
                e = work.pop()
                for w in ast.walk(e):
                    if isinstance(w, ast.Call) and isinstance(w.func, ast.Attribute) and norm_src(w.func.value) in ("self.system", "system"):
                        calls.add(w.func.attr)
                    elif isinstance(w, ast.Name) and w.id in binds and w.id not in seen:
                        seen.add(w.id)
                        work += binds[w.id]
            vel = sorted(calls & VEL)
            if vel:
                rep.bad(rule, C, d, f"the active set `{target}` depends on the velocity-level quantit{'ies' if len(vel) > 1 else 'y'} {', '.join('system.' + v for v in vel)}: closed contacts that this filter "
                        "drops never reach the prox loop, keep P_N = 0 and can end the step with xi_N < 0 when a percussion at a coupled contact pushes them in (Signorini's impact law "
                        "violated without any warning)", f"{rel}:{d.lineno}")
            elif "g_N" in calls:
                rep.ok(rule, C, f"`{target}` is decided from system.g_N alone")
            else:
                rep.ok(rule, C, f"`{target}`: sources {sorted(calls)} not classified (no verdict)", verdict="unknown", trivial=True)


POINT_METHODS = {"xi_N": ((0, 2), (1, 3)), "g_N_dot": ((0, 1),), "W_N": ((0, 1),), "g_N_dot_u": ((0, 1),)}


def evaluation_point(rep, C, rel, call, arg, res, rule="C18.R6"):
    """Newton's impact law  g_N_dot(+) + e_N g_N_dot(-)  is an equation between two velocities measured along ONE normal: the
    restituted pre-impact gap rate, the post-impact gap rate and (where the operator form W_N.T @ u is used) the force
    direction have to be evaluated at the same (t, q).  With two points the percussion acts along a normal different from the
    one the approach speed was measured on and a frictionless impact with e_N = 1 changes the kinetic energy by
    1/2 P_N (w(q+) - w(q-)).u-, which is positive for an approaching oblique pair."""
    def base(e):
        while isinstance(e, ast.Subscript):
            e = e.value
        seen = set()
        while isinstance(e, ast.Name) and e.id in res.local and len(res.local[e.id]) == 1 and e.id not in seen:
            seen.add(e.id)
            v = res.local[e.id][0]
            if isinstance(v, ast.Name) or (isinstance(v, ast.Attribute) and dotted(v)):
                e = v
            else:
                break
        return norm_src(e)
    points = {}
    for m, n in res.system_calls(arg):
        for it, iq in POINT_METHODS.get(m, ()):
            if len(n.args) > max(it, iq):
                points.setdefault((base(n.args[it]), base(n.args[iq])), []).append(m)
    if not points:
        rep.note(f"{rule}: {C}: no gap-rate evaluation reaches `{norm_src(arg)[:70]}` (nothing to compare)")
    elif len(points) == 1:
        (pt, ms), = points.items()
        rep.ok(rule, C, f"all gap-rate terms ({', '.join(sorted(set(ms)))}) are evaluated at ({pt[0]}, {pt[1]})")
    else:
        desc = "; ".join(f"{'/'.join(sorted(set(ms)))} at ({t}, {q})" for (t, q), ms in sorted(points.items()))
        rep.bad(rule, C, proxrule._stmt_of(call), "the Newton-restituted gap rate mixes evaluation points: " + desc +
                " - the pre-impact approach speed is measured along another normal than the one the percussion and the post-impact "
                "gap rate use (kinetic energy can increase in a frictionless impact with e_N = 1)", f"{rel}:{call.lineno}")


FP_LOOPS = [(RT_ := "cardillo/solver/rattle.py", "Rattle.solve"), ("cardillo/solver/rattle.py", "Rattle._iterative_projection_method"),
            ("cardillo/solver/moreau.py", "Moreau.step"), ("cardillo/solver/backward_euler.py", "BackwardEuler.solve")]


def xi_linear(ctx, rule="C18.R9"):
    """System.xi_N / xi_F ARE Newton's law as the velocity-level schemes use it: xi = gap rate(post) + e * gap rate(pre), linear in both gap
    rates with coefficients +1 and +e.  "Separation speed = e times closing speed" written with |.| (or max, clip) agrees only while the
    pre-impact gap rate is negative; an active contact with a positive pre-impact rate that still needs a percussion (a ball coming to rest,
    a push-back by a second contact) then gets g_dot(+) = +e g_dot(-)."""
    from ..wterms import Terms
    rep = ctx.rep
    rel = "cardillo/system.py"
    n = 0
    for name, kin, e in (("xi_N", "g_N_dot", "e_N"), ("xi_F", "gamma_F", "e_F")):
        fn = ctx.repo.maybe(rel, f"System.{name}")
        if fn is None:
            raise AnalysisError(f"{rel}: System.{name} vanished")
        C = f"{rel}:System.{name}"
        n += 1
        local = {}
        for x in ast.walk(fn):
            if isinstance(x, ast.Assign) and len(x.targets) == 1 and isinstance(x.targets[0], ast.Name):
                local[x.targets[0].id] = x.value
        exprs = [st.value for st in ast.walk(fn) if isinstance(st, ast.Assign) and isinstance(st.targets[0], ast.Subscript) and norm_src(st.targets[0].value) == name]
        exprs += [r.value for r in ast.walk(fn) if isinstance(r, ast.Return) and r.value is not None and not (isinstance(r.value, ast.Name) and r.value.id == name)]
        if not exprs:
            raise AnalysisError(f"{C}: defining expression not found")

        def atom(x):
            if isinstance(x, ast.Call):
                last = (dotted(x.func) or "").split(".")[-1]
                if last == kin and x.args:
                    return f"{kin}@{'pre' if 'pre' in norm_src(x.args[0]) else 'post'}"
                return "f:" + norm_src(x)[:50]
            if isinstance(x, ast.Attribute):
                return x.attr
            if isinstance(x, ast.Name) and x.id not in local:
                return x.id
            return None
        T = Terms(fn, atom)
        T.local = {k: [v] for k, v in local.items()}
        terms = sorted((c, tuple(sorted(f))) for c, f in T.expand(exprs[0]))
        from fractions import Fraction
        want = sorted([(Fraction(1), (f"{kin}@post",)), (Fraction(1), tuple(sorted((e, f"{kin}@pre"))))])
        if terms == want:
            rep.ok(rule, C, f"{name} = {kin}(post) + {e} * {kin}(pre)")
        else:
            show = " + ".join((("" if c == 1 else str(c) + " * ") + " * ".join(f)) for c, f in terms)
            rep.bad(rule, C, exprs[0], f"`{name}` is `{show[:160]}`, not `{kin}(post) + {e} * {kin}(pre)`: Newton's law is linear in the pre-impact rate; a non-linear form (|.|, max) agrees only "
                    "for closing contacts and reverses the law for an active contact whose pre-impact rate is positive (ball coming to rest, push-back by a second contact)",
                    f"{rel}:{exprs[0].lineno}")
    return n


def _initial_guess_only(st):
    """names that enter a statement only as the INITIAL GUESS of a nonlinear solve (`self._solve_nonlinear_system(x0, y, lu)`, `fsolve(f, x0,
    ...)`): the converged result does not depend on them, so they are no data ancestors of the result"""
    if not isinstance(st, ast.Assign) or not isinstance(st.value, ast.Call):
        return set()
    call = st.value
    nm = (dotted(call.func) or "").split(".")[-1]
    pos = {"_solve_nonlinear_system": 0, "fsolve": 1}.get(nm)
    if pos is None or len(call.args) <= pos:
        return set()
    guess = {w.id for w in ast.walk(call.args[pos]) if isinstance(w, ast.Name)}
    other = {w.id for i_, a in enumerate(call.args) if i_ != pos for w in ast.walk(a) if isinstance(w, ast.Name)}
    other |= {w.id for k in call.keywords for w in ast.walk(k.value) if isinstance(w, ast.Name)}
    return guess - other


def fresh_reference_iterate(ctx, rule="C18.R8"):
    """The percussion fixed point of a step is converged when an iterate agrees with its IMAGE under one application of the step's map
    (project, re-solve).  A warm start from the previous step is fine as long as what is compared is z and G(z) (BackwardEuler compares the
    percussions y0 with prox(x(y0), y0)); the data-flow form of that is: both operands of the convergence difference have a common
    ancestor.  If the first test compares this
    step's first solve with the solution stored from the PREVIOUS time step (`x2n = self.x2n.copy()`), a contact that stays closed for two
    steps passes it at once - the percussions just projected are stored but were never fed back into the velocity, so P_N > 0 is not
    complementary to the restituted gap rate on every second step of a settling ball.  Rule: no definition of an operand of the convergence
    difference that reaches the test from outside the loop is a copy of solver state that the same routine carries over from step to step."""
    from ..cfg import CFG
    from ..dataflow import ReachingDefs
    rep = ctx.rep
    n = 0
    for rel, q in FP_LOOPS:
        fn = ctx.repo.maybe(rel, q)
        if fn is None:
            continue
        C = f"{rel}:{q}"
        persisted = {t.attr for st in ast.walk(fn) if isinstance(st, ast.Assign) for t in st.targets if isinstance(t, ast.Attribute) and dotted(t.value) == "self"}
        loops = [w for w in ast.walk(fn) if isinstance(w, ast.For) and any(isinstance(c, ast.Call) and "prox" in (dotted(c.func) or "").split(".")[-1] for c in ast.walk(w))]
        if not loops:
            continue
        cfg = CFG(fn)
        rd = ReachingDefs(cfg)
        for loop in loops:
            inloop = {id(x) for x in ast.walk(loop)}
            diffs = [nd for nd in cfg.nodes if nd.kind == "stmt" and isinstance(nd.ast, ast.Assign) and id(nd.ast) in inloop and isinstance(nd.ast.value, ast.BinOp)
                     and isinstance(nd.ast.value.op, ast.Sub) and any(isinstance(t, ast.Name) and t.id.startswith("diff") for t in nd.ast.targets)]
            for d in diffs:
                n += 1
                def _value_names(e):
                    """names of the compared arrays; names that only select entries (`x[:n_state]`) are no operands"""
                    skip = {id(x) for w in ast.walk(e) if isinstance(w, ast.Subscript) for x in ast.walk(w.slice)}
                    return {w.id for w in ast.walk(e) if isinstance(w, ast.Name) and id(w) not in skip}
                namesA = _value_names(d.ast.value.left)
                namesB = _value_names(d.ast.value.right)
                def first_pass_slice(names):
                    """backward slice as seen in the FIRST pass through the loop: where a definition from before the loop reaches a use, only that one is followed"""
                    seen, work = set(), [(d, set(names))]
                    while work:
                        node, ns = work.pop()
                        for x in ns - {"self", "np", "lu"}:
                            defs = [df for df in rd.defs_reaching(node, x) if df.ast is not None]
                            outside = [df for df in defs if id(df.ast) not in inloop]
                            inside_node = node.ast is not None and id(node.ast) in inloop
                            for df in (outside if (outside and inside_node) else defs):
                                if df.id not in seen:
                                    seen.add(df.id)
                                    work.append((df, set(rd.uses(df)) - _initial_guess_only(df.ast)))
                    return {cfg.nodes[i_] for i_ in seen}
                SA = first_pass_slice(namesA)
                SB = first_pass_slice(namesB)
                common = {x for x in (SA & SB) if x is not d and x.ast is not None}
                if common:
                    rep.ok(rule, C, f"`{norm_src(d.ast)[:60]}` compares an iterate with its image under this step's map (common ancestor: `{norm_src(sorted(common, key=lambda x: x.lineno)[-1].ast)[:40]}`)")
                else:
                    refs = [df.ast for nm in namesB for df in rd.defs_reaching(d, nm) if df.ast is not None]
                    st = refs[0] if refs else d.ast
                    rep.bad(rule, C, st, f"in `{norm_src(d.ast)[:50]}` the reference `{norm_src(d.ast.value.right)[:30]}` (from `{norm_src(st)[:50]}`) and the tested iterate have no common origin in this "
                            "step: the first convergence test compares this step's first solve with state carried over from the previous step, so a contact that stays closed passes it "
                            "before the projected percussions were fed back (stored P_N > 0 not complementary to the restituted gap rate on alternate steps of a settling ball)",
                            f"{rel}:{getattr(st, 'lineno', d.lineno)}")
    if n < 3:
        raise AnalysisError(f"{rule}: only {n} convergence differences found in the percussion fixed-point loops")


def restitution_coefficients(ctx, rule="C18.R7"):
    """Operator form of the restituted gap rate (Moreau): with g_N_dot(t, q, u) = W_N^T u + chi_N,
        xi_N = g_N_dot(+) + e_N g_N_dot(-) = W_N^T u+  +  [ e_N W_N^T u-  +  (1 + e_N) chi_N ],
    so in the constant part xi_N0 the coefficient of chi_N is ONE PLUS the coefficient of W_N^T un (likewise xi_F0 with e_F, chi_F).
    chi is the part of the contact velocity that comes from a moving obstacle: with `chi_N` instead of `(1 + e_N) chi_N` the impact law is
    applied to W^T u only, and P_N > 0 is not complementary to the restituted gap rate of a contact against a moving plane."""
    from ..wterms import Terms
    rep = ctx.rep
    rel = MO
    cls = ctx.repo.get(rel, "Moreau")
    step = ctx.repo.get(rel, "Moreau.step")
    C = f"{rel}:Moreau.step"
    n = 0
    for attr, W, chi in (("xi_N0", "W_N", "chi_N"), ("xi_F0", "W_F", "chi_F")):
        sts = [x for x in ast.walk(step) if isinstance(x, ast.Assign) and any(dotted(t) == f"self.{attr}" for t in x.targets)]
        if not sts:
            continue
        n += 1
        st = sts[-1]

        def atom(e):
            d = dotted(e)
            if isinstance(e, ast.Attribute) and e.attr == "T":
                return atom(e.value)
            if d in (f"self.{W}", W):
                return W
            if isinstance(e, ast.Name):
                return e.id
            if isinstance(e, ast.Attribute) and d:
                return d
            return None
        T = Terms(ast.parse("def f():\n    pass").body[0], atom)
        terms = T.expand(st.value)
        vel = [(c, tuple(sorted(a for a in f if a not in (W, "un")))) for c, f in terms if W in f and "un" in f]
        chis = sorted((c, tuple(sorted(a for a in f if a != chi))) for c, f in terms if chi in f)
        if not vel:
            rep.note(f"{rule}: {C}: `{norm_src(st)[:70]}` has no term {W}.T @ un (not the operator form; no verdict)")
            continue
        from fractions import Fraction
        want = sorted([(Fraction(1), ())] + vel)
        if chis == want:
            rep.ok(rule, C, f"self.{attr}: coefficient of {chi} = 1 + coefficient of {W}.T @ un ({' + '.join('*'.join(f) or str(c) for c, f in want)})")
        else:
            show = lambda L: " + ".join((str(c) if not f else (("" if c == 1 else str(c) + "*") + "*".join(f))) for c, f in L) or "0"
            rep.bad(rule, C, st, f"`{norm_src(st)}`: the coefficient of {chi} is ({show(chis)}) but the restituted gap rate g_dot(+) + e g_dot(-) with g_dot = {W}^T u + {chi} needs "
                    f"({show(want)}): for a contact against a moving obstacle ({chi} != 0) the percussion is not complementary to the restituted gap rate (Newton's law is applied to "
                    f"{W}^T u only)", f"{rel}:{st.lineno}")
    if n < 2:
        raise AnalysisError(f"{rule}: constant parts self.xi_N0 / self.xi_F0 not found in Moreau.step")


def _mentions(res, expr, attr, depth=0, seen=None):
    """`attr` (a name or attribute) occurs in expr after expanding the function's locals."""
    seen = seen if seen is not None else set()
    if expr is None or depth > 6:
        return False
    for n in ast.walk(expr):
        if (isinstance(n, ast.Attribute) and n.attr == attr) or (isinstance(n, ast.Name) and n.id == attr):
            return True
        if isinstance(n, ast.Name) and n.id in res.local and n.id not in seen:
            seen.add(n.id)
            if any(_mentions(res, v, attr, depth + 1, seen) for v in res.local[n.id]):
                return True
    return False


def _restituted(ctx, rel, cname, attr):
    """self.xi_N0 = e_N * (W_N.T @ un) + (1 + e_N) * chi_N"""
    cls = ctx.repo.get(rel, cname)
    for n in ast.walk(cls):
        if isinstance(n, ast.Assign) and any(dotted(t) == f"self.{attr}" for t in n.targets):
            s = norm_src(n.value)
            return "e_N" in s and "W_N.T" in s
    return False


MO = "cardillo/solver/moreau.py"
RT = "cardillo/solver/rattle.py"
BE = "cardillo/solver/backward_euler.py"
DSV = "cardillo/solver/dual_stormer_verlet.py"
SEARCHES = ("np.where", "np.flatnonzero", "np.nonzero", "np.argwhere", "np.searchsorted")


def nf_link(ctx, rule="C18.R5"):
    from ..cfg import CFG
    from ..dataflow import ReachingDefs
    rep = ctx.rep
    rel = "cardillo/solver/_base.py"
    fn = ctx.repo.get(rel, "compute_I_F")
    C = f"{rel}:compute_I_F"
    cfg = CFG(fn)
    rd = ReachingDefs(cfg)
    params = [a.arg for a in fn.args.args]
    if not params:
        raise AnalysisError(f"{C}: no parameters")
    active = params[0]  # I_N

    def single_def(node, name):
        ds = [d for d in rd.defs_reaching(node, name) if d is not cfg.entry]
        vals = [d.ast.value for d in ds if isinstance(d.ast, ast.Assign) and len(d.ast.targets) == 1
                and isinstance(d.ast.targets[0], ast.Name) and d.ast.targets[0].id == name]
        return (ds, vals)

    apps = [n for n in cfg.nodes if n.kind == "stmt" and isinstance(n.ast, ast.Expr) and isinstance(n.ast.value, ast.Call)
            and isinstance(n.ast.value.func, ast.Attribute) and n.ast.value.func.attr == "append"
            and isinstance(n.ast.value.args[0], ast.Tuple) and len(n.ast.value.args[0].elts) == 3]
    if len(apps) < 2:
        raise AnalysisError(f"{C}: the appends of (i_N_local, i_F_local, reservoir) were not found")
    ext = [n for n in cfg.nodes if n.kind == "stmt" and isinstance(n.ast, ast.Expr) and isinstance(n.ast.value, ast.Call)
           and isinstance(n.ast.value.func, ast.Attribute) and n.ast.value.func.attr == "extend"]
    for ap in apps:
        iN, iF, _ = ap.ast.value.args[0].elts
        # ---- normal link
        if isinstance(iN, (ast.List, ast.Tuple)) and not iN.elts:
            rep.ok(rule, C, f"{norm_src(ap.ast)[:70]}: no normal force dependence (constant reservoir)", trivial=True)
        elif isinstance(iN, ast.Name):
            ds, vals = single_def(ap, iN.id)
            okk = False
            why = "it has no single definition the analysis can read"
            if len(ds) == 1 and len(vals) == 1:
                v = vals[0]
                call = v.value if isinstance(v, ast.Subscript) else v
                names = {x.id for x in ast.walk(v) if isinstance(x, ast.Name)}
                if isinstance(call, ast.Call) and dotted(call.func) in SEARCHES and active in names:
                    # the searched value is the law's global normal index
                    others = names - {active, "np"}
                    glob_ok = False
                    for o in others:
                        _, ov = single_def(ds[0], o)
                        if len(ov) == 1 and "la_NDOF" in norm_src(ov[0]):
                            glob_ok = True
                    okk = glob_ok
                    why = "the searched value is not the contribution's global normal index contr.la_NDOF[i_N]"
                else:
                    why = (f"`{norm_src(v)}` is not a search of the global normal index in the active set `{active}` "
                           "(a running counter only counts contacts that own a friction law, but the local percussion vector is ordered like the active set, "
                           "which also holds frictionless contacts)")
            if okk:
                rep.ok(rule, C, f"{iN.id} = {norm_src(vals[0])}: position of the law's global normal index in the active set")
            else:
                rep.bad(rule, C, ds[0].ast if ds else ap.ast, f"the local normal index `{iN.id}` paired with a friction law is wrong in general: {why}; "
                        "the friction reservoir would be scaled by another contact's normal percussion", f"{rel}:{(ds[0] if ds else ap).lineno}")
        elif isinstance(iN, ast.Constant) and iN.value is None:
            # marker of a law kept for an INACTIVE contact (zero normal force); C16.R7 checks its guard and the consumers' `is None` test
            rep.ok(rule, C, f"{norm_src(ap.ast)[:70]}: marker None = normal contact not active (zero reservoir)", trivial=True)
        else:
            rep.bad(rule, C, ap.ast, "local normal index of a friction law is neither empty nor a named search result", f"{rel}:{ap.lineno}")
        # ---- friction indices: arange(n) + counter, counter advanced with the extension of I_F
        okf = False
        if isinstance(iF, ast.Name):
            ds, vals = single_def(ap, iF.id)
            if len(vals) == 1 and isinstance(vals[0], ast.BinOp) and isinstance(vals[0].op, ast.Add):
                parts = [vals[0].left, vals[0].right]
                ar = [x for x in parts if isinstance(x, ast.Call) and dotted(x.func) == "np.arange" and len(x.args) == 1]
                ct = [x for x in parts if isinstance(x, ast.Name)]
                if len(ar) == 1 and len(ct) == 1:
                    n_name, ctr = norm_src(ar[0].args[0]), ct[0].id
                    incs = [n for n in cfg.nodes if n.kind == "stmt" and isinstance(n.ast, ast.AugAssign) and norm_src(n.ast.target) == ctr]
                    good = bool(incs) and all(isinstance(i.ast.op, ast.Add) and norm_src(i.ast.value) == n_name for i in incs)
                    # every increment shares its block with exactly one extend, and vice versa
                    def block(n):
                        return id(getattr(n.ast, "_parent", None)), tuple(id(x) for x in getattr(getattr(n.ast, "_parent", None), "body", []) if x is n.ast) != ()
                    blocks_inc = sorted(id(_block_of(i.ast)) for i in incs)
                    blocks_ext = sorted(id(_block_of(e.ast)) for e in ext)
                    blocks_app = sorted(id(_block_of(a.ast)) for a in apps)
                    good = good and blocks_inc == blocks_ext == blocks_app
                    # n = len(i_F) and the extension appends the global indices of i_F
                    _, nv = single_def(ap, n_name) if n_name.isidentifier() else ([], [])
                    good = good and len(nv) == 1 and isinstance(nv[0], ast.Call) and dotted(nv[0].func) == "len"
                    okf = good
        if okf:
            rep.ok(rule, C, f"{iF.id} = {norm_src(vals[0])}: counter advanced by {n_name} exactly where I_F is extended")
        else:
            rep.bad(rule, C, ap.ast, "the local friction indices are not `np.arange(n_F) + counter` with the counter advanced by n_F in exactly the blocks that extend I_F: "
                    "friction laws would read the slip velocity / percussion of another law", f"{rel}:{ap.lineno}")


def _block_of(stmt):
    """the statement list (identified by its owner and field) a statement sits in"""
    par = getattr(stmt, "_parent", None)
    for fld in ("body", "orelse", "finalbody"):
        lst = getattr(par, fld, None)
        if isinstance(lst, list) and any(x is stmt for x in lst):
            return lst
    return par


MUTANTS = [
    dict(id="c18-m1", canary=True, what="Moreau: Signorini update without the minus sign", file=MO,
         old="        P_N = -NegativeOrthant.prox(self.prox_r_N * xi_N - P_N)", new="        P_N = NegativeOrthant.prox(self.prox_r_N * xi_N - P_N)", expect="C18.R1"),
    dict(id="c18-m2", canary=True, what="Rattle.prox2 loses the active-set mask", file=RT,
         old="        y2n1p[: self.split_y[0]] = self.I_N * (\n            -NegativeOrthant.prox(prox_r_N * xi_N - P_N)\n        )",
         new="        y2n1p[: self.split_y[0]] = -NegativeOrthant.prox(prox_r_N * xi_N - P_N)", expect="C18.R3"),
    dict(id="c18-m3", what="BackwardEuler: friction reservoir scaled by the friction percussion", file=BE,
         old="                    dP_Nn1i = dP_Nn1[contr.la_NDOF[i_N]]", new="                    dP_Nn1i = dP_Fn1[contr.la_FDOF[i_F]]", expect="C18.R1"),
    dict(id="c18-m4", what="Rattle.prox1 projects with the gap rate instead of the gap", file=RT,
         old="        g_N = self.system.g_N(tn1, qn1)\n        prox_arg = (prox_r_N / self.dt) * g_N - P_N1",
         new="        g_N = self.system.g_N_dot(tn1, qn1, un12)\n        prox_arg = (prox_r_N / self.dt) * g_N - P_N1", expect="C18.R2"),
    dict(id="c18-m5", what="DualStormerVerlet: friction prox argument adds the force", file=DSV,
         old="                            min(prox_r_F_contr[i_F]) * gamma_F_contr[i_F]\n                            - Pi_Nn1_contr[i_F],",
         new="                            min(prox_r_F_contr[i_F]) * gamma_F_contr[i_F]\n                            + Pi_Nn1_contr[i_F],", expect="C18.R1"),
    dict(id="c18-m6", what="Moreau: friction projected with the normal prox parameter", file=MO,
         old="                min(self.prox_r_F[i_F]) * xi_F[i_F] - P_F[i_F],", new="                min(self.prox_r_N[i_N]) * xi_F[i_F] - P_F[i_F],", expect="C18.R1"),
    dict(id="c18-m7", what="BackwardEuler: normal prox uses the friction velocity", file=BE,
         old="        dP_Nn1 = -NegativeOrthant.prox((prox_r_N / self.dt) * g_N - dP_Nn1)", new="        dP_Nn1 = -NegativeOrthant.prox((prox_r_N / self.dt) * self.system.gamma_F(tn1, qn1, un1)[: len(dP_Nn1)] - dP_Nn1)", expect=["C18.R1", "C18.R2"]),
    dict(id="c18-m8", what="Moreau restitution dropped from xi_N0", file=MO,
         old="            self.xi_N0 = e_N * (self.W_N.T @ un) + (1 + e_N) * chi_N", new="            self.xi_N0 = chi_N", expect="C18.R2"),
]
MUTANTS += [
    dict(id="c18-r4-seed", canary=True, what="[seeded by sub-agent] Moreau: per-component prox parameters in the friction projection", file=MO,
         old="                min(self.prox_r_F[i_F]) * xi_F[i_F] - P_F[i_F],", new="                self.prox_r_F[i_F] * xi_F[i_F] - P_F[i_F],", expect="C18.R4"),
    dict(id="c18-r4-2", what="Rattle stage 2: per-component prox parameters (original defect)", file=RT,
         old="                    min(prox_r_F_contr[i_F]) * xi_F_contr[i_F] - P_F_contr[i_F],", new="                    prox_r_F_contr[i_F] * xi_F_contr[i_F] - P_F_contr[i_F],", expect="C18.R4"),
    dict(id="c18-r4-3", what="DualStormerVerlet: per-component prox parameters (original defect)", file=DSV,
         old="                            min(prox_r_F_contr[i_F]) * gamma_F_contr[i_F]", new="                            prox_r_F_contr[i_F] * gamma_F_contr[i_F]", expect="C18.R4"),
]
CB = "cardillo/solver/_base.py"
MUTANTS += [
    dict(id="c18-r5-seed", canary=True, what="[seeded by sub-agent] compute_I_F: local normal index from a running counter over friction-owning contacts", file=CB,
         edits=[(CB, "    nla_F_local = 0\n    for contr in system.get_contribution_list(\"gamma_F\"):", "    nla_N_local = 0\n    nla_F_local = 0\n    for contr in system.get_contribution_list(\"gamma_F\"):"),
                (CB, "                    i_N_local = np.where(i_N_global == I_N)[0]\n", "                    i_N_local = np.arange(1) + nla_N_local\n                    nla_N_local += 1\n")],
         expect="C18.R5"),
    dict(id="c18-r5-2", what="compute_I_F: friction counter not advanced for constant-reservoir laws", file=CB,
         old="            else:  # no normal force dependence\n                nla_F_local += n_F\n", new="            else:  # no normal force dependence\n", expect="C18.R5"),
    dict(id="c18-r5-3", what="compute_I_F: the global normal index itself is handed out as local index", file=CB,
         old="                    i_N_local = np.where(i_N_global == I_N)[0]\n", new="                    i_N_local = np.array([i_N_global])\n", expect="C18.R5"),
]
MUTANTS += [
    dict(id="c18-r6-seed", canary=True, what="[seeded by sub-agent] DualStormerVerlet: restituted pre-impact gap rate hoisted out of the fixed point and evaluated at (tn, qn) instead of the midpoint", file=DSV,
         edits=[(DSV, "            # TODO: Introduce slicing for active contacts as in Moreau\n", "            xi_Nn = self.system.e_N * self.system.g_N_dot(tn, qn, un)\n"),
                (DSV, "                xi_N = self.system.xi_N(tm, tm, qm, qm, un, un1)\n", "                xi_N = self.system.g_N_dot(tm, qm, un1) + xi_Nn\n")],
         expect=["C18.R6", "C18.R2"]),
    dict(id="c18-r6-2", what="DualStormerVerlet: xi_N called with the old configuration as pre-impact point", file=DSV,
         old="                xi_N = self.system.xi_N(tm, tm, qm, qm, un, un1)\n", new="                xi_N = self.system.xi_N(tn, tm, qn, qm, un, un1)\n", expect="C18.R6"),
]
MUTANTS += [
    dict(id="c18-r9-seed", canary=True, what="[seeded by sub-agent] System.xi_N written as separation speed minus e_N times |closing speed|", file="cardillo/system.py",
         old="            ) + contr.e_N * contr.g_N_dot(t_pre, q_pre[contr.qDOF], u_pre[contr.uDOF])\n", new="            ) - contr.e_N * np.abs(contr.g_N_dot(t_pre, q_pre[contr.qDOF], u_pre[contr.uDOF]))\n", expect="C18.R9"),
]
MUTANTS += [
    dict(id="c18-r8-orig", canary=True, what="Rattle stage 2: first convergence test against the previous step's solution (original defect F53)", file=RT,
         edits=[(RT, "            # store old values\n            y2n = self.y2n.copy()\n", "            # store old values\n            x2n = self.x2n.copy()\n            y2n = self.y2n.copy()\n"),
                (RT, "                x2n = x2n1\n                b = b0.copy()  # mandatory copy\n                b[: self.nu] -= self.W_FNn @ y2n1\n                x2n1 = -lu.solve(b)\n", ""),
                (RT, "                if converged:\n                    break\n\n            self.solver_summary.add_fixed_point(i2_fixed_point, error)\n",
                 "                if converged:\n                    break\n                else:\n                    x2n = x2n1.copy()\n                    y2n = y2n1.copy()\n                    b = b0.copy()\n                    b[: self.nu] -= self.W_FNn @ y2n\n                    x2n1 = -lu.solve(b)\n\n            self.solver_summary.add_fixed_point(i2_fixed_point, error)\n")],
         expect="C18.R8"),
]
MUTANTS += [
    dict(id="c18-r7-seed", canary=True, what="[seeded by sub-agent] Moreau: obstacle velocity chi_N enters xi_N0 without the factor (1 + e_N)", file=MO,
         old="            self.xi_N0 = e_N * (self.W_N.T @ un) + (1 + e_N) * chi_N\n", new="            self.xi_N0 = e_N * (self.W_N.T @ un) + chi_N\n", expect="C18.R7"),
]
NEUTRAL = [
    dict(id="c18-n-r7", canary=True, what="Moreau: xi_N0 written as e_N * (W_N.T un + chi_N) + chi_N", file=MO,
         old="            self.xi_N0 = e_N * (self.W_N.T @ un) + (1 + e_N) * chi_N\n", new="            self.xi_N0 = e_N * (self.W_N.T @ un + chi_N) + chi_N\n"),
    dict(id="c18-n-r6", canary=True, what="DualStormerVerlet: xi_N decomposed, both terms at the midpoint", file=DSV,
         old="                xi_N = self.system.xi_N(tm, tm, qm, qm, un, un1)\n",
         new="                xi_N = self.system.g_N_dot(tm, qm, un1) + self.system.e_N * self.system.g_N_dot(tm, qm, un)\n"),
    dict(id="c18-n-r5", what="compute_I_F: np.flatnonzero instead of np.where(...)[0]", file=CB,
         old="                    i_N_local = np.where(i_N_global == I_N)[0]\n", new="                    i_N_local = np.flatnonzero(I_N == i_N_global)\n"),
    dict(id="c18-n-r4", canary=True, what="Moreau: scalar parameter through np.min and a local", file=MO,
         old="                min(self.prox_r_F[i_F]) * xi_F[i_F] - P_F[i_F],", new="                np.min(self.prox_r_F[i_F]) * xi_F[i_F] - P_F[i_F],"),]

MUTANTS += [
    dict(id="c18-r10-seed", canary=True, what="[seeded by sub-agent] Moreau: closed contacts that separate under the free velocity are dropped from the active set", file='cardillo/solver/moreau.py',
         old='        g_Nn12 = self.system.g_N(tn12, qn12)\n        self.I_N = np.where(\n            np.logical_or(\n                g_Nn12 <= 0,\n                np.isclose(g_Nn12, np.zeros(self.system.nla_N), atol=IS_CLOSE_ATOL),\n            )\n        )[0]\n', new='        g_Nn12 = self.system.g_N(tn12, qn12)\n        xi_N_free = self.system.g_N_dot(\n            tn12, qn12, u0\n        ) + self.system.e_N * self.system.g_N_dot(tn12, qn12, un)\n        self.I_N = np.where(\n            np.logical_and(\n                np.logical_or(\n                    g_Nn12 <= 0,\n                    np.isclose(\n                        g_Nn12, np.zeros(self.system.nla_N), atol=IS_CLOSE_ATOL\n                    ),\n                ),\n                xi_N_free < 0,\n            )\n        )[0]\n', expect="C18.R10"),
]
NEUTRAL += [
    dict(id="c18-n-r10", canary=True, what="Moreau: the closed-contact set is named before it is stored", file='cardillo/solver/moreau.py', old='        g_Nn12 = self.system.g_N(tn12, qn12)\n        self.I_N = np.where(\n            np.logical_or(\n                g_Nn12 <= 0,\n                np.isclose(g_Nn12, np.zeros(self.system.nla_N), atol=IS_CLOSE_ATOL),\n            )\n        )[0]\n', new='        g_Nn12 = self.system.g_N(tn12, qn12)\n        closed = np.where(\n            np.logical_or(\n                g_Nn12 <= 0,\n                np.isclose(g_Nn12, np.zeros(self.system.nla_N), atol=IS_CLOSE_ATOL),\n            )\n        )[0]\n        self.I_N = closed\n'),
]

MUTANTS += [
    dict(id="c18-r8-be", canary=True, what="[seeded by sub-agent] BackwardEuler tests convergence of its contact fixed point on the smooth state xn1 - x0, where x0 is the warm start from the previous step on the first pass", file='cardillo/solver/backward_euler.py',
         old="                    diff = yn1 - y0\n                    sc = (\n                        self.options.fixed_point_atol\n                        + np.maximum(np.abs(yn1), np.abs(y0))\n",
         new="                    diff = xn1 - x0\n                    sc = (\n                        self.options.fixed_point_atol\n                        + np.maximum(np.abs(xn1), np.abs(x0))\n", expect="C18.R8"),
]

MUTANTS += [
    dict(id="c18-r11-seed", canary=True, what="[seeded by sub-agent] Rattle.prox1 decides the stage-2 active set by Moreau's closed-contact test on the gap instead of the sign of the stage-1 prox argument", file='cardillo/solver/rattle.py',
         old="        self.I_N = prox_arg <= 0  # active set for second stage\n", new="        self.I_N = np.logical_or(g_N <= 0, np.isclose(g_N, np.zeros(self.nla_N), atol=1e-8))\n", expect="C18.R11"),
]

MUTANTS += [
    dict(id="c18-r13-seed", canary=True, what="[seeded by sub-agent] fixed_point_iteration hands the live iterate to the in-place map and keeps no copy of the old one", file=DSV,
         edits=[(DSV, "        x_new = fun(x.copy())\n", "        x_new = fun(x)\n"), (DSV, "        x = x_new.copy()\n    raise ValueError(\n        f\"Fixed-point", "        x = x_new\n    raise ValueError(\n        f\"Fixed-point")], expect="C18.R13"),
]
