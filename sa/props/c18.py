"""C18  Nonsmooth integrators satisfy the discrete Signorini-Coulomb laws.

Structural clauses decided, for the prox sites of Moreau, Rattle (stage 1 and 2), BackwardEuler and DualStormerVerlet:
 R1 template      every contact fixed-point update is  -NegativeOrthant.prox(r_N * kin_N - P_N)  resp.
                  -reservoir.prox(r_F * kin_F - P_F, P_N-of-linked-contact | dt)  with operands of the right provenance
                  (normal/friction prox parameters, kinematic quantity of the same kind, the force iterate)
 R2 level         position-level schemes (BackwardEuler.prox, Rattle.prox1) project with the gap g_N; velocity-level schemes
                  (Moreau, Rattle.prox2, DualStormerVerlet) with the Newton-restituted gap rate xi_N / xi_F (e_N, e_F enter)
 R3 active set    velocity-level normal percussions are restricted to closed contacts (active-set mask I_N / np.where /
                  column slicing by I_N), so percussions vanish for contacts that are not closed
 R4 write-back    each site writes the projected normal and friction forces into the slots it read them from
"""
from __future__ import annotations

import ast

from ..core import AnalysisError, dotted, norm_src
from .. import termset, proxrule

EXPLANATION = ("Template matching of every prox call in the four nonsmooth integrators with operand provenance obtained "
               "from the term-set resolver; level and active-set rules per site.")
NOT_DECIDED = "complementarity, penetration and cone membership at convergence; energy decrease at impacts (value facts)."
ASSUMPTIONS = ["NegativeOrthant.prox / Sphere.prox are exact projections (C27)"]
BLIND_SPOTS = ["wrong restitution sign inside System.xi_N (checked under C14.R6 only structurally)"]

SITES = [
    # (file, class, function qualname, level, masked?)
    ("cardillo/solver/moreau.py", "Moreau", "Moreau.prox", "velocity"),
    ("cardillo/solver/rattle.py", "Rattle", "Rattle.prox1", "position"),
    ("cardillo/solver/rattle.py", "Rattle", "Rattle.prox2", "velocity"),
    ("cardillo/solver/backward_euler.py", "BackwardEuler", "BackwardEuler.prox", "position"),
    ("cardillo/solver/dual_stormer_verlet.py", "DualStormerVerlet", "DualStormerVerlet._step.fun.prox", "velocity"),
]


def run(ctx):
    rep = ctx.rep
    rep.rule("C18.R1", "prox template with operand provenance", 10)
    rep.rule("C18.R2", "position- vs velocity-level kinematic quantity", 5)
    rep.rule("C18.R4", "one scalar prox parameter per vector-valued friction law (Coulomb direction)", 4)
    rep.rule("C18.R3", "active-set restriction of velocity-level normal percussions", 3)
    for rel, cname, q, level in SITES:
        cls = ctx.repo.get(rel, cname)
        fn = ctx.repo.get(rel, q)
        res = termset.Resolver(fn, cls)
        # enclosing function locals are visible to nested prox (DualStormerVerlet)
        if q.count(".") > 1:
            outer = ctx.repo.get(rel, q.rsplit(".", 1)[0])
            ro = termset.Resolver(outer, cls)
            for k, v in ro.local.items():
                res.local.setdefault(k, v)
            outer2 = ctx.repo.get(rel, q.rsplit(".", 2)[0])
            ro2 = termset.Resolver(outer2, cls)
            for k, v in ro2.local.items():
                res.local.setdefault(k, v)
        tags = proxrule.local_kinematics(fn, res)
        calls = proxrule.prox_calls(fn)
        C = f"{rel}:{q}"
        if len(calls) < 2:
            raise AnalysisError(f"{C}: fewer than 2 prox calls")
        nN = nF = 0
        for c in calls:
            r = proxrule.analyse_prox(c, res, tags)
            if r["kind"] == "N":
                nN += 1
            else:
                nF += 1
            if r["ok"]:
                rep.ok("C18.R1", C, r["desc"])
            else:
                rep.bad("C18.R1", C, c, "; ".join(r["problems"]), f"{rel}:{c.lineno}")
            if r.get("scalar_r") is True:
                rep.ok("C18.R4", C, f"scalar prox parameter in {r['desc'][:90]}")
            elif r.get("scalar_r") is False:
                rep.bad("C18.R4", C, c, r["scalar_msg"], f"{rel}:{c.lineno}")
            elif r["kind"] == "F":
                rep.note(f"C18.R4: {C}: prox parameter of `{r['desc'][:80]}` not classified (neither a reduction nor indexed like the slip)")
            # R2 level
            arg = c.args[0]
            if isinstance(arg, ast.Name) and arg.id in res.local:
                arg = res.local[arg.id][0]
            fam = res.families(arg) if arg is not None else set()
            s = norm_src(arg) if arg is not None else ""
            if r["kind"] == "N":
                if level == "position":
                    good = "g_N" in fam and not ({"xi_N", "g_N_dot"} & fam)
                    want = "the gap g_N"
                else:
                    good = ("xi_N" in fam) or ("xi_N" in s and _restituted(ctx, rel, cname, "xi_N0"))
                    want = "the restituted gap rate xi_N"
                if good:
                    rep.ok("C18.R2", C, f"{level}-level Signorini update uses {want}")
                else:
                    rep.bad("C18.R2", C, c, f"{level}-level scheme must project with {want}; found `{s[:80]}` (families {sorted(fam)})", f"{rel}:{c.lineno}")
        nloc, badloc = proxrule.check_locality(fn, tags)
        for node, msg in badloc:
            rep.bad("C18.R1", C, proxrule._stmt_of(node), msg, f"{rel}:{node.lineno}")
        if not badloc and nloc:
            rep.ok("C18.R1", C, f"per-contact locality: {nloc} uses of contact arrays indexed with the contact's own i_N / i_F")
        if nN < 1 or nF < 1:
            rep.bad("C18.R1", C, fn.name, f"site has {nN} normal and {nF} friction projections (both are required)", f"{rel}:{fn.lineno}")
        # R3
        if level == "velocity":
            src = ast.unparse(fn)
            masked = ("I_N *" in src) or ("np.where(I_N" in src.replace("\n", "")) or ("np.where(\n" in src and "I_N" in src)
            if not masked and cname == "Moreau":
                # Moreau restricts the operators themselves to the active set
                st = ctx.repo.get(rel, "Moreau.step")
                ssrc = ast.unparse(st)
                masked = "[:, self.I_N]" in ssrc and "P_Nn1[self.I_N] = P_N" in ssrc
            if masked:
                rep.ok("C18.R3", C, "normal percussions restricted to the active set I_N")
            else:
                rep.bad("C18.R3", C, fn.name, "velocity-level normal percussions are not restricted to closed contacts (no active-set mask): an open contact "
                        "with approaching velocity would receive a percussion", f"{rel}:{fn.lineno}")


def _restituted(ctx, rel, cname, attr):
    """self.xi_N0 = e_N * (W_N.T @ un) + (1 + e_N) * chi_N"""
    cls = ctx.repo.get(rel, cname)
    for n in ast.walk(cls):
        if isinstance(n, ast.Assign) and any(dotted(t) == f"self.{attr}" for t in n.targets):
            s = norm_src(n.value)
            return "e_N" in s and "W_N.T" in s
    return False


MO = "cardillo/solver/moreau.py"
RT = "cardillo/solver/rattle.py"
BE = "cardillo/solver/backward_euler.py"
DSV = "cardillo/solver/dual_stormer_verlet.py"
MUTANTS = [
    dict(id="c18-m1", canary=True, what="Moreau: Signorini update without the minus sign", file=MO,
         old="        P_N = -NegativeOrthant.prox(self.prox_r_N * xi_N - P_N)", new="        P_N = NegativeOrthant.prox(self.prox_r_N * xi_N - P_N)", expect="C18.R1"),
    dict(id="c18-m2", canary=True, what="Rattle.prox2 loses the active-set mask", file=RT,
         old="        y2n1p[: self.split_y[0]] = self.I_N * (\n            -NegativeOrthant.prox(prox_r_N * xi_N - P_N)\n        )",
         new="        y2n1p[: self.split_y[0]] = -NegativeOrthant.prox(prox_r_N * xi_N - P_N)", expect="C18.R3"),
    dict(id="c18-m3", what="BackwardEuler: friction reservoir scaled by the friction percussion", file=BE,
         old="                    dP_Nn1i = dP_Nn1[contr.la_NDOF[i_N]]", new="                    dP_Nn1i = dP_Fn1[contr.la_FDOF[i_F]]", expect="C18.R1"),
    dict(id="c18-m4", what="Rattle.prox1 projects with the gap rate instead of the gap", file=RT,
         old="        g_N = self.system.g_N(tn1, qn1)\n        prox_arg = (prox_r_N / self.dt) * g_N - P_N1",
         new="        g_N = self.system.g_N_dot(tn1, qn1, un12)\n        prox_arg = (prox_r_N / self.dt) * g_N - P_N1", expect="C18.R2"),
    dict(id="c18-m5", what="DualStormerVerlet: friction prox argument adds the force", file=DSV,
         old="                            min(prox_r_F_contr[i_F]) * gamma_F_contr[i_F]\n                            - Pi_Nn1_contr[i_F],",
         new="                            min(prox_r_F_contr[i_F]) * gamma_F_contr[i_F]\n                            + Pi_Nn1_contr[i_F],", expect="C18.R1"),
    dict(id="c18-m6", what="Moreau: friction projected with the normal prox parameter", file=MO,
         old="                min(self.prox_r_F[i_F]) * xi_F[i_F] - P_F[i_F],", new="                min(self.prox_r_N[i_N]) * xi_F[i_F] - P_F[i_F],", expect="C18.R1"),
    dict(id="c18-m7", what="BackwardEuler: normal prox uses the friction velocity", file=BE,
         old="        dP_Nn1 = -NegativeOrthant.prox((prox_r_N / self.dt) * g_N - dP_Nn1)", new="        dP_Nn1 = -NegativeOrthant.prox((prox_r_N / self.dt) * self.system.gamma_F(tn1, qn1, un1)[: len(dP_Nn1)] - dP_Nn1)", expect=["C18.R1", "C18.R2"]),
    dict(id="c18-m8", what="Moreau restitution dropped from xi_N0", file=MO,
         old="            self.xi_N0 = e_N * (self.W_N.T @ un) + (1 + e_N) * chi_N", new="            self.xi_N0 = chi_N", expect="C18.R2"),
]
MUTANTS += [
    dict(id="c18-r4-seed", canary=True, what="[seeded by sub-agent] Moreau: per-component prox parameters in the friction projection", file=MO,
         old="                min(self.prox_r_F[i_F]) * xi_F[i_F] - P_F[i_F],", new="                self.prox_r_F[i_F] * xi_F[i_F] - P_F[i_F],", expect="C18.R4"),
    dict(id="c18-r4-2", what="Rattle stage 2: per-component prox parameters (original defect)", file=RT,
         old="                    min(prox_r_F_contr[i_F]) * xi_F_contr[i_F] - P_F_contr[i_F],", new="                    prox_r_F_contr[i_F] * xi_F_contr[i_F] - P_F_contr[i_F],", expect="C18.R4"),
    dict(id="c18-r4-3", what="DualStormerVerlet: per-component prox parameters (original defect)", file=DSV,
         old="                            min(prox_r_F_contr[i_F]) * gamma_F_contr[i_F]", new="                            prox_r_F_contr[i_F] * gamma_F_contr[i_F]", expect="C18.R4"),
]
NEUTRAL = [
    dict(id="c18-n-r4", canary=True, what="Moreau: scalar parameter through np.min and a local", file=MO,
         old="                min(self.prox_r_F[i_F]) * xi_F[i_F] - P_F[i_F],", new="                np.min(self.prox_r_F[i_F]) * xi_F[i_F] - P_F[i_F],"),]
