"""C21  Non-convergence is never silent.

Structural clauses decided:
 R1  loudness        for every convergence flag (result of fsolve / _solve_nonlinear_system / solve_ivp / solve_dae,
                     booleans `converged*`), on every CFG path on which the flag may be false, before the solver
                     proceeds (next time step / normal exit) there is a raise, an assert of the flag, or a
                     warnings.warn(...) (possibly inside the callee that produced the flag: callee summaries are
                     computed with the same walker).  print(...) and a bare RuntimeWarning(...) expression are not loud.
 R1b continue        the solver proceeds to the next step with a possibly-false flag only on paths on which
                     `continue_with_unconverged` was tested true
 R2  truncated       a `return Solution(...)` reached with the flag possibly false passes a warn whose message
                     interpolates a time value, and no data of the failed step was stored into what is returned
 R3  model parts     every force/constraint family System exposes is used by each solver's equations, or the solver
                     guards it (raise / warn / assert on system.n<family>)
"""
from __future__ import annotations

import ast

from ..core import AnalysisError, dotted, norm_src, walk_no_nested, enclosing
from ..cfg import CFG
from ..loud import LoudWalk, Summary, T, F, U, warn_info

EXPLANATION = ("Flag-tracking path exploration (abstract values of the convergence flag and of "
               "continue_with_unconverged, loudness bits) over the CFG of every function in cardillo/solver/*.py and "
               "fsolve, with callee summaries; structural taint of failed-step data into truncated returns; "
               "inventory of System force families per solver class.")
NOT_DECIDED = "whether a solve actually fails (runtime); the wording of messages beyond 'interpolates a time value'."
ASSUMPTIONS = ["scipy's solve_ivp / scipy_dae's solve_dae do not warn on failure (they report through sol.success)",
               "a contribution family is 'used' by a solver if the solver references the System methods of that family"]
BLIND_SPOTS = ["a warning emitted with a misleading text", "linear-solver (minres) failures"]

SOLVER_FILES = [
    "cardillo/solver/backward_euler.py", "cardillo/solver/rattle.py", "cardillo/solver/moreau.py",
    "cardillo/solver/dual_stormer_verlet.py", "cardillo/solver/statics.py", "cardillo/solver/_base.py",
    "cardillo/solver/scipy_ivp.py", "cardillo/solver/scipy_dae.py", "cardillo/math/fsolve.py",
]
SOLVE_CALLS_EXTERNAL = {"solve_ivp", "solve_dae"}


def functions_of(mod):
    out = []
    for q, n in mod.defs().items():
        if isinstance(n, ast.FunctionDef):
            # skip nested closures of functions (analysed as part of... no: analyse too)
            out.append((q, n))
    return out


def find_flags(fn):
    """{flag: [assign stmt nodes]}"""
    flags = {}
    for n in walk_no_nested(fn):
        if isinstance(n, ast.Assign):
            for t in n.targets:
                flat = []
                for x in (t.elts if isinstance(t, (ast.Tuple, ast.List)) else [t]):
                    flat += list(x.elts) if isinstance(x, (ast.Tuple, ast.List)) else [x]
                for tt in flat:
                    if isinstance(tt, ast.Name) and tt.id.startswith("converged"):
                        flags.setdefault(tt.id, []).append(n)
            if len(n.targets) == 1 and isinstance(n.targets[0], ast.Name) and isinstance(n.value, ast.Call):
                cn = dotted(n.value.func) or ""
                last = cn.split(".")[-1]
                if last in ("fsolve", "_solve_nonlinear_system") or last in SOLVE_CALLS_EXTERNAL:
                    flags.setdefault(n.targets[0].id + ".success", []).append(n)
    return flags


def is_iteration_loop(loop):
    it = norm_src(loop.iter) if isinstance(loop, ast.For) else norm_src(loop.test)
    return "max_iter" in it


def time_loop_of(fn, stmt):
    """Outermost enclosing loop of stmt that is not a bounded iteration loop."""
    best = None
    p = getattr(stmt, "_parent", None)
    while p is not None and p is not fn:
        if isinstance(p, (ast.For, ast.While)) and not is_iteration_loop(p):
            best = p
        p = getattr(p, "_parent", None)
    return best


class Engine:
    def __init__(self, ctx):
        self.ctx = ctx
        self.funcs = {}  # (rel, qual) -> FunctionDef
        for rel in SOLVER_FILES:
            mod = ctx.repo.module(rel)
            for q, fn in functions_of(mod):
                self.funcs[(rel, q)] = fn
        self._summ = {}
        self._cfg = {}

    def cfg(self, key):
        if key not in self._cfg:
            self._cfg[key] = CFG(self.funcs[key])
        return self._cfg[key]

    def resolve_callee(self, key, call):
        """key of the function a flag-producing call refers to, 'external', or None."""
        cn = dotted(call.func) or ""
        last = cn.split(".")[-1]
        if last in SOLVE_CALLS_EXTERNAL:
            return "external"
        if last == "fsolve":
            return ("cardillo/math/fsolve.py", "fsolve")
        if cn.startswith("self."):
            rel, q = key
            cls = q.split(".")[0]
            k2 = (rel, f"{cls}.{last}")
            if k2 in self.funcs:
                return k2
        return None

    def summary(self, key, depth=0):
        """Summary of function `key` w.r.t. the flag it hands to its caller."""
        if key in self._summ:
            return self._summ[key]
        if depth > 4:
            return Summary.external_silent()
        self._summ[key] = Summary.external_silent()  # recursion guard
        fn = self.funcs[key]
        flags = find_flags(fn)
        exits = set()
        for flag in flags:
            w = self.walk(key, flag, depth + 1)
            for kind, n, st in w.events:
                if kind == "transfer":
                    _, v, l, lt, c = st
                    exits.add((v, l, lt, c))
        s = Summary(sorted(exits)) if exits else Summary([])
        self._summ[key] = s
        return s

    def walk(self, key, flag, depth=0):
        fn = self.funcs[key]
        cfg = self.cfg(key)
        flags = find_flags(fn)
        sources = {}
        top = None
        for st in flags.get(flag, []):
            node = cfg.node_of(st)
            if node is None:
                continue
            if isinstance(st.value, ast.Call):
                ck = self.resolve_callee(key, st.value)
                if ck == "external":
                    sources[node.id] = Summary.external_silent()
                elif ck is not None:
                    sources[node.id] = self.summary(ck, depth)
            tl = time_loop_of(fn, st)
            if tl is not None:
                top = tl
        top_node = cfg.node_of(top) if top is not None else None
        return LoudWalk(cfg, flag, flag_sources=sources, top_loop=top_node)


def received_flags_are_read(ctx, rule="C21.R10"):
    """Moving the report of a failed inner iteration from the helper to its caller is fine - if the caller looks at the flag.  K1 liveness:
    the definition `..., converged = self._helper(...)` must reach at least one use of `converged`; if every path overwrites the name first
    (`converged = False` at the top of the next loop), the helper's failure is silent."""
    from ..cfg import CFG
    from ..dataflow import ReachingDefs
    rep = ctx.rep
    n = 0
    for rel, mod in sorted(ctx.repo.modules.items()):
        if not rel.startswith("cardillo/solver/"):
            continue
        for q, fn in mod.defs().items():
            if not isinstance(fn, ast.FunctionDef):
                continue
            cands = []
            for w in walk_no_nested(fn):
                if isinstance(w, ast.Assign) and isinstance(w.value, ast.Call) or (isinstance(w, ast.Assign) and isinstance(w.value, ast.Tuple) is False and isinstance(getattr(w.value, "elts", None), list)):
                    tg = w.targets[0]
                    names = [t.id for t in (tg.elts if isinstance(tg, ast.Tuple) else [tg]) if isinstance(t, ast.Name) and "converged" in t.id]
                    if names and isinstance(w.value, ast.Call) and norm_src(w.value.func).startswith("self."):
                        cands.append((w, names[0]))
            if not cands:
                continue
            cfg = CFG(fn)
            rd = ReachingDefs(cfg)
            for w, name in cands:
                n += 1
                dn = cfg.node_of(w)
                live = False
                for node in cfg.nodes:
                    if node.ast is None or node is dn:
                        continue
                    if name in rd.uses(node) and any(d is dn for d in rd.defs_reaching(node, name)):
                        live = True
                        break
                C = f"{rel}:{q}"
                if live:
                    rep.ok(rule, C, f"the flag `{name}` received from `{norm_src(w.value.func)}` is read")
                else:
                    rep.bad(rule, C, w, f"`{norm_src(w)[:80]}`: the flag `{name}` returned by the helper is overwritten on every path before anything reads it - a failed iteration inside "
                            f"`{norm_src(w.value.func)}` is neither raised nor warned about by this routine", f"{rel}:{w.lineno}")
    rep.ok(rule, "cardillo/solver", f"{n} convergence flag(s) received from helper calls", trivial=True)


def flag_from_error_only(ctx, rule="C21.R9"):
    """A loop that decides convergence by `flag = error < tol` reports exactly what the tolerance promises.  An additional `flag = True` under
    some other condition inside the same loop ("all percussions are zero, so nothing acts") declares an iterate converged that the error
    measure has not accepted; in a cycling iteration (large percussion / zero percussion) the shortcut ends the loop at the zero iterate and
    neither the raise nor the warning behind the loop can fire."""
    rep = ctx.rep
    n = 0
    for rel, mod in sorted(ctx.repo.modules.items()):
        if not rel.startswith("cardillo/solver/") and rel != "cardillo/math/fsolve.py":
            continue
        for q, fn in mod.defs().items():
            if not isinstance(fn, ast.FunctionDef):
                continue
            def innermost_loop(node):
                up = getattr(node, "_parent", None)
                while up is not None and not isinstance(up, (ast.For, ast.While)):
                    up = getattr(up, "_parent", None)
                return up
            for loop in [w for w in walk_no_nested(fn) if isinstance(w, (ast.For, ast.While))]:
                flags = {}
                for w in ast.walk(loop):
                    if innermost_loop(w) is not loop:
                        continue
                    if isinstance(w, ast.Assign) and len(w.targets) == 1 and isinstance(w.targets[0], ast.Name) and isinstance(w.value, ast.Compare) \
                            and any(isinstance(o, (ast.Lt, ast.LtE)) for o in w.value.ops) and "converged" in w.targets[0].id:
                        flags[w.targets[0].id] = w
                for name, cmp_ in flags.items():
                    n += 1
                    consts = [w for w in ast.walk(loop) if isinstance(w, ast.Assign) and any(isinstance(t, ast.Name) and t.id == name for t in w.targets)
                              and isinstance(w.value, ast.Constant) and w.value.value is True and innermost_loop(w) is loop]
                    C = f"{rel}:{q}"
                    if consts:
                        rep.bad(rule, C, consts[0], f"`{norm_src(consts[0])}` inside the loop that decides `{norm_src(cmp_)[:60]}`: an iterate is declared converged without the error measure having "
                                "accepted it; when the iteration cycles through such an iterate the loop ends there and the non-convergence report behind the loop is never reached",
                                f"{rel}:{consts[0].lineno}")
                    else:
                        rep.ok(rule, C, f"`{name}` is set from `{norm_src(cmp_.value)[:50]}` only")
    if n < 4:
        raise AnalysisError(f"{rule}: only {n} convergence flags set from an error comparison found")


def convergence_reference_not_aliased(ctx, rule="C21.R8"):
    """A convergence test `new - old` can only fail if `old` is another object than `new`.  Pattern that defeats it:
        old = cur                      (alias, no copy)
        cur = update(..., cur)         where update stores into its parameter IN PLACE and returns it
        diff = cur - old               (identically zero: the assert / warning after the loop can never fire for this part)
    The callee is resolved among the functions nested in the same routine and the methods of the same class; a callee that rebinds its
    parameter first (`la_N = -prox(...)`) returns a new object and is fine."""
    rep = ctx.rep
    n = 0
    for rel, mod in sorted(ctx.repo.modules.items()):
        if not rel.startswith("cardillo/solver/"):
            continue
        for q, fn in mod.defs().items():
            if not isinstance(fn, ast.FunctionDef):
                continue
            local_fns = {f.name: f for f in ast.walk(fn) if isinstance(f, ast.FunctionDef) and f is not fn}
            cls = getattr(fn, "_parent", None)
            if isinstance(cls, ast.ClassDef):
                local_fns.update({f.name: f for f in cls.body if isinstance(f, ast.FunctionDef)})

            def inplace_returned(f):
                """positions (among the call's arguments) of parameters that f stores into in place, never rebinds, and returns"""
                ps = [a.arg for a in f.args.args]
                off = 1 if ps and ps[0] == "self" else 0
                out = {}
                rets = [r.value for r in ast.walk(f) if isinstance(r, ast.Return) and r.value is not None]
                for i, p_ in enumerate(ps[off:]):
                    stores = any(isinstance(w, ast.Assign) and any(isinstance(t, ast.Subscript) and isinstance(t.value, ast.Name) and t.value.id == p_ for t in w.targets) for w in ast.walk(f))
                    rebinds = any(isinstance(w, ast.Assign) and any(isinstance(t, ast.Name) and t.id == p_ for t in w.targets) for w in ast.walk(f))
                    if stores and not rebinds:
                        for r in rets:
                            elts = r.elts if isinstance(r, ast.Tuple) else [r]
                            for k, e in enumerate(elts):
                                if isinstance(e, ast.Name) and e.id == p_:
                                    out[i] = k
                return out
            for loop in [w for w in ast.walk(fn) if isinstance(w, (ast.For, ast.While))]:
                aliases = {}
                for st in ast.walk(loop):
                    if isinstance(st, ast.Assign) and len(st.targets) == 1:
                        t, v = st.targets[0], st.value
                        pairs = zip(t.elts, v.elts) if isinstance(t, ast.Tuple) and isinstance(v, ast.Tuple) and len(t.elts) == len(v.elts) else [(t, v)]
                        for a, b in pairs:
                            if isinstance(a, ast.Name) and isinstance(b, ast.Name) and a.id != b.id:
                                aliases[a.id] = (b.id, st)
                if not aliases:
                    continue
                for st in ast.walk(loop):
                    if not (isinstance(st, ast.Assign) and isinstance(st.value, ast.Call)):
                        continue
                    cname = (dotted(st.value.func) or "").split(".")[-1]
                    f = local_fns.get(cname)
                    if f is None:
                        continue
                    m = inplace_returned(f)
                    tg = st.targets[0]
                    outs = tg.elts if isinstance(tg, ast.Tuple) else [tg]
                    for argi, reti in m.items():
                        if argi >= len(st.value.args) or reti >= len(outs):
                            continue
                        a, o = st.value.args[argi], outs[reti]
                        if not (isinstance(a, ast.Name) and isinstance(o, ast.Name)):
                            continue
                        for old, (src, ast_) in aliases.items():
                            if src == a.id and ast_.lineno <= st.lineno:
                                # is `o - old` (or old - o) used?
                                for w in ast.walk(loop):
                                    if isinstance(w, ast.BinOp) and isinstance(w.op, ast.Sub) and {getattr(w.left, "id", None), getattr(w.right, "id", None)} == {o.id, old}:
                                        n += 1
                                        rep.bad(rule, f"{rel}:{q}", w, f"`{norm_src(w)}` is identically zero: `{old}` is bound to the same array as `{a.id}` (`{norm_src(ast_)[:50]}`, no copy) and "
                                                f"`{cname}` updates that array in place and returns it as `{o.id}`; this part of the convergence measure can never report non-convergence, so the "
                                                "failure assert / warning behind the loop is dead for it", f"{rel}:{w.lineno}")
    rep.ok(rule, "cardillo/solver", f"alias / in-place-update / difference pattern: {n} occurrence(s)", trivial=True)


def wrapper_rows(ctx, rule="C21.R6"):
    """The ODE / DAE wrappers cannot truncate by slicing: the integrator itself stops, and `.t`, `.y`, `.yp` of its result hold exactly the
    output instants it reached.  "Returns only converged steps" therefore means: every row field of the returned Solution derives from these
    attributes.  The dense-output interpolant `.sol(...)` extrapolates beyond the last accepted step and the requested grid `self.t_eval` runs
    to t1 whatever happened; a Solution built from either contains instants that were never integrated although the warning names the
    stop time."""
    rep = ctx.rep
    for rel, cname, integ in (("cardillo/solver/scipy_ivp.py", "ScipyIVP", "solve_ivp"), ("cardillo/solver/scipy_dae.py", "ScipyDAE", "solve_dae")):
        fn = ctx.repo.get(rel, f"{cname}.solve")
        C = f"{rel}:{cname}.solve"
        binds = {}
        res = None
        for n in ast.walk(fn):
            if isinstance(n, ast.Assign) and len(n.targets) == 1:
                t = n.targets[0]
                if isinstance(t, ast.Name):
                    binds.setdefault(t.id, []).append(n.value)
                    if isinstance(n.value, ast.Call) and (dotted(n.value.func) or "").split(".")[-1] == integ:
                        res = t.id
                elif isinstance(t, ast.Tuple):
                    for a in t.elts:
                        if isinstance(a, ast.Name):
                            binds.setdefault(a.id, []).append(n.value)
        if res is None:
            raise AnalysisError(f"{C}: call of {integ} not found")

        def sources(e, seen):
            """(attributes of the integrator result read, calls made on it, self.* attributes read)"""
            attrs, calls, selfs = set(), set(), set()
            for w in ast.walk(e):
                if isinstance(w, ast.Call) and isinstance(w.func, ast.Attribute) and isinstance(w.func.value, ast.Name) and w.func.value.id == res:
                    calls.add(w.func.attr)
                elif isinstance(w, ast.Attribute) and isinstance(w.value, ast.Name) and w.value.id == res:
                    attrs.add(w.attr)
                elif isinstance(w, ast.Attribute) and isinstance(w.value, ast.Name) and w.value.id == "self" and isinstance(w.ctx, ast.Load):
                    selfs.add(w.attr)
                elif isinstance(w, ast.Name) and w.id != res and w.id in binds and w.id not in seen:
                    seen.add(w.id)
                    for v in binds[w.id]:
                        a2, c2, s2 = sources(v, seen)
                        attrs |= a2
                        calls |= c2
                        selfs |= s2
            return attrs - calls, calls, selfs
        rets = [n for n in ast.walk(fn) if isinstance(n, ast.Return) and isinstance(n.value, ast.Call) and (dotted(n.value.func) or "").split(".")[-1] == "Solution"]
        if not rets:
            raise AnalysisError(f"{C}: return Solution(...) not found")
        for ret in rets:
            for kw in ret.value.keywords:
                if kw.arg not in ("t", "q", "u"):
                    continue
                attrs, calls, selfs = sources(kw.value, set())
                grid = {a for a in selfs if a in ("t_eval", "t", "t1", "dt")}
                if calls:
                    rep.bad(rule, C, ret, f"the returned `{kw.arg}` is computed by calling `{res}.{sorted(calls)[0]}(...)` (the dense-output interpolant): after a failed integration it is evaluated beyond "
                            "the last accepted step, so the Solution contains extrapolated states that were never integrated while the warning names the stop time", f"{rel}:{ret.lineno}")
                elif grid:
                    rep.bad(rule, C, ret, f"the returned `{kw.arg}` derives from the requested grid `self.{sorted(grid)[0]}`, which runs to t1 whether or not the integrator got there", f"{rel}:{ret.lineno}")
                elif attrs and attrs <= {"t", "y", "yp"}:
                    rep.ok(rule, C, f"returned `{kw.arg}` derives from {', '.join(res + '.' + a for a in sorted(attrs))} (the instants the integrator reached)")
                else:
                    rep.ok(rule, C, f"returned `{kw.arg}`: sources {sorted(attrs)} not classified (no verdict)", verdict="unknown", trivial=True)


def run(ctx):
    rep = ctx.rep
    rep.rule("C21.R7", "the solvers' warnings are audible: no warn(...) in cardillo/solver or fsolve is issued under a suppressing filter the code itself installed, and no 'ignore' filter is installed for good", 10)
    from .c22 import warnings_audible
    warnings_audible(ctx, "C21.R7", ("cardillo/solver/", "cardillo/math/fsolve.py"), floor_calls=8)
    rep.rule("C21.R10", "a convergence flag that a solver routine RECEIVES from a helper (tuple-unpacked result of an iteration routine) is read before it is overwritten: a flag that is dead on arrival reports nothing", 0)
    received_flags_are_read(ctx)
    rep.rule("C21.R9", "inside an iteration loop the convergence flag comes from the error measure only: no `flag = True` shortcut in a loop that also sets the flag from a comparison with the tolerance", 4)
    flag_from_error_only(ctx)
    rep.rule("C21.R8", "no convergence difference in cardillo/solver compares an array with an alias of itself (reference bound without copy + in-place update returned by the iteration map)", 0)
    convergence_reference_not_aliased(ctx)
    rep.rule("C21.R6", "the ODE / DAE wrappers build t, q, u of the returned Solution from the integrator's own outputs (.t, .y, .yp), never from the dense-output interpolant or the requested grid: after a failure only integrated instants are returned", 6)
    wrapper_rows(ctx)
    rep.rule("C21.R1", "no silent escape of a possibly-false convergence flag", 15)
    rep.rule("C21.R1b", "proceeding with an unconverged step only when continue_with_unconverged is true", 8)
    rep.rule("C21.R2", "truncated returns warn with the time and carry no failed-step data", 4)
    rep.rule("C21.R3", "every force family is used or guarded by each solver", 40)
    rep.rule("C21.R5", "static Newton returns only load steps it has solved and accepted: the rows of every returned Solution end before a load step that was left unconverged (shared with C23.R6)", 3)
    from .c23 import newton_rows
    newton_rows(ctx, "C21.R5")
    rep.rule("C21.R4", "the iteration helpers of the solvers cannot hand back an unconverged / diverged iterate as success (fsolve warns, fixed-point helpers raise)", 4)
    from . import c22
    for rel_, fname_, _tols, kind_ in c22.HELPERS:
        c22.r3_failure_paths(ctx, "C21.R4", rel_, fname_, kind_)
    _done.clear()
    eng = Engine(ctx)
    nflags = 0
    for key in sorted(eng.funcs):
        rel, q = key
        fn = eng.funcs[key]
        flags = find_flags(fn)
        for flag in sorted(flags):
            nflags += 1
            C = f"{rel}:{q}"
            w = eng.walk(key, flag)
            silent, cont_bad, trunc_bad, trunc_ok, proceed_ok, transfers = [], [], [], [], 0, 0
            for kind, n, st in w.events:
                _, v, l, lt, c = st
                if kind == "transfer":
                    transfers += 1
                    continue
                if not l:
                    silent.append((kind, n, st))
                    continue
                if kind in ("proceed-exit", "proceed-loop", "return-other"):
                    if c != T:
                        cont_bad.append((kind, n, st))
                    else:
                        proceed_ok += 1
                elif kind == "truncated":
                    if not lt:
                        trunc_bad.append((kind, n, st))
                    else:
                        trunc_ok.append((kind, n, st))
            # ---- R1
            if silent:
                seen = set()
                for kind, n, st in silent:
                    tr = w.trace(st)
                    last = [x for x in tr if x.ast is not None][-1] if tr else n
                    where = n if n.ast is not None else last
                    k = (kind, where.lineno)
                    if k in seen:
                        continue
                    seen.add(k)
                    how = {"proceed-exit": "reaches the normal exit", "proceed-loop": "proceeds to the next step",
                           "truncated": "returns a Solution", "return-other": "returns"}[kind]
                    prints = any(isinstance(x.ast, ast.Expr) and isinstance(x.ast.value, ast.Call) and dotted(x.ast.value.func) == "print" for x in tr if x.ast is not None)
                    bare = any(isinstance(x.ast, ast.Expr) and isinstance(x.ast.value, ast.Call) and (dotted(x.ast.value.func) or "").endswith("Warning") for x in tr if x.ast is not None)
                    extra = " (only print(...) on the way)" if prints else ""
                    extra += " (a warning object is constructed but never emitted)" if bare else ""
                    rep.bad("C21.R1", C, where.ast if where.ast is not None else flag,
                            f"flag `{flag}` may be false and the function {how} without raise/assert/warnings.warn{extra}",
                            f"{rel}:{where.lineno}")
            else:
                rep.ok("C21.R1", C, f"flag `{flag}`: {len(w.events)} escape events, all loud or transferred to the caller")
            # ---- R1b
            if cont_bad:
                seen = set()
                for kind, n, st in cont_bad:
                    tr = w.trace(st)
                    where = n if n.ast is not None else ([x for x in tr if x.ast is not None] or [n])[-1]
                    k = where.lineno
                    if k in seen:
                        continue
                    seen.add(k)
                    rep.bad("C21.R1b", C, where.ast if where.ast is not None else flag,
                            f"flag `{flag}` may be false and the solver proceeds although continue_with_unconverged was not tested true on this path",
                            f"{rel}:{where.lineno}")
            elif proceed_ok or not silent:
                rep.ok("C21.R1b", C, f"flag `{flag}`: proceeds with a false flag only under continue_with_unconverged ({proceed_ok} paths)",
                       trivial=proceed_ok == 0)
            # ---- R2
            seen = set()
            for kind, n, st in trunc_bad:
                if n.lineno in seen:
                    continue
                seen.add(n.lineno)
                tr = w.trace(st)
                bare = [x for x in tr if x.ast is not None and isinstance(x.ast, ast.Expr) and isinstance(x.ast.value, ast.Call)
                        and (dotted(x.ast.value.func) or "").endswith("Warning")]
                rep.bad("C21.R2", C, (bare[-1].ast if bare else n.ast),
                        f"truncated return with `{flag}` possibly false is not preceded by a warnings.warn naming the time at which the run stopped"
                        + (" (the RuntimeWarning object is constructed but never emitted)" if bare else ""),
                        f"{rel}:{(bare[-1] if bare else n).lineno}")
            for kind, n, st in trunc_ok:
                if n.lineno in seen:
                    continue
                seen.add(n.lineno)
                rep.ok("C21.R2", C, f"`{norm_src(n.ast)}` with `{flag}` false: time-naming warning passed")
            # data of the failed step
            for kind, n, st in trunc_bad + trunc_ok:
                r2_data(ctx, eng, key, flag, n, flags[flag])
    if nflags < 12:
        raise AnalysisError(f"only {nflags} convergence flags found in the solver files")
    r3_model_parts(ctx)


def r2_data(ctx, eng, key, flag, ret_node, assigns):
    """Stores between the failed solve and the truncated return into containers the returned Solution reads."""
    rep = ctx.rep
    rel, q = key
    C = f"{rel}:{q}"
    fn = eng.funcs[key]
    cfg = eng.cfg(key)
    rv = ret_node.ast.value
    # containers read by the return expression (resolve make_solution() closure)
    read_exprs = [rv]
    if isinstance(rv, ast.Call) and isinstance(rv.func, ast.Name):
        for s in fn.body:
            if isinstance(s, ast.FunctionDef) and s.name == rv.func.id:
                read_exprs = [s]
    reads = {}
    for e in read_exprs:
        for x in ast.walk(e):
            if isinstance(x, ast.Subscript):
                d = dotted(x.value)
                if d:
                    reads.setdefault(d, []).append(x)
            elif isinstance(x, ast.Name) and isinstance(x.ctx, ast.Load):
                reads.setdefault(x.id, [])
            elif isinstance(x, ast.Attribute) and dotted(x):
                reads.setdefault(dotted(x), [])
    key2 = (C, ret_node.lineno)
    if key2 in _done:
        return
    _done.add(key2)
    for a in assigns:
        an = cfg.node_of(a)
        if an is None or not cfg.can_reach([s for s, _ in an.succ], ret_node):
            continue
        anids = {cfg.node_of(x).id for x in assigns if cfg.node_of(x) is not None}
        region = cfg.reachable_from([s for s, _ in an.succ], blocked=lambda n2: n2.id in anids)
        for n2 in region:
            if n2.kind != "stmt" or n2 is ret_node or not cfg.can_reach([n2], ret_node, blocked=lambda x: x.id in anids):
                continue
            st = n2.ast
            cont, idx = None, None
            if isinstance(st, ast.Assign) and len(st.targets) == 1 and isinstance(st.targets[0], ast.Subscript):
                cont = dotted(st.targets[0].value)
                idx = st.targets[0].slice
            elif isinstance(st, ast.Expr) and isinstance(st.value, ast.Call) and isinstance(st.value.func, ast.Attribute) \
                    and st.value.func.attr in ("append", "extend"):
                cont = dotted(st.value.func.value)
            if cont is None or cont not in reads:
                continue
            if idx is None:
                rep.bad("C21.R2", C, st, f"`{cont}` is extended with data of the failed step before the truncated return reads it",
                        f"{rel}:{n2.lineno}")
                continue
            # index-aware: store C[i] vs reads C[: i + 1] / C[: i]
            iname = norm_src(idx.elts[0] if isinstance(idx, ast.Tuple) else idx)
            incl = None
            for r in reads[cont]:
                sl = r.slice.elts[0] if isinstance(r.slice, ast.Tuple) else r.slice
                if isinstance(sl, ast.Slice) and sl.lower is None and sl.upper is not None:
                    up = norm_src(sl.upper)
                    if up == f"{iname} + 1":
                        incl = True if incl is None else incl
                    elif up == iname:
                        incl = False if incl is None else incl
            if incl is True:
                rep.bad("C21.R2", C, st,
                        f"the failed step is stored (`{norm_src(st)}`) and the truncated return slices `{cont}[: {iname} + 1]`, i.e. returns the unconverged step",
                        f"{rel}:{n2.lineno}")
            elif incl is False:
                rep.ok("C21.R2", C, f"`{norm_src(st)}` is excluded by the slice [: {iname}] of the truncated return")
            else:
                rep.note(f"C21.R2: could not relate store `{norm_src(st)}` to the reads of `{cont}` in the truncated return of {q}")


_done = set()

# ---------------------------------------------------------------------------
FAMILIES = {
    # family -> (system dimension, System methods whose use means 'the solver treats this family')
    "bilateral position constraints g": ("nla_g", {"g", "W_g", "g_dot", "g_q"}),
    "bilateral velocity constraints gamma": ("nla_gamma", {"gamma", "W_gamma"}),
    "compliance c": ("nla_c", {"c", "W_c", "la_c"}),
    "actuator forces la_tau": ("nla_tau", {"la_tau", "W_tau"}),
    "unilateral contacts g_N": ("nla_N", {"g_N", "W_N", "xi_N"}),
    "friction gamma_F": ("nla_F", {"gamma_F", "W_F", "xi_F"}),
}
SOLVER_CLASSES = [
    ("cardillo/solver/backward_euler.py", "BackwardEuler"), ("cardillo/solver/rattle.py", "Rattle"),
    ("cardillo/solver/moreau.py", "Moreau"), ("cardillo/solver/dual_stormer_verlet.py", "DualStormerVerlet"),
    ("cardillo/solver/scipy_ivp.py", "ScipyIVP"), ("cardillo/solver/scipy_dae.py", "ScipyDAE"),
    ("cardillo/solver/statics.py", "Newton"), ("cardillo/solver/statics.py", "Riks"),
]


def r3_model_parts(ctx):
    rep = ctx.rep
    for rel, cname in SOLVER_CLASSES:
        cls = ctx.repo.get(rel, cname)
        used = set()
        for n in ast.walk(cls):
            if isinstance(n, ast.Attribute):
                d = dotted(n.value) or ""
                if d.split(".")[-1] == "system":
                    used.add(n.attr)
        # guards: raise / warn / assert whose condition mentions system.n<fam>
        guarded = set()
        for n in ast.walk(cls):
            test = None
            if isinstance(n, ast.Assert):
                test = n.test
            elif isinstance(n, ast.If) and any(isinstance(s, ast.Raise) or (isinstance(s, ast.Expr) and isinstance(s.value, ast.Call)
                                                                          and (dotted(s.value.func) or "").endswith("warn")) for s in n.body):
                test = n.test
            if test is not None:
                for x in ast.walk(test):
                    if isinstance(x, ast.Attribute) and x.attr.startswith("nla_"):
                        guarded.add(x.attr)
        C = f"{rel}:{cname}"
        for fam, (dim, methods) in FAMILIES.items():
            hit = sorted(methods & used)
            if hit:
                rep.ok("C21.R3", C, f"{fam}: uses system.{', system.'.join(hit)}")
            elif dim in guarded:
                rep.ok("C21.R3", C, f"{fam}: guarded by a check on system.{dim}")
            else:
                rep.bad("C21.R3", C, f"family: {fam}",
                        f"{cname} neither uses any of system.{{{', '.join(sorted(methods))}}} nor guards system.{dim} > 0: "
                        f"a model containing {fam} is integrated with that part silently ignored", f"{rel}:{cls.lineno}")


BE = "cardillo/solver/backward_euler.py"
RT = "cardillo/solver/rattle.py"
MO = "cardillo/solver/moreau.py"
ST = "cardillo/solver/statics.py"
MUTANTS = [
    dict(id="c21-m1", canary=True, what="Moreau: both step() and solve() stop raising on non-convergence", expect=["C21.R1", "C21.R1b"],
         edits=[(MO, '                else:\n                    raise RuntimeError("fixed-point iteration is not converged")\n', '                else:\n                    pass\n'),
                (MO, '                else:\n                    raise RuntimeError(\n                        f"fixed-point iteration not converged after {j+1} iterations with error: {error:.5e}"\n                    )',
                     '                else:\n                    print(\n                        f"fixed-point iteration not converged after {j+1} iterations with error: {error:.5e}"\n                    )')]),
    dict(id="c21-m2", canary=True, what="Rattle stage 2: warn -> print", file=RT,
         old='                    warnings.warn(\n                        "fixed-point iteration is not converged in stage 2 but integration is continued"\n                    )',
         new='                    print(\n                        "fixed-point iteration is not converged in stage 2 but integration is continued"\n                    )', expect="C21.R1"),
    dict(id="c21-m3", what="Rattle._solve_nonlinear_system: raise removed (continues silently w/o option)", file=RT,
         old='            else:\n                raise RuntimeError("Newton is not converged")\n', new='            else:\n                pass\n', expect=["C21.R1b"]),
    dict(id="c21-m4", what="BackwardEuler: truncated return warning loses the time", file=BE,
         old='                        f"fixed-point iteration is not converged. Returning solution up to t={self.tn}."',
         new='                        "fixed-point iteration is not converged. Returning the solution computed so far."', expect="C21.R2"),
    dict(id="c21-m5", what="consistent_initial_conditions: assert on convergence removed", file="cardillo/solver/_base.py",
         old='        assert (\n            converged_fixed_point\n        ), f"Solving for consistent initial conditions does not converge after {i_fixed_point} fixed-point iterations with error {error_fixed_point}."\n',
         new='', expect="C21.R1"),
    dict(id="c21-m6", what="BackwardEuler: failed step appended before the truncated return", file=BE,
         old='                    warnings.warn(\n                        f"Newton is not converged. Returning solution up to t={self.tn}."\n                    )\n                    return make_solution()',
         new='                    warnings.warn(\n                        f"Newton is not converged. Returning solution up to t={self.tn}."\n                    )\n                    t.append(tn1)\n                    return make_solution()', expect="C21.R2"),
    dict(id="c21-m7", what="Riks: assert sol.success removed", file=ST,
         old='            assert sol.success, f"internal newton method is not converged"\n', new='', expect=["C21.R1", "C21.R1b"]),
    dict(id="c21-m8", what="Moreau.step: warn -> print in continue mode (solve only prints too)", file=MO,
         old='                    warnings.warn(\n                        "fixed-point iteration is not converged but integration is continued"\n                    )\n                else:\n                    raise RuntimeError("fixed-point iteration is not converged")',
         new='                    print(\n                        "fixed-point iteration is not converged but integration is continued"\n                    )\n                else:\n                    raise RuntimeError("fixed-point iteration is not converged")', expect="C21.R1"),
    dict(id="c21-m9", what="Rattle stage-1 convergence ignores Newton failure AND helper stops raising", file=RT,
         old='            converged = error < 1.0 and sol.success', new='            converged = error < 1.0', expect=None, neutral_ok=True),
]
NEUTRAL = [
    dict(id="c21-n2", what="Moreau.step alone stops raising: solve() still raises, behaviour unchanged (precision control)", file=MO,
         old='                else:\n                    raise RuntimeError("fixed-point iteration is not converged")\n', new='                else:\n                    pass\n'),
    dict(id="c21-n1", canary=True, what="Moreau.step: nested ifs merged into elif chain", file=MO,
         old='            if not converged:\n                if self.options.continue_with_unconverged:\n                    warnings.warn(\n                        "fixed-point iteration is not converged but integration is continued"\n                    )\n                else:\n                    raise RuntimeError("fixed-point iteration is not converged")',
         new='            if converged:\n                pass\n            elif self.options.continue_with_unconverged:\n                warnings.warn(\n                    "fixed-point iteration is not converged but integration is continued"\n                )\n            else:\n                raise RuntimeError("fixed-point iteration is not converged")'),
]
MUTANTS = [m for m in MUTANTS if not m.get("neutral_ok")]
DSV_ = "cardillo/solver/dual_stormer_verlet.py"
MUTANTS += [
    dict(id="c21-r4-seed", canary=True, what="[seeded by sub-agent] fixed-point helpers test `error >= 1` after the loop (a NaN error is returned as success)", file=DSV_,
         edits=[(DSV_, "    converged = False\n    for k in range(0, max_iter):", "    for k in range(0, max_iter):"),
                (DSV_, "        if error < 1:\n            converged = True\n            break", "        if error < 1:\n            break"),
                (DSV_, "    if not converged:\n", "    if error >= 1:\n")], expect="C21.R4"),
]
NEUTRAL += [
    dict(id="c21-n-r4", what="momentum helper: NaN-safe test after the loop instead of a flag", file=DSV_,
         edits=[(DSV_, "    converged = False\n    for k in range(0, max_iter):", "    for k in range(0, max_iter):"),
                (DSV_, "        if error < 1:\n            converged = True\n            break", "        if error < 1:\n            break"),
                (DSV_, "    if not converged:\n", "    if not (error < 1):\n")]),
]
MUTANTS += [
    dict(id="c21-r5-1", canary=True, what="static Newton's truncated return includes the load step that did not converge", file="cardillo/solver/statics.py",
         old="                    q=self.x[:i, : self.split_x[0]],", new="                    q=self.x[: i + 1, : self.split_x[0]],", expect="C21.R5"),
]

MUTANTS += [
    dict(id="c21-r6-seed", canary=True, what="[seeded by sub-agent] ScipyIVP builds the Solution from the dense output on the full requested grid (extrapolates past a failure)", file='cardillo/solver/scipy_ivp.py',
         old="        t = sol.t\n        nt = len(t)\n        q = sol.y[: self.nq, :].T\n        u = sol.y[self.nq :, :].T\n",
         new="        t = self.t_eval\n        nt = len(t)\n        y = sol.sol(t)\n        q = y[: self.nq, :].T\n        u = y[self.nq :, :].T\n", expect="C21.R6"),
]
NEUTRAL += [
    dict(id="c21-n-r6", canary=True, what="ScipyIVP names the integrator's state matrix before splitting it", file='cardillo/solver/scipy_ivp.py',
         old="        t = sol.t\n        nt = len(t)\n        q = sol.y[: self.nq, :].T\n        u = sol.y[self.nq :, :].T\n",
         new="        t = sol.t\n        nt = len(t)\n        y = sol.y\n        q = y[: self.nq, :].T\n        u = y[self.nq :, :].T\n"),
]

MUTANTS += [
    dict(id="c21-r7-global", canary=True, what="Moreau's module silences all UserWarnings for good (to get rid of tqdm / scipy noise)", file='cardillo/solver/moreau.py',
         old="import numpy as np\n", new="import numpy as np\nimport warnings as _w\n\n_w.simplefilter(\"ignore\", UserWarning)\n", expect="C21.R7"),
]

MUTANTS += [
    dict(id="c21-r8-seed", canary=True, what="[seeded by sub-agent] consistent_initial_conditions tests convergence on the contact forces, the reference being an alias of the array prox() updates in place (friction part identically zero)", file='cardillo/solver/_base.py',
         old='        x1 = x0.copy()\n        la_N1 = la_N0[B_N].copy()\n        la_F1 = la_F0[B_F].copy()\n        converged_fixed_point = False\n        for i_fixed_point in range(options.fixed_point_max_iter):\n            # find proximal point\n            la_N1, la_F1 = prox(x1, la_N1, la_F1)\n\n            # compute new rhs\n            b = b0.copy()\n            b[: system.nu] += W_N @ la_N1 + W_F @ la_F1\n\n            # solve linear system\n            x1 = lu.solve(b)\n\n            # convergence in accelerations\n            diff = x1[: system.nu] - x0[: system.nu]\n\n            error_fixed_point = np.max(np.absolute(diff))\n\n            converged_fixed_point = error_fixed_point < options.fixed_point_atol\n            if converged_fixed_point:\n                la_N0[B_N] = la_N1\n                la_F0[B_F] = la_F1\n                break\n            else:\n                # update values\n                x0 = x1.copy()\n\n', new='        la_N1 = la_N0[B_N].copy()\n        la_F1 = la_F0[B_F].copy()\n        converged_fixed_point = False\n        for i_fixed_point in range(options.fixed_point_max_iter):\n            # find proximal point\n            la_N_old, la_F_old = la_N1, la_F1\n            la_N1, la_F1 = prox(x0, la_N1, la_F1)\n\n            # compute new rhs\n            b = b0.copy()\n            b[: system.nu] += W_N @ la_N1 + W_F @ la_F1\n\n            # solve linear system\n            x0 = lu.solve(b)\n\n            # convergence in contact forces (the iterated quantities)\n            diff = np.concatenate((la_N1 - la_N_old, la_F1 - la_F_old))\n\n            error_fixed_point = np.max(np.absolute(diff))\n\n            converged_fixed_point = error_fixed_point < options.fixed_point_atol\n            if converged_fixed_point:\n                la_N0[B_N] = la_N1\n                la_F0[B_F] = la_F1\n                break\n\n', expect="C21.R8"),
]
NEUTRAL += [
    dict(id="c21-n-r8", what="consistent_initial_conditions tests convergence on the contact forces against COPIES of the previous iterate", file='cardillo/solver/_base.py', old='        x1 = x0.copy()\n        la_N1 = la_N0[B_N].copy()\n        la_F1 = la_F0[B_F].copy()\n        converged_fixed_point = False\n        for i_fixed_point in range(options.fixed_point_max_iter):\n            # find proximal point\n            la_N1, la_F1 = prox(x1, la_N1, la_F1)\n\n            # compute new rhs\n            b = b0.copy()\n            b[: system.nu] += W_N @ la_N1 + W_F @ la_F1\n\n            # solve linear system\n            x1 = lu.solve(b)\n\n            # convergence in accelerations\n            diff = x1[: system.nu] - x0[: system.nu]\n\n            error_fixed_point = np.max(np.absolute(diff))\n\n            converged_fixed_point = error_fixed_point < options.fixed_point_atol\n            if converged_fixed_point:\n                la_N0[B_N] = la_N1\n                la_F0[B_F] = la_F1\n                break\n            else:\n                # update values\n                x0 = x1.copy()\n\n', new='        la_N1 = la_N0[B_N].copy()\n        la_F1 = la_F0[B_F].copy()\n        converged_fixed_point = False\n        for i_fixed_point in range(options.fixed_point_max_iter):\n            # find proximal point\n            la_N_old, la_F_old = la_N1.copy(), la_F1.copy()\n            la_N1, la_F1 = prox(x0, la_N1, la_F1)\n\n            # compute new rhs\n            b = b0.copy()\n            b[: system.nu] += W_N @ la_N1 + W_F @ la_F1\n\n            # solve linear system\n            x0 = lu.solve(b)\n\n            # convergence in contact forces (the iterated quantities)\n            diff = np.concatenate((la_N1 - la_N_old, la_F1 - la_F_old))\n\n            error_fixed_point = np.max(np.absolute(diff))\n\n            converged_fixed_point = error_fixed_point < options.fixed_point_atol\n            if converged_fixed_point:\n                la_N0[B_N] = la_N1\n                la_F0[B_F] = la_F1\n                break\n\n'),
]

MUTANTS += [
    dict(id="c21-r9-seed", canary=True, what="[seeded by sub-agent] Moreau's fixed point declares convergence as soon as an iterate has all percussions zero ('all contacts separate')", file='cardillo/solver/moreau.py',
         old='                P_N, P_F = self.prox(u0, P_N, P_F)\n', new='                P_N, P_F = self.prox(u0, P_N, P_F)\n                if not (P_N.any() or P_F.any()):\n                    converged = True\n                    break\n', expect="C21.R9"),
]

MUTANTS += [
    dict(id="c21-r10-seed", canary=True, what="[seeded by sub-agent] Rattle's stage-1 helper returns its convergence flag instead of reporting; solve() unpacks it into `converged`, which stage 2 resets before anything reads it", file='cardillo/solver/rattle.py',
         edits=[('cardillo/solver/rattle.py', '        if not converged:\n            if self.options.continue_with_unconverged:\n                warnings.warn(\n                    "fixed-point iteration is not converged in stage 1 but integration is continued"\n                )\n            else:\n                raise RuntimeError("fixed-point iteration is not converged in stage 1")\n\n        return x1, y1, i_fixed_point\n', '        return x1, y1, i_fixed_point, converged\n'), ('cardillo/solver/rattle.py', '            x1n1, y1n1, i1_fixed_point = self._iterative_projection_method(\n                self.x1n, self.y1n, lu\n            )\n', '            x1n1, y1n1, i1_fixed_point, converged = self._iterative_projection_method(\n                self.x1n, self.y1n, lu\n            )\n')], expect="C21.R10"),
]
