"""C06  Contact gaps and slip velocities are geometric and consistently differentiated.

Structural clauses decided so far (DESIGN §3/C06):
 R1 dispatch totality   every contact method System dispatches exists on every contact class under the guard under
                        which the class is registered, with the arity System passes, or is an explicit
                        `raise NotImplementedError` ("explicitly declared unimplemented rather than failing")
 R2 protocol            inside every callable of a contact class that a System-dispatched method reaches: every
                        `self.X` resolves (MRO + external setters) and no method/lambda attribute is used as an array
 R3 internal calls      System's own calls of its contact methods match their signatures
 R4 transposition       W_N / W_F are the transposes of g_N_dot_u / gamma_F_u by construction (delegation idiom)
 R5 derivative coverage chain-rule coverage of the contact derivatives and time chains (engine K5, see deriv.py)
"""
from __future__ import annotations

import ast
import re

from ..core import AnalysisError, dotted, norm_src
from .. import sysmodel, protocol

EXPLANATION = ("Class-table rules over cardillo/contacts/*.py and cardillo/system.py: co-definition of list key and "
               "dispatched callee per contact class (guards compared), attribute resolution and callable-misuse in all "
               "callables reachable from dispatched methods, signature conformance of System-internal calls, "
               "delegation idiom of W_N/W_F, chain-rule coverage of derivative companions.")
NOT_DECIDED = ("that the gap is the signed distance and the slip the relative tangential velocity; numerical exactness "
               "of coefficients and signs of the derivatives.")
ASSUMPTIONS = ["supported subsystems provide the kinematic protocol checked under C05/C04"]
BLIND_SPOTS = ["sign/coefficient errors in a derivative that mentions all required companions"]

CONTACT_FILES = ("cardillo/contacts/",)


def contact_classes(ctx):
    return [ci for ci in ctx.model.all_classes() if ci.rel.startswith(CONTACT_FILES) and "g_N" in ci.methods]


# K10 pairs (primal, derivative, mode, multiplier factor) per contact class and the atoms that vanish under the property's
# premise (sphere-plane: plane orientation constant in time => n_dot = n_ddot = t1t2_dot = Omega_F = Psi_F = 0).
# Sphere2Sphere's time pairs are left to C06.R5 (n_dot / t1t2_dot do not exist there: known findings F24/F25).
K10 = {
    "Sphere2Plane": ([("g_N", "g_N_q", "q", None), ("g_N", "g_N_dot", "t", None), ("g_N_dot", "g_N_dot_q", "q", None), ("g_N_dot", "g_N_dot_u", "u", None),
                      ("g_N_dot", "g_N_ddot", "t", None), ("gamma_F", "gamma_F_q", "q", None), ("gamma_F", "gamma_F_u", "u", None),
                      ("gamma_F", "gamma_F_dot", "t", None), ("gamma_F_dot", "gamma_F_dot_q", "q", None), ("gamma_F_dot", "gamma_F_dot_u", "u", None),
                      ("g_N_dot_u", "Wla_N_q", "q", "la_N"), ("gamma_F_u", "Wla_F_q", "q", "la_F")],
                     ("n_dot", "n_ddot", "t1t2_dot", "Omega_F_tilde", "Psi_F_tilde")),
    "Sphere2Sphere": ([("g_N", "g_N_q", "q", None), ("g_N_dot", "g_N_dot_u", "u", None), ("gamma_F", "gamma_F_q", "q", None), ("gamma_F", "gamma_F_u", "u", None),
                       ("g_N_dot_u", "Wla_N_q", "q", "la_N"), ("gamma_F_u", "Wla_F_q", "q", "la_F"),
                       ("g_N_dot", "g_N_ddot", "t", None), ("gamma_F", "gamma_F_dot", "t", None)], ()),
}


DEP_PAIRS = [("n", "n_q1_q2"), ("t1t2", "t1t2_q1_q2"), ("g_N", "g_N_q"), ("g_N", "g_N_dot"), ("g_N_dot", "g_N_dot_q"), ("g_N_dot", "g_N_dot_u"),
             ("g_N_dot", "g_N_ddot"), ("gamma_F", "gamma_F_q"), ("gamma_F", "gamma_F_u"), ("gamma_F", "gamma_F_dot"), ("gamma_F_dot", "gamma_F_dot_q"),
             ("gamma_F_dot", "gamma_F_dot_u"), ("g_N_dot_u", "Wla_N_q"), ("gamma_F_u", "Wla_F_q")]


def tangent_homogeneity(ctx):
    """t1 = unit(t2_ref x n), t2 = unit(n x t1) do not change when the reference basis is scaled; hence their derivatives with respect to
    q and to time are homogeneous of degree 0 in reference_contact_basis too (every `/ norm(...)` of the primal reappears in them).
    Degree inference (K6) with the axioms: reference_contact_basis has degree 1; n, n_dot, n_q1_q2 degree 0."""
    from fractions import Fraction as F
    from ..degrees import Interp, is_ground, fmt
    rep = ctx.rep
    m = ctx.repo.module(S2S)
    alg = ctx.repo.module("cardillo/math/algebra.py")
    fns = {q: n for q, n in alg.defs().items() if isinstance(n, ast.FunctionDef) and "." not in q}
    cls = m.defs().get("Sphere2Sphere")
    if cls is None:
        raise AnalysisError("Sphere2Sphere vanished")
    names = ("t1t2", "t1t2_dot", "t1t2_q1_q2")
    for st in cls.body:
        if isinstance(st, ast.FunctionDef) and st.name in names:
            fns[st.name] = st
    for name in names:
        if name not in fns:
            continue
        C = f"{S2S}:Sphere2Sphere.{name}"
        it = Interp(fns, attr_degs={"self.reference_contact_basis": F(1), "self.n": F(0), "self.n_dot": F(0), "self.n_q1_q2": F(0)})
        d = it.run(name, {"t": F(0), "q": F(0), "u": F(0)})
        parts = d if isinstance(d, tuple) else (d,)
        wrong = [x for x in parts if is_ground(x) and x != 0]
        if it.violations or wrong:
            node = it.violations[0].node if it.violations else fns[name].body[-1]
            why = it.violations[0].msg if it.violations else f"degree {fmt(d)}"
            rep.bad("C06.R12", C, node, f"under scaling of the reference contact basis `{name}` is not homogeneous of degree 0 ({why}): a normalisation of the primal tangents is "
                    "missing (or doubled) in this derivative; it is exact only where t2_ref is perpendicular to the current normal", f"{S2S}:{getattr(node, 'lineno', 0)}")
        elif all(is_ground(x) for x in parts):
            rep.ok("C06.R12", C, f"degree {fmt(d)} in the reference contact basis")
        else:
            rep.ok("C06.R12", C, f"degree not inferred ({fmt(d)}) (no verdict)", verdict="unknown", trivial=True)


def plane_axes_are_columns(ctx, rule="C06.R14"):
    """K15 idea on the plane frame: A_IB maps plane components to inertial components, its COLUMNS are the plane axes e_x, e_y, e_z in the
    inertial basis.  The contact uses n = e_z (a column).  Rows of A_IB are the inertial axes in plane components: for a tilted plane
    (A_IB not symmetric) they are not perpendicular to n, gamma_F is not the tangential relative velocity and W_F gets a normal component."""
    rep = ctx.rep
    cls = ctx.repo.get(S2P, "Sphere2Plane")
    lam = {}
    for w in ast.walk(cls):
        if isinstance(w, ast.Assign) and len(w.targets) == 1 and isinstance(w.targets[0], ast.Attribute) and dotted(w.targets[0].value) == "self" and isinstance(w.value, ast.Lambda) \
                and w.targets[0].attr in ("n", "t1t2"):
            lam[w.targets[0].attr] = w

    def kind(e):
        """'col' / 'row' / None for a selection out of a call of A_IB"""
        src = norm_src(e).replace(" ", "")
        m = re.search(r"A_IB\([^)]*\)(.*)$", src)
        if not m:
            return None
        tail = m.group(1)
        if re.fullmatch(r"\.T\[:?\d*:?\d*\]", tail) or re.fullmatch(r"\[:,[^\]]+\](\.T)?", tail):
            return "col"
        if re.fullmatch(r"\[:?\d*:?\d*\]", tail) or re.fullmatch(r"\.T\[:,[^\]]+\](\.T)?", tail):
            return "row"
        return None
    C = f"{S2P}:Sphere2Plane.__init__"
    if "n" not in lam or "t1t2" not in lam:
        rep.ok(rule, C, "basis lambdas n / t1t2 not found (no verdict)", verdict="unknown", trivial=True)
        return
    kn, kt = kind(lam["n"].value.body), kind(lam["t1t2"].value.body)
    if kn is None or kt is None:
        rep.ok(rule, C, f"selection out of A_IB not recognised (n: {norm_src(lam['n'].value.body)[:40]}, t1t2: {norm_src(lam['t1t2'].value.body)[:40]}) (no verdict)", verdict="unknown")
    elif kn == kt:
        rep.ok(rule, C, f"n and t1t2 are both {kn}umns of the plane's A_IB" if kn == "col" else f"n and t1t2 are both rows of A_IB")
    else:
        rep.bad(rule, C, lam["t1t2"], f"`{norm_src(lam['t1t2'])[:70]}` takes {kt}s of A_IB while the normal `{norm_src(lam['n'].value.body)[:40]}` is a {kn}: for a tilted plane the 'tangents' are not the "
                "plane's axes and not perpendicular to n - gamma_F is not the tangential relative velocity, W_F has a normal component", f"{S2P}:{lam['t1t2'].lineno}")


def run(ctx):
    rep = ctx.rep
    rep.rule("C06.R1", "dispatch totality of contact methods per contact class", 28)
    rep.rule("C06.R2", "attribute resolution / callable misuse in reachable contact callables", 60)
    rep.rule("C06.R3", "System-internal calls of contact methods match signatures", 1)
    rep.rule("C06.R4", "W_N = g_N_dot_u.T and W_F = gamma_F_u.T by construction", 4)
    rep.rule("C06.R7", "two-body block typing of Sphere2Sphere's derivative blocks (K9)", 15)
    rep.rule("C06.R8", "relative polarity of the two spheres' terms in the normal-gap chain and in the slip chain (K9)", 14)
    rep.rule("C06.R9", "all point-protocol calls of a contact on one body name the same material point (xi, B_r_CP)", 6)
    protocol.point_argument_agreement(ctx, "C06.R9", [(ci.qual, ci.rel, ci.node) for ci in contact_classes(ctx)])
    rep.rule("C06.R15", "every accessor lambda of a contact hands a body ITS block of the contact's q / u / u_dot (all calls on one subsystem pass the same slice of the same positional parameter)", 6)
    protocol.state_slice_agreement(ctx, "C06.R15", [(ci.qual, ci.rel, ci.node) for ci in contact_classes(ctx)])
    rep.rule("C06.R14", "Sphere2Plane: normal and tangents are all COLUMNS of the plane's A_IB (the plane axes in inertial components): with n = A_IB[:, 2] the tangents are A_IB.T[:2] / A_IB[:, :2].T, never rows A_IB[:2]", 1)
    plane_axes_are_columns(ctx)
    rep.rule("C06.R13", "contact routines do not modify in place what the memoised contact kinematics (n, n_q1_q2, t1t2, t1t2_q1_q2) or the bodies' memoised kinematics hand out (K18): a derivative evaluated after another one at the same state stays exact", 5)
    from .. import cachepurity as _cp
    _cp.report(ctx, "C06.R13", ("cardillo/contacts/",), floor_note=False)
    rep.rule("C06.R11", "memoised contact kinematics (n, t1t2 and their derivatives) are keyed by every argument the result depends on, including time", 8)
    from . import c26
    c26.r1_keys(ctx, c26.find_sites(ctx), rule="C06.R11", want_cls=lambda ci: ci.rel.startswith("cardillo/contacts/"))
    rep.rule("C06.R12", "Sphere2Sphere tangents and their q- and time-derivatives are homogeneous of degree 0 in the reference contact basis (K6)", 3)
    tangent_homogeneity(ctx)
    rep.rule("C06.R10", "dependence monotonicity (K13): a contact derivative reads no datum its primal does not read", 20)
    from .. import depmono
    for ci_ in contact_classes(ctx):
        v_ = protocol.ClassView(ctx, ci_)
        for p_, d_ in DEP_PAIRS:
            if not v_.bodies(d_) and not v_.stores(d_):
                continue
            c_, f_ = v_.method(d_)
            depmono.check(rep, "C06.R10", v_, ci_.rel, ci_.qual, p_, d_, lineno=getattr(f_, "lineno", 0))
    rep.rule("C06.R6", "Leibniz image of the primal's factor monomials equals the derivative routine's monomials (K10)", 15)
    sm = sysmodel.SystemModel(ctx)
    sysmodel.codefinition(ctx, sm, "C06.R1", family=lambda p, m: sysmodel.is_contact(m), require_live=False)
    sysmodel.internal_calls(ctx, sm, "C06.R3", family=lambda caller, callee: sysmodel.is_contact(callee) or caller in ("chi_N", "xi_N", "xi_F"))
    classes = contact_classes(ctx)
    if len(classes) < 2:
        raise AnalysisError("fewer than 2 contact classes found")
    roots = sorted(sysmodel.CONTACT_METHODS | {"assembler_callback", "step_callback"})
    for ci in classes:
        view = protocol.ClassView(ctx, ci)
        reach = view.reachable(roots)
        for name, bodies in sorted(reach.items()):
            for (c, body, kind) in bodies:
                C = f"{c.rel}:{c.qual}.{name}"
                bad = False
                sn = view.selfname_of(body)
                for n in protocol.unresolved_reads(view, body, sn):
                    bad = True
                    rep.bad("C06.R2", C, n, f"`self.{n.attr}` is read but no class in the MRO (nor System.assemble) ever defines it (AttributeError when evaluated)",
                            f"{c.rel}:{n.lineno}")
                for (expr, op) in protocol.callable_misuse(view, body, sn):
                    bad = True
                    rep.bad("C06.R2", C, expr, f"`self.{op.attr}` is a {view.kind(op.attr)} attribute but is used as an array operand without being called",
                            f"{c.rel}:{expr.lineno}")
                if not bad:
                    rep.ok("C06.R2", C, f"{kind} body: all self.* reads resolve; no callable used as array")
        # R4
        for w, comp in (("W_N", "g_N_dot_u"), ("W_F", "gamma_F_u")):
            cc, fn = view.method(w)
            if fn is None:
                continue
            C = f"{ci.rel}:{ci.qual}.{w}"
            body = [s for s in fn.body if not (isinstance(s, ast.Expr) and isinstance(s.value, ast.Constant))]
            params = [a.arg for a in fn.args.args][1:]
            want = f"return self.{comp}({', '.join(params)}).T"
            mentions = any(isinstance(n, ast.Attribute) and n.attr == comp for n in ast.walk(fn))
            if len(body) == 1 and norm_src(body[0]) == want:
                rep.ok("C06.R4", C, want)
            elif mentions:
                rep.bad("C06.R4", C, body[-1], f"{w} refers to {comp} but is not its plain transpose `{want}` (force direction no longer the transposed velocity Jacobian)",
                        f"{ci.rel}:{fn.lineno}")
            else:
                rep.note(f"C06.R4: {ci.qual}.{w} does not delegate to {comp}; transposition not decided structurally")
    from .. import deriv, support
    deriv.run_c06(ctx)
    # R7 / R8 K9 (Sphere2Sphere couples two bodies)
    from .. import twobody
    for ci in classes:
        if ci.qual != "Sphere2Sphere":
            continue
        for name, fn in sorted(ci.methods.items()):
            if name in ("__init__", "assembler_callback", "export", "step_callback"):
                continue
            twobody.check_typing(rep, "C06.R7", f"{ci.rel}:{ci.qual}.{name}", ci.rel, fn)
        # helpers=...: the blocks n_q1 / n_q2 (t1_q1 / ...) come out of pair-returning helpers that already carry the sign of their body;
        # occurrences reached through a helper form their own group, whose body-2 : body-1 ratio must be the same -1
        twobody.check_polarity(rep, "C06.R8", ci, ["g_N_dot", "g_N_q", "g_N_dot_q", "g_N_dot_u", "g_N_ddot", "Wla_N_q", "n", "n_q1_q2"], helpers=ci.methods)
        twobody.check_polarity(rep, "C06.R8", ci, ["__gamma_F", "__gamma_F_q", "gamma_F_u", "gamma_F_dot", "gamma_F_dot_q", "Wla_F_q"], helpers=ci.methods)
    # R6 K10
    for ci in classes:
        view = protocol.ClassView(ctx, ci)
        pairs, zero = K10.get(ci.qual, ([], ()))
        for p, d, mode, extra in pairs:
            c, fn = view.method(d)
            if fn is None:
                bs = view.bodies(d)
                fn = bs[0][1] if bs else None
            support.check(rep, "C06.R6", view, f"{ci.rel}:{ci.qual}.{d}", ci.rel, p, d, mode, extra, lineno=getattr(fn, "lineno", 0), zero=zero)


S2P = "cardillo/contacts/sphere2plane.py"
S2S = "cardillo/contacts/sphere2sphere.py"
SYS = "cardillo/system.py"
MUTANTS = [
    dict(id="c06-m1", canary=True, what="Sphere2Plane.gamma_F_dot_u uses the lambda self.J_P as an array (original defect)", file=S2P,
         old="        J_S = J_P - r_PS_tilde @ self.J_R(t, q)\n        return self.A.T @ (self.t1t2(t) @ (a_S_u - a_F_u)",
         new="        J_S = self.J_P - r_PS_tilde @ self.J_R(t, q)\n        return self.A.T @ (self.t1t2(t) @ (a_S_u - a_F_u)", expect="C06.R2"),
    dict(id="c06-m2", canary=True, what="Sphere2Sphere.gamma_F_dot_q declaration removed (original defect)", file=S2S,
         old="    def gamma_F_dot_q(self, t, q, u, u_dot):\n        raise NotImplementedError\n", new="", expect="C06.R1"),
    dict(id="c06-m3", what="System.chi_N passes an unknown keyword (original defect)", file=SYS,
         old="        return self.g_N_dot(t, q, np.zeros(self.nu))", new="        return self.g_N_dot(t, q, np.zeros(self.nu), dtype=q.dtype)", expect="C06.R3"),
    dict(id="c06-m4", what="Sphere2Plane.W_N drops the transpose", file=S2P,
         old="        return self.g_N_dot_u(t, q).T", new="        return self.g_N_dot_u(t, q)", expect="C06.R4"),
    dict(id="c06-m5", what="Sphere2Sphere.W_F sign flipped", file=S2S,
         old="        return self.gamma_F_u(t, q).T", new="        return -self.gamma_F_u(t, q).T", expect="C06.R4"),
    dict(id="c06-m6", what="Sphere2Plane: gamma_F_q alias defined outside the mu > 0 guard is fine, but Wla_F_q needs A: guard moved", file=S2P,
         old="            self.gamma_F_q = self.__gamma_F_q\n", new="", expect="C06.R1"),
    dict(id="c06-m7", what="Sphere2Plane.g_N_ddot renamed parameter list (arity 3)", file=S2P,
         old="    def g_N_ddot(self, t, q, u, u_dot):", new="    def g_N_ddot(self, t, q, u):\n        u_dot = u", expect="C06.R1"),
    dict(id="c06-m8", what="Sphere2Plane.gamma_F reads a misspelled attribute", file=S2P,
         old="        r_PS = -self.r * self.n(t)\n        v_S = self.v_P(t, q, u) + cross3(self.Omega(t, q, u), r_PS)\n        r_QS = self.r_OP(t, q) + r_PS - self.r_OQ(t)\n        v_F = self.v_Q(t) + self.Omega_F_tilde(t) @ r_QS\n        return self.A.T @ self.t1t2(t) @ (v_S - v_F)",
         new="        r_PS = -self.r * self.n(t)\n        v_S = self.v_P(t, q, u) + cross3(self.Omega(t, q, u), r_PS)\n        r_QS = self.r_OP(t, q) + r_PS - self.r_OQ(t)\n        v_F = self.v_Q(t) + self.Omega_F(t) @ r_QS\n        return self.A.T @ self.t1t2(t) @ (v_S - v_F)", expect="C06.R2"),
]
MUTANTS += [
    dict(id="c06-m9", canary=True, what="Sphere2Plane.g_N_dot_q drops the n_dot * r_OP_q term", file=S2P,
         old="            [self.n(t) @ self.v_P_q(t, q, u) + self.n_dot(t) @ self.r_OP_q(t, q)],", new="            [self.n(t) @ self.v_P_q(t, q, u)],", expect="C06.R5"),
    dict(id="c06-m10", what="Sphere2Plane.g_N_ddot drops the n_ddot term", file=S2P,
         old="                + self.n_ddot(t) @ (self.r_OP(t, q) - self.r_OQ(t))\n", new="", expect="C06.R5"),
    dict(id="c06-m11", what="Sphere2Plane.gamma_F_dot drops the moving-frame term Psi_F_tilde @ r_QS", file=S2P,
         old="            self.a_Q(t) + self.Psi_F_tilde(t) @ r_QS + self.Omega_F_tilde(t) @ r_QS_dot", new="            self.a_Q(t) + self.Omega_F_tilde(t) @ r_QS_dot", expect="C06.R5"),
    dict(id="c06-m12", what="Sphere2Plane.gamma_F_u drops the rotational part J_R", file=S2P,
         old="        J_S = self.J_P(t, q) - r_PS_tilde @ self.J_R(t, q)\n        return self.A.T @ self.t1t2(t) @ J_S",
         new="        J_S = self.J_P(t, q)\n        return self.A.T @ self.t1t2(t) @ J_S", expect="C06.R5"),
    dict(id="c06-m13", what="Sphere2Sphere.Wla_N_q drops the n_q terms (uses only J_q)", file=S2S,
         old="        nq1, nq2 = self.n_q1_q2(t, q)\n        J_C1 = self.J_C1(t, q)", new="        nq1, nq2 = 0 * q[:3], 0 * q[:3]\n        J_C1 = self.J_C1(t, q)", expect="C06.R5"),
    dict(id="c06-m14", what="Sphere2Sphere.__gamma_F_q forgets the tangent derivatives t1t2_q1_q2", file=S2S,
         old="        t1_q1, t1_q2, t2_q1, t2_q2 = self.t1t2_q1_q2(t, q)\n\n        v_P1 = self.v_C1(t, q, u)", new="        t1_q1 = t1_q2 = t2_q1 = t2_q2 = np.zeros((3, 1))\n\n        v_P1 = self.v_C1(t, q, u)", expect="C06.R5"),
]
MUTANTS += [
    dict(id="c06-k10-seed", canary=True, what="[seeded by sub-agent] Sphere2Sphere.gamma_F_u: lever arm of sphere 2 computed with radius1", file=S2S,
         old="        J_P2 = self.J_C2(t, q) - ax2skew(-self.radius2 * n) @ self.J2_R(t, q)\n\n        gamma_F_u = np.zeros(",
         new="        J_P2 = self.J_C2(t, q) - ax2skew(-self.radius1 * n) @ self.J2_R(t, q)\n\n        gamma_F_u = np.zeros(", expect="C06.R6"),
    dict(id="c06-k10-2", what="Sphere2Plane.gamma_F_dot_q multiplies Psi_q with the rate lever arm (term with a wrong factor; all companions still referenced)", file=S2P,
         old="            - r_PS_tilde @ self.Psi_q(t, q, u, u_dot)\n            - r_PS_dot_tilde @ self.Omega_q(t, q, u)",
         new="            - r_PS_dot_tilde @ self.Psi_q(t, q, u, u_dot)\n            - r_PS_tilde @ self.Omega_q(t, q, u)", expect="C06.R6"),
    dict(id="c06-k10-3", what="Sphere2Plane.Wla_F_q drops the J_P_q term while J_P_q stays referenced through a dead local", file=S2P,
         old="        J_S_q = self.J_P_q(t, q) + self.r * np.einsum(", new="        J_P_q = self.J_P_q(t, q)\n        J_S_q = self.r * np.einsum(", expect="C06.R6"),
]
BLIND_SPOTS += ["a dropped chain-rule term whose companion is still referenced elsewhere in the same derivative routine (function granularity)"]
MUTANTS += [
    dict(id="c06-k9-1", canary=True, what="Sphere2Sphere.Wla_N_q: sign of the (u2, q2) geometric block flipped", file=S2S,
         old="        Wla_N_q[self.nu1 :, self.nq1 :] = np.einsum(\"ijk,i->jk\", J_C2_q2, n) * la_N", new="        Wla_N_q[self.nu1 :, self.nq1 :] = -np.einsum(\"ijk,i->jk\", J_C2_q2, n) * la_N", expect="C06.R8"),
    dict(id="c06-k9-2", what="Sphere2Sphere.Wla_N_q: the (u2, q1) block is built with body 1's Jacobian", file=S2S,
         old="        Wla_N_q[self.nu1 :, : self.nq1] += J_C2.T @ nq1 * la_N", new="        Wla_N_q[self.nu1 :, : self.nq1] += J_C1.T @ nq1 * la_N", expect="C06.R7"),
]
MUTANTS += [
    dict(id="c06-k9-3", what="Sphere2Sphere.gamma_F_u: lever arm of sphere 2 loses its minus sign (r_C2P2 = -radius2 n)", file=S2S,
         old="        J_P2 = self.J_C2(t, q) - ax2skew(-self.radius2 * n) @ self.J2_R(t, q)\n\n        gamma_F_u = np.zeros(",
         new="        J_P2 = self.J_C2(t, q) - ax2skew(self.radius2 * n) @ self.J2_R(t, q)\n\n        gamma_F_u = np.zeros(", expect="C06.R8"),
]
MUTANTS += [
    dict(id="c06-r9-1", canary=True, what="Sphere2Plane: J_P evaluated without the body-fixed offset of the sphere centre", file=S2P,
         old="        self.J_P = lambda t, q: self.subsystem.J_P(t, q, xi=self.xi, B_r_CP=self.B_r_CP)", new="        self.J_P = lambda t, q: self.subsystem.J_P(t, q, xi=self.xi)", expect="C06.R9"),
]
MUTANTS += [
    dict(id="c06-r10-orig", canary=True, what="Sphere2Sphere.t1t2_q1_q2 differentiates a tangent built from t1_ref although t1t2 builds it from t2_ref (original defect)", file=S2S,
         edits=[(S2S, "        t2_ref = self.reference_contact_basis[:, 1]\n        t2_ref_tilde = ax2skew(t2_ref)\n        l1, l2 = norm(cross3(t2_ref, n)), norm(cross3(n, t1))",
                 "        t1_ref = self.reference_contact_basis[:, 0]\n        t1_ref_tilde = ax2skew(t1_ref)\n        l1, l2 = norm(cross3(n, t1_ref)), norm(cross3(n, t1))"),
                (S2S, "        t1_q1 = tmp1 @ t2_ref_tilde @ n_q1\n        t1_q2 = tmp1 @ t2_ref_tilde @ n_q2", "        t1_q1 = -tmp1 @ t1_ref_tilde @ n_q1\n        t1_q2 = -tmp1 @ t1_ref_tilde @ n_q2")],
         expect="C06.R10"),
    dict(id="c06-r10-2", what="Sphere2Sphere.gamma_F_u uses radius1 for the lever arm of sphere 2", file=S2S,
         old="        J_P2 = self.J_C2(t, q) - ax2skew(-self.radius2 * n) @ self.J2_R(t, q)\n\n        gamma_F_u = np.zeros(",
         new="        J_P2 = self.J_C2(t, q) - ax2skew(-self.radius1 * n) @ self.J2_R(t, q)\n\n        gamma_F_u = np.zeros(", expect=["C06.R6", "C06.R10"], optional=True),
]
MUTANTS += [
    dict(id="c06-f24-orig", canary=True, what="Sphere2Sphere.g_N_ddot without the n_dot term (original defect F24)", file=S2S,
         old="                + self.n_dot(t, q, u) @ (self.v_C2(t, q, u) - self.v_C1(t, q, u))\n", new="", expect="C06.R5"),
    dict(id="c06-f25-orig", what="Sphere2Sphere.gamma_F_dot without the tangent rates (original defect F25b)", file=S2S,
         old="                t1 @ a_P1P2 + t1_dot @ v_P1P2,\n                t2 @ a_P1P2 + t2_dot @ v_P1P2,", new="                t1 @ a_P1P2,\n                t2 @ a_P1P2,", expect=["C06.R5", "C06.R6"]),
]
MUTANTS += [
    dict(id="c06-r11-seed", canary=True, what="[seeded by sub-agent] Sphere2Sphere.n keyed without the time (stale normal for a partner with prescribed motion)", file=S2S,
         old="        lambda self: self.n_cache,\n        key=lambda self, t, q: hashkey(t, *q),", new="        lambda self: self.n_cache,\n        key=lambda self, t, q: hashkey(*q),", expect="C06.R11"),
]
MUTANTS += [
    dict(id="c06-r12-seed", canary=True, what="[seeded by sub-agent] t1t2_dot without the normalisation by |t2_ref x n| ('the basis vectors are orthonormal')", file=S2S,
         old="        t1_dot = (v_dot - t1 * (t1 @ v_dot)) / norm(cross3(t2_ref, n))", new="        t1_dot = v_dot - t1 * (t1 @ v_dot)", expect="C06.R12"),
]
NEUTRAL = [
    dict(id="c06-n-r12", what="t1t2_dot with the normalisation lengths hoisted into locals", file=S2S,
         old="        t1_dot = (v_dot - t1 * (t1 @ v_dot)) / norm(cross3(t2_ref, n))", new="        l1 = norm(cross3(t2_ref, n))\n        t1_dot = (v_dot - t1 * (t1 @ v_dot)) / l1"),
    dict(id="c06-n-r10", what="t1t2_q1_q2 reads the reference basis column through a slice of the whole basis", file=S2S,
         old="        t2_ref = self.reference_contact_basis[:, 1]\n        t2_ref_tilde = ax2skew(t2_ref)", new="        basis = self.reference_contact_basis\n        t2_ref = basis[:, 1]\n        t2_ref_tilde = ax2skew(t2_ref)"),
    dict(id="c06-n2", canary=True, what="lever arms hoisted into locals (the seeded fault's neutral twin)", file=S2S,
         old="        J_P1 = self.J_C1(t, q) - ax2skew(self.radius1 * n) @ self.J1_R(t, q)\n        J_P2 = self.J_C2(t, q) - ax2skew(-self.radius2 * n) @ self.J2_R(t, q)\n\n        gamma_F_u = np.zeros(",
         new="        r_C1P1_tilde = ax2skew(self.radius1 * n)\n        r_C2P2_tilde = ax2skew(-self.radius2 * n)\n        J_P1 = self.J_C1(t, q) - r_C1P1_tilde @ self.J1_R(t, q)\n        J_P2 = self.J_C2(t, q) - r_C2P2_tilde @ self.J2_R(t, q)\n\n        gamma_F_u = np.zeros("),
    dict(id="c06-n1", canary=True, what="local alias for the lambda result", file=S2P,
         old="        J_S = self.J_P(t, q) - r_PS_tilde @ self.J_R(t, q)\n        return self.A.T @ self.t1t2(t) @ J_S",
         new="        J_P = self.J_P(t, q)\n        J_S = J_P - r_PS_tilde @ self.J_R(t, q)\n        return self.A.T @ self.t1t2(t) @ J_S"),
]

MUTANTS += [
    dict(id="c06-r8-seed", canary=True, what="[seeded by sub-agent] Sphere2Sphere.g_N_dot_q 'implemented' with an extra minus in front of the (already signed) n_q1 block", file=S2S,
         old='    def g_N_dot_q(self, t, q, u):\n        raise NotImplementedError\n', new='    def g_N_dot_q(self, t, q, u):\n        n = self.n(t, q)\n        n_q1, n_q2 = self.n_q1_q2(t, q)\n        v_C1C2 = self.v_C2(t, q, u) - self.v_C1(t, q, u)\n        g_N_dot_q = np.concatenate(\n            (\n                -v_C1C2 @ n_q1 - n @ self.v_C1_q1(t, q, u),\n                v_C1C2 @ n_q2 + n @ self.v_C2_q2(t, q, u),\n            )\n        ).reshape((self.nla_N, self._nq))\n        return g_N_dot_q\n', expect="C06.R8"),
]
NEUTRAL += [
    dict(id="c06-n-r8", canary=True, what="Sphere2Sphere.g_N_dot_q implemented correctly", file=S2S, old='    def g_N_dot_q(self, t, q, u):\n        raise NotImplementedError\n', new='    def g_N_dot_q(self, t, q, u):\n        n = self.n(t, q)\n        n_q1, n_q2 = self.n_q1_q2(t, q)\n        v_C1C2 = self.v_C2(t, q, u) - self.v_C1(t, q, u)\n        g_N_dot_q = np.concatenate(\n            (\n                v_C1C2 @ n_q1 - n @ self.v_C1_q1(t, q, u),\n                v_C1C2 @ n_q2 + n @ self.v_C2_q2(t, q, u),\n            )\n        ).reshape((self.nla_N, self._nq))\n        return g_N_dot_q\n'),
]

MUTANTS += [
    dict(id="c06-r13-seed", canary=True, what="[seeded by sub-agent] Sphere2Sphere.Wla_N_q hoists the factor la_N into the arrays returned by the memoised n_q1_q2 (nq1 *= la_N)", file=S2S,
         old="        nq1, nq2 = self.n_q1_q2(t, q)\n", new="        nq1, nq2 = self.n_q1_q2(t, q)\n        nq1 *= la_N\n", expect="C06.R13"),
]

MUTANTS += [
    dict(id="c06-r14-seed", canary=True, what="[seeded by sub-agent] Sphere2Plane.t1t2 takes the first two ROWS of the plane's A_IB ('stray .T dropped for consistency with t1t2_dot')", file=S2P,
         old="        self.t1t2 = lambda t: self.frame.A_IB(t).T[:2]\n", new="        self.t1t2 = lambda t: self.frame.A_IB(t)[:2]\n", expect="C06.R14"),
]
NEUTRAL += [
    dict(id="c06-n-r14", canary=True, what="Sphere2Plane.t1t2 written as A_IB[:, :2].T", file=S2P,
         old="        self.t1t2 = lambda t: self.frame.A_IB(t).T[:2]\n", new="        self.t1t2 = lambda t: self.frame.A_IB(t)[:, :2].T\n"),
]

MUTANTS += [
    dict(id="c06-r15-seed", canary=True, what="[seeded by sub-agent] Sphere2Sphere.Psi2 takes sphere 2's angular acceleration from sphere 1's block of u_dot (a[:nu1])", file=S2S,
         old="            ) @ self.subsystem2.B_Psi(t, q[nq1:], u[nu1:], a[nu1:], xi=self.xi2)\n            self.Psi2_q2",
         new="            ) @ self.subsystem2.B_Psi(t, q[nq1:], u[nu1:], a[:nu1], xi=self.xi2)\n            self.Psi2_q2", expect="C06.R15"),
    dict(id="c06-r15-q", what="Sphere2Sphere.v_C2_q2 evaluated with sphere 1's coordinates", file=S2S,
         old="        self.v_C2_q2 = lambda t, q, u: self.subsystem2.v_P_q(\n            t, q[nq1:], u[nu1:], self.xi2", new="        self.v_C2_q2 = lambda t, q, u: self.subsystem2.v_P_q(\n            t, q[:nq1], u[nu1:], self.xi2", expect="C06.R15"),
]
NEUTRAL += [
    dict(id="c06-n-r15", canary=True, what="Sphere2Sphere.Psi2 names its last parameter u_dot instead of a", file=S2S,
         old="            self.Psi2 = lambda t, q, u, a: self.subsystem2.A_IB(\n                t, q[nq1:], xi=self.xi2\n            ) @ self.subsystem2.B_Psi(t, q[nq1:], u[nu1:], a[nu1:], xi=self.xi2)",
         new="            self.Psi2 = lambda t, q, u, u_dot: self.subsystem2.A_IB(\n                t, q[nq1:], xi=self.xi2\n            ) @ self.subsystem2.B_Psi(t, q[nq1:], u[nu1:], u_dot[nu1:], xi=self.xi2)"),
]
