"""C25  Revolute joint angle tracks the accumulated relative rotation.

Structural clauses decided (all on cardillo/constraints/revolute.py):
 R1 who-may-write     only assembler_callback, l and reset write the tracking state (n_full_rotations, previous_quadrant),
                      anywhere in cardillo/
 R2 reset == init     reset() writes the same constants to the same fields as the initialisation
 R3 idempotent query  every change of n_full_rotations in l() is guarded by `previous_quadrant == a and quadrant == b` with
                      a != b, the pair (4 -> 1) increments and (1 -> 4) decrements, and previous_quadrant is set to the
                      current quadrant on every path (a repeated query at the same configuration changes nothing)
 R4 quadrant totality _compute_quadrant, evaluated over the finite set of sign cases of (x, y) (its inputs are touched only
                      through comparisons with 0), returns exactly one quadrant for each of the 8 non-origin cases,
                      consistent with the counter-clockwise numbering, and raises only at the origin
 R5 safe division     in the angle formula, under the sign constraints of the selected quadrant no denominator can be 0
 R6 angle offsets     the quadrant-k branch adds an offset of (k-1)*pi/2 on top of angle0 + 2*pi*n_full_rotations
"""
from __future__ import annotations

import ast
import itertools

from ..core import AnalysisError, dotted, norm_src
from ..cfg import CFG, enumerate_paths

EXPLANATION = ("Effect analysis of the two tracking fields (writers in the whole repository), comparison of reset with the "
               "initialisation, CFG path enumeration of Revolute.l for the guard/update discipline, and an abstract "
               "evaluation of the comparison-only routine _compute_quadrant over the 9 sign cases of (x, y).")
NOT_DECIDED = "that the reported angle equals the accumulated rotation numerically (history fact); arctan accuracy."
ASSUMPTIONS = ["increments between samples are below a quarter turn (the property's own premise)"]
BLIND_SPOTS = ["wrong numerator/denominator pairing inside arctan that keeps the denominator nonzero"]
REV = "cardillo/constraints/revolute.py"
FIELDS = ("n_full_rotations", "previous_quadrant")


def _eval(e, env):
    """evaluate a comparison-only expression over integers in env; returns bool/int or raises KeyError."""
    if isinstance(e, ast.BoolOp):
        vals = [_eval(v, env) for v in e.values]
        return all(vals) if isinstance(e.op, ast.And) else any(vals)
    if isinstance(e, ast.UnaryOp) and isinstance(e.op, ast.Not):
        return not _eval(e.operand, env)
    if isinstance(e, ast.UnaryOp) and isinstance(e.op, ast.USub):
        return -_eval(e.operand, env)
    if isinstance(e, ast.Compare):
        left = _eval(e.left, env)
        for op, c in zip(e.ops, e.comparators):
            r = _eval(c, env)
            ok = {ast.Gt: left > r, ast.GtE: left >= r, ast.Lt: left < r, ast.LtE: left <= r, ast.Eq: left == r, ast.NotEq: left != r}[type(op)]
            if not ok:
                return False
            left = r
        return True
    if isinstance(e, ast.Constant) and isinstance(e.value, (int, float)):
        return e.value
    if isinstance(e, ast.Name):
        return env[e.id]
    raise KeyError(norm_src(e))


def _run_quadrant(fn, x, y):
    """abstractly execute _compute_quadrant's if/elif chain for sign representatives; returns int or 'raise'."""
    params = [a.arg for a in fn.args.args][1:]
    env = dict(zip(params, (x, y)))

    def block(stmts):
        for s in stmts:
            if isinstance(s, ast.If):
                r = block(s.body) if _eval(s.test, env) else block(s.orelse)
                if r is not None:
                    return r
            elif isinstance(s, ast.Return):
                return _eval(s.value, env)
            elif isinstance(s, ast.Raise):
                return "raise"
            elif isinstance(s, ast.Expr) and isinstance(s.value, ast.Constant):
                continue
            else:
                raise KeyError(norm_src(s))
        return None

    return block(fn.body)


def orientation_rule(ctx, rule):
    """The reported angle (atan2 of two direction cosines of the in-plane axes) and the reported angle rate (projection of
    Omega2 - Omega1 on e_axis) must be measured about the SAME oriented axis, for each of the three possible joint axes:
      - (axis, a, b) with (a, b) = plane_axes(axis) is an even permutation of (0, 1, 2)  [exhaustive folding over axis in {0,1,2}]
      - x is a cosine (e_a2 . e_a1 or e_b2 . e_b1), y is the sine with the sign of (e_a2 . e_b1)
    Otherwise angle_dot = - d(angle)/dt for that axis: force laws on the joint turn from dissipating to generating energy."""
    from .. import finite
    rep = ctx.rep
    cls = ctx.model.cls("Revolute", REV)
    init, l = cls.methods.get("__init__"), cls.methods.get("l")
    if init is None or l is None:
        raise AnalysisError(f"{REV}: Revolute.__init__ / l vanished")
    C = f"{REV}:Revolute.__init__"
    pa = [n for n in ast.walk(init) if isinstance(n, ast.Assign) and norm_src(n.targets[0]) == "self.plane_axes"]
    if len(pa) != 1:
        raise AnalysisError(f"{C}: `self.plane_axes = ...` not found")
    # sign of y relative to sin(angle) and kind of x, from l()
    loc = {}
    # l() and the helper methods of the class it evaluates (the angle computation may live in a helper)
    scope, work = [], [l]
    while work:
        f = work.pop()
        if f in scope:
            continue
        scope.append(f)
        for n in ast.walk(f):
            if isinstance(n, ast.Call) and isinstance(n.func, ast.Attribute) and isinstance(n.func.value, ast.Name) and n.func.value.id == "self" \
                    and n.func.attr in cls.methods:
                work.append(cls.methods[n.func.attr])
    for n in (w for f in scope for w in ast.walk(f)):
        if isinstance(n, ast.Assign) and len(n.targets) == 1:
            t = n.targets[0]
            if isinstance(t, ast.Name):
                loc[t.id] = n.value
            elif isinstance(t, ast.Tuple) and norm_src(n.value) == "self.plane_axes" and len(t.elts) == 2:
                loc[t.elts[0].id], loc[t.elts[1].id] = "PA0", "PA1"

    def col(e):
        """(body, which plane axis) of a direction vector expression A_IJk[:, a]"""
        seen = 0
        while isinstance(e, ast.Name) and e.id in loc and not isinstance(loc[e.id], str) and seen < 5:
            e = loc[e.id]
            seen += 1
        if isinstance(e, ast.Subscript) and isinstance(e.slice, ast.Tuple) and len(e.slice.elts) == 2:
            base, idx = e.value, e.slice.elts[1]
            seen = 0
            while isinstance(base, ast.Name) and base.id in loc and not isinstance(loc[base.id], str) and seen < 5:
                base = loc[base.id]
                seen += 1
            b = norm_src(base)
            body = 1 if "A_IJ1" in b else 2 if "A_IJ2" in b else None
            which = loc.get(idx.id) if isinstance(idx, ast.Name) else None
            if body and which in ("PA0", "PA1"):
                return body, which
        return None

    def dot(e):
        sg = 1
        while isinstance(e, ast.UnaryOp) and isinstance(e.op, ast.USub):
            sg, e = -sg, e.operand
        if isinstance(e, ast.BinOp) and isinstance(e.op, ast.MatMult):
            a, b = col(e.left), col(e.right)
            if a and b and {a[0], b[0]} == {1, 2}:
                d = dict([a, b])
                return sg, d[1], d[2]  # (sign, plane axis taken from body 1, plane axis taken from body 2)
        return None

    Cl = f"{REV}:Revolute.l"
    x, y = dot(loc.get("x")) if "x" in loc else None, dot(loc.get("y")) if "y" in loc else None
    if x is None or y is None:
        rep.ok(rule, Cl, "x / y are not direction cosines of the in-plane joint axes in a form the analysis reads (no verdict)", verdict="unknown", trivial=True)
        return
    if not (x[1] == x[2] and x[0] == 1):
        rep.bad(rule, Cl, loc["x"], "x is not the cosine of the relative angle (e_a2 . e_a1 or e_b2 . e_b1)", f"{REV}:{loc['x'].lineno}")
        return
    if y[1] == y[2]:
        rep.bad(rule, Cl, loc["y"], "y is not the sine of the relative angle (it pairs the same in-plane axis of both bodies)", f"{REV}:{loc['y'].lineno}")
        return
    # e_a2 = cos e_a1 + sin e_b1  =>  e_a2 . e_b1 = + sin ;  e_b2 . e_a1 = - sin
    ysign = y[0] * (1 if (y[2], y[1]) == ("PA0", "PA1") else -1)
    rep.ok(rule, Cl, f"x = cos(angle), y = {'+' if ysign > 0 else '-'}sin(angle) w.r.t. the oriented pair (plane_axes[0], plane_axes[1])")
    # orientation of the rate: sign with which Omega2 enters l_dot
    from .. import twobody
    ld = cls.methods.get("l_dot")
    rets = [n.value for n in ast.walk(ld) if isinstance(n, ast.Return) and n.value is not None] if ld is not None else []
    s2 = {sg for r in rets for (d, sg, _) in twobody.signed_calls(r) if d == "self.Omega2"}
    if len(s2) != 1:
        rep.ok(rule, f"{REV}:Revolute.l_dot", "sign of Omega2 in l_dot not syntactically determinate (no verdict on the orientation)", verdict="unknown", trivial=True)
        return
    ysign *= s2.pop()
    for axis in (0, 1, 2):
        try:
            ab = finite.ev(pa[0].value, {"axis": axis, "self.axis": axis})
        except finite.Unknown as e:
            rep.ok(rule, C, f"axis={axis}: plane_axes expression not foldable ({e}) (no verdict)", verdict="unknown", trivial=True)
            continue
        par = finite.parity([axis] + list(ab)) if isinstance(ab, list) and len(ab) == 2 else None
        if par is None:
            rep.bad(rule, C, pa[0], f"axis={axis}: plane_axes = {ab} is not the pair of the two other axes", f"{REV}:{pa[0].lineno}")
        elif par * ysign == 1:
            rep.ok(rule, C, f"axis={axis}: plane_axes = {tuple(ab)}, (axis, a, b) right-handed: angle and angle rate are measured about +e_{'xyz'[axis]}")
        else:
            rep.bad(rule, C, pa[0], f"axis={axis}: plane_axes = {tuple(ab)} makes (axis, a, b) a left-handed triad, so the reported angle grows about -e_{'xyz'[axis]} while the "
                    f"reported rate (Omega2 - Omega1) . e_axis and the force direction W_l are about +e_{'xyz'[axis]}: angle_dot = -d(angle)/dt, and a spring/damper on this "
                    "joint does work of the wrong sign", f"{REV}:{pa[0].lineno}")


def rate_rule(ctx):
    """l_dot must consist of exactly the monomials {axis(t, q) . Omega1, axis(t, q) . Omega2} with the SAME state-dependent joint
    basis (A_IJ1 or A_IJ2, evaluated at the current (t, q): the axis moves with the bodies) and with opposite signs; """
    from .. import support, protocol, twobody
    rep = ctx.rep
    ci = ctx.model.cls("Revolute", REV)
    view = protocol.ClassView(ctx, ci)
    C = f"{REV}:Revolute.l_dot"
    S, why = support.support_of(view, "l_dot")
    c, fn = view.method("l_dot")
    if fn is None:
        raise AnalysisError(f"{C} vanished")
    if S is None:
        rep.bad("C25.R7", C, fn.name, f"the angle rate is not a polynomial expression of the kinematic atoms ({why}): it cannot be the axis projection of the relative angular velocity",
                f"{REV}:{fn.lineno}")
        return
    mons = sorted(S)
    om = sorted({a for m in mons for a in m if a.startswith("Omega")})
    basis = sorted({a for m in mons for a in m if not a.startswith("Omega")})
    okk = (len(mons) == 2 and om == ["Omega1", "Omega2"] and all(len(m) == 2 for m in mons) and len(basis) == 1 and basis[0] in ("A_IJ1", "A_IJ2"))
    if okk:
        rep.ok("C25.R7", C, f"support of l_dot = {mons}: both angular velocities projected on the current joint basis {basis[0]}(t, q)")
    else:
        rep.bad("C25.R7", C, fn.body[-1], f"support of l_dot is {mons}: expected exactly Omega1 and Omega2, each multiplied by the same state-dependent joint basis "
                "A_IJ1(t, q) or A_IJ2(t, q) (a constant axis such as A_IJ0 stops being the joint axis as soon as subsystem 1 rotates)", f"{REV}:{fn.lineno}")
    # (exactness of l_dot_u / l_dot_q / W_l as derivatives of l_dot is C08's clause: C08.R5 / R7)
    info = twobody.FnInfo(fn)
    res, occ = twobody.relative_polarity(info, fn)
    rho = [r for (fam, kinds), r in res.items() if fam == "R" and r not in (None, 0)]
    if rho and all(r == -1 for r in rho):
        rep.ok("C25.R7", C, "Omega2 and Omega1 enter with opposite signs (relative angular velocity)")
    elif rho:
        rep.bad("C25.R7", C, fn.body[-1], "Omega2 and Omega1 enter the angle rate with the same sign: that is not the relative angular velocity", f"{REV}:{fn.lineno}")
    else:
        rep.ok("C25.R7", C, "sign ratio of Omega2 : Omega1 not syntactically determinate (no verdict)", verdict="unknown", trivial=True)


def attribute_alias_inplace(ctx, rule="C25.R10"):
    """K11 on the revolute joint: `x = self.a` binds the attribute's object; `x += ...` is in place when that object is an ndarray (a 0-d array
    from np.squeeze / np.asarray, a length-1 slice), rebinding when it is a Python float.  The pinned code writes `self.angle0 + ...`, which
    always creates a new object."""
    rep = ctx.rep
    cls = ctx.repo.get(REV, "Revolute")
    n = 0
    for fn in [f for f in cls.body if isinstance(f, ast.FunctionDef) and f.name not in ("__init__",)]:
        alias = {}
        for w in ast.walk(fn):
            if isinstance(w, ast.Assign) and len(w.targets) == 1 and isinstance(w.targets[0], ast.Name) and isinstance(w.value, ast.Attribute) and dotted(w.value.value) == "self":
                alias.setdefault(w.targets[0].id, []).append(w)
        for w in ast.walk(fn):
            if isinstance(w, ast.AugAssign) and isinstance(w.target, ast.Name) and w.target.id in alias:
                # only if every binding of the name before this statement is such an alias (a later `x = x + 0` would break the aliasing)
                others = [b for b in ast.walk(fn) if isinstance(b, ast.Assign) and any(isinstance(t, ast.Name) and t.id == w.target.id for t in b.targets) and b not in alias[w.target.id]
                          and b.lineno < w.lineno]
                if others:
                    continue
                n += 1
                a = alias[w.target.id][0]
                rep.bad(rule, f"{REV}:Revolute.{fn.name}", w, f"`{norm_src(a)}` binds the attribute's own object and `{norm_src(w)[:50]}` updates it in place when it is a numpy array: every query then "
                        f"adds the measured rotation onto self.{a.value.attr} - the reported angle grows with repeated queries at one configuration and reset() cannot restore the initial state",
                        f"{REV}:{w.lineno}")
    if n == 0:
        rep.ok(rule, f"{REV}:Revolute", "no in-place operation on a local that aliases an attribute")


def history_only(ctx, rule="C25.R9"):
    """'the reported angle equals the initial angle plus the accumulated rotation' for ANY history sampled finely enough - whatever time stamps
    the samples carry.  Integrators evaluate at non-monotone times (rejected steps, stage values, post-processing from t0), so a tracking
    state that looks at `t` (reset when time runs backwards, ...) discards whole turns on such queries."""
    rep = ctx.rep
    cls = ctx.repo.get(REV, "Revolute")
    fn = next((f for f in cls.body if isinstance(f, ast.FunctionDef) and f.name == "l"), None)
    C = f"{REV}:Revolute.l"
    if fn is None:
        raise AnalysisError("Revolute.l vanished")
    tname = fn.args.args[1].arg if len(fn.args.args) > 1 else "t"
    resets = [w for w in ast.walk(fn) if isinstance(w, ast.Call) and norm_src(w.func) in ("self.reset", "self.assembler_callback")]
    tstores = [w for w in ast.walk(fn) if isinstance(w, ast.Assign) and any(isinstance(t_, ast.Attribute) and dotted(t_.value) == "self" for t_ in w.targets)
               and any(isinstance(x, ast.Name) and x.id == tname for x in ast.walk(w.value))]
    tcomp = [w for w in ast.walk(fn) if isinstance(w, ast.Compare) and any(isinstance(x, ast.Name) and x.id == tname for x in ast.walk(w))]
    if resets:
        rep.bad(rule, C, resets[0], f"the query calls `{norm_src(resets[0])}`: the accumulated whole turns are discarded by a QUERY (under whatever condition), so the reported angle is re-wrapped "
                "into one turn for the rest of the history", f"{REV}:{resets[0].lineno}")
    else:
        rep.ok(rule, C, "the query never re-initialises the tracking state")
    if tstores or tcomp:
        w = (tstores or tcomp)[0]
        rep.bad(rule, C, w, f"`{norm_src(w)[:60]}`: the tracking state depends on the time stamp `{tname}` of the queries, not only on the configurations queried", f"{REV}:{w.lineno}")
    else:
        rep.ok(rule, C, f"no tracking state is derived from or compared with the time stamp `{tname}`")


def run(ctx):
    rep = ctx.rep
    rep.rule("C25.R10", "queries do not modify the joint's parameters: no local bound directly to an attribute (`angle = self.angle0`) is the target of an in-place operation - for an angle0 given as numpy array `angle += ...` writes into the stored initial angle", 1)
    attribute_alias_inplace(ctx)
    rep.rule("C25.R9", "the tracked angle is a function of the rotation HISTORY only: the query l() neither resets the tracking state itself nor stores / compares the time stamp of the previous query", 2)
    history_only(ctx)
    rep.rule("C25.R1", "writers of the tracking state", 4)
    rep.rule("C25.R2", "reset restores the initial tracking state, which is 'relative rotation zero' (no turn, quadrant 1) independent of angle0", 4)
    rep.rule("C25.R3", "guarded, idempotent turn counting in l()", 3)
    rep.rule("C25.R4", "_compute_quadrant over the 9 sign cases", 9)
    rep.rule("C25.R5", "no zero denominator under the quadrant's sign constraints", 4)
    rep.rule("C25.R6", "quadrant offsets (k-1)*pi/2", 4)
    rep.rule("C25.R7", "angle rate = projection of Omega2 - Omega1 on the joint axis carried by the bodies (K10 support, K9 polarity)", 2)
    rate_rule(ctx)
    rep.rule("C25.R8", "angle and angle rate are measured about the same oriented axis for axis = 0, 1, 2 (finite folding of plane_axes, parity)", 4)
    orientation_rule(ctx, "C25.R8")
    cls = ctx.model.cls("Revolute", REV)
    # R1
    allowed = {"__init__", "assembler_callback", "l", "reset"}
    for rel, mod in ctx.repo.modules.items():
        if not rel.startswith("cardillo/"):
            continue
        for q, fn in mod.defs().items():
            if not isinstance(fn, ast.FunctionDef):
                continue
            for n in ast.walk(fn):
                tg = n.targets if isinstance(n, ast.Assign) else ([n.target] if isinstance(n, ast.AugAssign) else [])
                for t in tg:
                    if isinstance(t, ast.Attribute) and t.attr in FIELDS:
                        C = f"{rel}:{q}"
                        if rel == REV and q.split(".")[0] == "Revolute" and q.split(".")[-1] in allowed and isinstance(t.value, ast.Name) and t.value.id == "self":
                            rep.ok("C25.R1", C, n)
                        else:
                            rep.bad("C25.R1", C, n, f"`{t.attr}` is written outside Revolute.__init__/assembler_callback/l/reset: the tracked angle can jump", f"{rel}:{n.lineno}")
    # R2
    def consts(fn):
        out = {}
        for n in ast.walk(fn):
            if isinstance(n, ast.Assign) and len(n.targets) == 1 and isinstance(n.targets[0], ast.Attribute) and n.targets[0].attr in FIELDS:
                out[n.targets[0].attr] = norm_src(n.value)
        return out
    res = cls.methods.get("reset")
    if res is None:
        raise AnalysisError("Revolute.reset vanished")
    # the initial tracking state is set where the joint is created / assembled: assembler_callback first, else __init__
    ci = {}
    for mname in ("__init__", "assembler_callback"):
        m = cls.methods.get(mname)
        if m is not None:
            ci.update(consts(m))
            # initialisation delegated to reset(): the initial state IS what reset sets
            if any(isinstance(w, ast.Call) and norm_src(w.func) == "self.reset" for w in ast.walk(m)):
                for k_, v_ in consts(res).items():
                    ci.setdefault(k_, v_)
    cr = consts(res)
    # the tracked quantity is the rotation RELATIVE to the defining configuration, where the joint frames coincide: x = 1, y = 0, i.e. quadrant 1
    # and no full turn - whatever angle0 is (angle0 is an additive offset of the reported angle, not a state of the tracker)
    WANT0 = {"n_full_rotations": "0", "previous_quadrant": "1"}
    for f in FIELDS:
        C0 = f"{REV}:Revolute.{'reset' if f not in consts(cls.methods.get('assembler_callback') or res) else 'assembler_callback'}"
        if f in ci and f in WANT0:
            if ci[f] == WANT0[f]:
                rep.ok("C25.R2", C0, f"initial tracking state: {f} = {ci[f]} (relative rotation zero, independent of angle0)")
            else:
                rep.bad("C25.R2", C0, f"self.{f} = {ci[f]}", f"the tracker starts with {f} = `{ci[f]}`; it follows the rotation relative to the defining configuration, where the joint frames "
                        f"coincide (x = 1, y = 0): the initial value must be {WANT0[f]} whatever angle0 is - with an initial quadrant taken from angle0 the first query sees a spurious "
                        "4 -> 1 transition (angle0 in the 4th quadrant) or misses the first 1 -> 4 crossing, a permanent offset of one turn", f"{REV}:{res.lineno}")
    for f in FIELDS:
        C = f"{REV}:Revolute.reset"
        if f not in ci:
            raise AnalysisError(f"initialisation of {f} not found in Revolute.__init__ / assembler_callback")
        if cr.get(f) == ci[f]:
            rep.ok("C25.R2", C, f"self.{f} = {ci[f]} (same as initialisation)")
        else:
            rep.bad("C25.R2", C, f"self.{f} = {cr.get(f)}", f"reset sets {f} to {cr.get(f)} but the initial tracking state is {ci[f]}", f"{REV}:{res.lineno}")
    # R3
    lfn = cls.methods.get("l")
    if lfn is None:
        raise AnalysisError("Revolute.l vanished")
    C = f"{REV}:Revolute.l"
    changes = [n for n in ast.walk(lfn) if isinstance(n, ast.AugAssign) and dotted(n.target) == "self.n_full_rotations"]
    plain = [n for n in ast.walk(lfn) if isinstance(n, ast.Assign) and any(dotted(t) == "self.n_full_rotations" for t in n.targets)]
    for n in plain:
        rep.bad("C25.R3", C, n, "n_full_rotations is overwritten inside the query", f"{REV}:{n.lineno}")
    from ..model import guards_of
    seen_pairs = {}
    for n in changes:
        g = guards_of(n, lfn)
        pair = None
        for (txt, pol) in g:
            try:
                t = ast.parse(txt, mode="eval").body
            except SyntaxError:
                continue
            if pol and isinstance(t, ast.BoolOp) and isinstance(t.op, ast.And):
                d = {}
                for v in t.values:
                    if isinstance(v, ast.Compare) and len(v.ops) == 1 and isinstance(v.ops[0], ast.Eq) and isinstance(v.comparators[0], ast.Constant):
                        d[norm_src(v.left)] = v.comparators[0].value
                if "self.previous_quadrant" in d and "quadrant" in d:
                    pair = (d["self.previous_quadrant"], d["quadrant"])
        step = None
        if isinstance(n.value, ast.Constant):
            step = n.value.value if isinstance(n.op, ast.Add) else (-n.value.value if isinstance(n.op, ast.Sub) else None)
        if pair is None or pair[0] == pair[1]:
            rep.bad("C25.R3", C, n, "change of n_full_rotations is not guarded by `previous_quadrant == a and quadrant == b` with a != b "
                    "(a repeated query at the same configuration would count another turn)", f"{REV}:{n.lineno}")
            continue
        want = {(4, 1): 1, (1, 4): -1}.get(pair)
        if want is None or step != want:
            rep.bad("C25.R3", C, n, f"transition {pair[0]} -> {pair[1]} changes the turn counter by {step}; crossing 4 -> 1 must add one turn and 1 -> 4 remove one",
                    f"{REV}:{n.lineno}")
        else:
            seen_pairs[pair] = step
            rep.ok("C25.R3", C, f"previous_quadrant == {pair[0]} and quadrant == {pair[1]}: n_full_rotations {'+' if step > 0 else '-'}= 1")
    for p in ((4, 1), (1, 4)):
        if p not in seen_pairs:
            rep.bad("C25.R3", C, f"transition {p}", f"no turn counting for the transition {p[0]} -> {p[1]}", f"{REV}:{lfn.lineno}")
    cfg = CFG(lfn)
    upd = [n for n in cfg.nodes if n.kind == "stmt" and isinstance(n.ast, ast.Assign) and any(dotted(t) == "self.previous_quadrant" for t in n.ast.targets)]
    if len(upd) == 1 and norm_src(upd[0].ast.value) == "quadrant" and not cfg.can_reach([cfg.entry], cfg.exit, blocked=lambda n: n is upd[0]):
        # and the update comes after the turn counting
        late = all(cfg.can_reach([cfg.node_of(_stmt(c))], upd[0]) for c in changes)
        if late:
            rep.ok("C25.R3", C, "self.previous_quadrant = quadrant on every path, after the turn counting")
        else:
            rep.bad("C25.R3", C, upd[0].ast, "previous_quadrant is updated before the transition test", f"{REV}:{upd[0].lineno}")
    else:
        rep.bad("C25.R3", C, "self.previous_quadrant = quadrant", "previous_quadrant is not set to the current quadrant on every path through l()", f"{REV}:{lfn.lineno}")
    # R4
    qf = cls.methods.get("_compute_quadrant")
    if qf is None:
        raise AnalysisError("Revolute._compute_quadrant vanished")
    Cq = f"{REV}:Revolute._compute_quadrant"
    expect = {(1, 0): 1, (1, 1): 1, (0, 1): 2, (-1, 1): 2, (-1, 0): 3, (-1, -1): 3, (0, -1): 4, (1, -1): 4}
    quad_signs = {}
    for x, y in itertools.product((-1, 0, 1), repeat=2):
        try:
            r = _run_quadrant(qf, x, y)
        except KeyError as e:
            raise AnalysisError(f"_compute_quadrant is no longer comparison-only ({e}); R4 cannot be evaluated")
        if (x, y) == (0, 0):
            if r == "raise":
                rep.ok("C25.R4", Cq, "sign case (0, 0): raises")
            else:
                rep.bad("C25.R4", Cq, "case x == 0 and y == 0", f"the origin returns {r} instead of raising", f"{REV}:{qf.lineno}")
            continue
        quad_signs.setdefault(r, []).append((x, y))
        if r == expect[(x, y)]:
            rep.ok("C25.R4", Cq, f"sign case (sgn x, sgn y) = ({x}, {y}) -> quadrant {r}")
        else:
            rep.bad("C25.R4", Cq, f"case sgn x = {x}, sgn y = {y}", f"returns {r}, expected quadrant {expect[(x, y)]} (counter-clockwise numbering starting at the positive x axis)",
                    f"{REV}:{qf.lineno}")
    # R5 / R6: branches of the angle formula
    for n in ast.walk(lfn):
        if isinstance(n, ast.If) and isinstance(n.test, ast.Compare) and norm_src(n.test.left) == "quadrant":
            chain = []
            cur = n
            while True:
                k = cur.test.comparators[0].value if isinstance(cur.test.comparators[0], ast.Constant) else None
                chain.append((k, cur.body))
                if len(cur.orelse) == 1 and isinstance(cur.orelse[0], ast.If) and isinstance(cur.orelse[0].test, ast.Compare) \
                        and norm_src(cur.orelse[0].test.left) == "quadrant":
                    cur = cur.orelse[0]
                else:
                    if cur.orelse:
                        rest = sorted(set(quad_signs) - {kk for kk, _ in chain} - {"raise"})
                        chain.append((rest[0] if len(rest) == 1 else None, cur.orelse))
                    break
            if len(chain) < 4:
                continue
            for k, body in chain:
                if k not in quad_signs:
                    continue
                for d in [x for s in body for x in ast.walk(s) if isinstance(x, ast.BinOp) and isinstance(x.op, ast.Div)]:
                    zero = []
                    for (sx, sy) in quad_signs[k]:
                        try:
                            v = _eval_arith(d.right, {"x": sx, "y": sy})
                        except KeyError:
                            v = None
                        if v == 0:
                            zero.append((sx, sy))
                    if zero:
                        rep.bad("C25.R5", C, d, f"in the quadrant-{k} branch the denominator `{norm_src(d.right)}` is zero for sign case(s) {zero} (division by zero on an axis)",
                                f"{REV}:{d.lineno}")
                    else:
                        rep.ok("C25.R5", C, f"quadrant {k}: denominator `{norm_src(d.right)}` nonzero for sign cases {quad_signs[k]}")
                # R6 offsets
                for s in body:
                    if isinstance(s, ast.AugAssign) and isinstance(s.op, ast.Add) and norm_src(s.target) == "angle":
                        off = _pi_multiple(s.value)
                        if off is None:
                            rep.note(f"C25.R6: offset of quadrant {k} not recognised: {norm_src(s.value)}")
                        elif abs(off - (k - 1) * 0.5) < 1e-12:
                            rep.ok("C25.R6", C, f"quadrant {k}: offset {off} * pi")
                        else:
                            rep.bad("C25.R6", C, s, f"quadrant {k} adds an offset of {off}*pi instead of {(k - 1) * 0.5}*pi", f"{REV}:{s.lineno}")
            break


def _stmt(n):
    from ..core import enclosing_stmt
    return enclosing_stmt(n)


def _eval_arith(e, env):
    if isinstance(e, ast.Name):
        return env[e.id]
    if isinstance(e, ast.UnaryOp) and isinstance(e.op, ast.USub):
        return -_eval_arith(e.operand, env)
    if isinstance(e, ast.Constant):
        return e.value
    raise KeyError(norm_src(e))


def _pi_multiple(e):
    """coefficient c such that e = c*pi + arctan(...) ; 0 if no pi term."""
    terms = []

    def add_terms(x):
        if isinstance(x, ast.BinOp) and isinstance(x.op, ast.Add):
            add_terms(x.left)
            add_terms(x.right)
        else:
            terms.append(x)
    add_terms(e)
    c = 0.0
    for t in terms:
        s = norm_src(t)
        if "arctan" in s:
            continue
        if s == "np.pi":
            c += 1.0
        elif isinstance(t, ast.BinOp) and isinstance(t.op, ast.Mult):
            l, r = t.left, t.right
            if norm_src(r) == "np.pi" and isinstance(l, ast.Constant):
                c += l.value
            elif norm_src(l) == "np.pi" and isinstance(r, ast.Constant):
                c += r.value
            else:
                return None
        else:
            return None
    return c


MUTANTS = [
    dict(id="c25-m1", canary=True, what="turn counting direction swapped", file=REV,
         old="        if self.previous_quadrant == 4 and quadrant == 1:\n            self.n_full_rotations += 1\n        elif self.previous_quadrant == 1 and quadrant == 4:\n            self.n_full_rotations -= 1",
         new="        if self.previous_quadrant == 4 and quadrant == 1:\n            self.n_full_rotations -= 1\n        elif self.previous_quadrant == 1 and quadrant == 4:\n            self.n_full_rotations += 1", expect="C25.R3"),
    dict(id="c25-m2", what="previous_quadrant update removed", file=REV, old="        self.previous_quadrant = quadrant\n", new="", expect="C25.R3"),
    dict(id="c25-m3", canary=True, what="quadrant boundary: positive y axis assigned to quadrant 1 (x >= 0) -> arctan(y/0)", file=REV,
         old="        if x > 0 and y >= 0:\n            return 1\n        elif x <= 0 and y > 0:", new="        if x >= 0 and y >= 0 and (x > 0 or y > 0):\n            return 1\n        elif x < 0 and y > 0:", expect=["C25.R4", "C25.R5"]),
    dict(id="c25-m4", what="reset sets previous_quadrant to 4", file=REV,
         old="    def reset(self):\n        self.n_full_rotations = 0\n        self.previous_quadrant = 1", new="    def reset(self):\n        self.n_full_rotations = 0\n        self.previous_quadrant = 4", expect="C25.R2"),
    dict(id="c25-m5", what="quadrant 3 offset wrong", file=REV,
         old="            angle += np.pi + np.arctan(-y / -x)", new="            angle += 0.5 * np.pi + np.arctan(-y / -x)", expect="C25.R6"),
    dict(id="c25-m6", what="l_dot helper also touches the counter", file=REV,
         old="    def l_dot(self, t, q, u):\n        e_c1 = self.A_IJ1(t, q)[:, self.axis]", new="    def l_dot(self, t, q, u):\n        self.n_full_rotations = 0\n        e_c1 = self.A_IJ1(t, q)[:, self.axis]", expect="C25.R1"),
    dict(id="c25-m7", what="turn counted whenever quadrant is 1 (not idempotent)", file=REV,
         old="        if self.previous_quadrant == 4 and quadrant == 1:", new="        if quadrant == 1:", expect="C25.R3"),
    dict(id="c25-m8", what="negative x axis falls through to the error", file=REV,
         old="        elif x < 0 and y <= 0:\n            return 3", new="        elif x < 0 and y < 0:\n            return 3", expect="C25.R4"),
]
MUTANTS += [
    dict(id="c25-r7-seed", canary=True, what="[seeded by sub-agent] l_dot projects on the constant initial joint axis A_IJ0", file=REV,
         old="        e_c1 = self.A_IJ1(t, q)[:, self.axis]\n        return (self.Omega2(t, q, u) - self.Omega1(t, q, u)) @ e_c1",
         new="        e_c = self.A_IJ0[:, self.axis]\n        return (self.Omega2(t, q, u) - self.Omega1(t, q, u)) @ e_c", expect="C25.R7"),
    dict(id="c25-r7-2", what="l_dot reports the sum of the angular velocities", file=REV,
         old="        return (self.Omega2(t, q, u) - self.Omega1(t, q, u)) @ e_c1", new="        return (self.Omega2(t, q, u) + self.Omega1(t, q, u)) @ e_c1", expect="C25.R7"),
    dict(id="c25-r7-3", what="l_dot reports only body 2's angular velocity", file=REV,
         old="        return (self.Omega2(t, q, u) - self.Omega1(t, q, u)) @ e_c1", new="        return self.Omega2(t, q, u) @ e_c1", expect="C25.R7"),
]
MUTANTS += [
    dict(id="c25-r8-seed", canary=True, what="[seeded by sub-agent] plane_axes = np.delete((0, 1, 2), axis): left-handed pair for axis = 1", file=REV,
         old="        self.plane_axes = np.roll([0, 1, 2], -axis)[1:]", new="        self.plane_axes = np.delete((0, 1, 2), axis)", expect="C25.R8"),
    dict(id="c25-r8-3", what="l_dot reports Omega1 - Omega2", file=REV,
         old="        return (self.Omega2(t, q, u) - self.Omega1(t, q, u)) @ e_c1", new="        return (self.Omega1(t, q, u) - self.Omega2(t, q, u)) @ e_c1", expect="C25.R8"),
    dict(id="c25-r8-2", what="l(): sine taken from e_b2 . e_a1 (opposite sign)", file=REV,
         old="        e_a2 = A_IJ2[:, a]\n\n        # projections\n        y = e_a2 @ e_b1", new="        e_a2 = A_IJ2[:, a]\n        e_b2 = A_IJ2[:, b]\n\n        # projections\n        y = e_b2 @ e_a1", expect="C25.R8"),
]
NEUTRAL = [
    dict(id="c25-n-r8", canary=True, what="plane_axes through modular arithmetic", file=REV,
         old="        self.plane_axes = np.roll([0, 1, 2], -axis)[1:]", new="        self.plane_axes = np.array([(axis + 1) % 3, (axis + 2) % 3])"),
    dict(id="c25-n-r8b", what="l(): sine from -(e_b2 . e_a1)", file=REV,
         old="        e_a2 = A_IJ2[:, a]\n\n        # projections\n        y = e_a2 @ e_b1", new="        e_a2 = A_IJ2[:, a]\n        e_b2 = A_IJ2[:, b]\n\n        # projections\n        y = -(e_b2 @ e_a1)"),
    dict(id="c25-n-r7", what="l_dot projects on body 2's copy of the axis", file=REV,
         old="        e_c1 = self.A_IJ1(t, q)[:, self.axis]\n        return (self.Omega2(t, q, u) - self.Omega1(t, q, u)) @ e_c1",
         new="        e_c2 = self.A_IJ2(t, q)[:, self.axis]\n        return e_c2 @ self.Omega2(t, q, u) - e_c2 @ self.Omega1(t, q, u)"),
    dict(id="c25-n-init", canary=True, what="tracking fields additionally initialised in __init__ (no behavioural change for C25)", file=REV,
         old="        self.angle_dot = self.l_dot\n\n        super().__init__(", new="        self.angle_dot = self.l_dot\n\n        self.n_full_rotations = 0\n        self.previous_quadrant = 1\n\n        super().__init__("),
    dict(id="c25-n1", canary=True, what="quadrant tests reordered inside the conjunctions", file=REV,
         old="        if x > 0 and y >= 0:\n            return 1", new="        if y >= 0 and 0 < x:\n            return 1"),
]
MUTANTS += [
    dict(id="c25-r2-seed", canary=True, what="[seeded by sub-agent] tracking starts in the quadrant of angle0 (assembler_callback delegates to reset)", file=REV,
         edits=[(REV, "    def assembler_callback(self):\n        self.n_full_rotations = 0\n        self.previous_quadrant = 1\n", "    def assembler_callback(self):\n        self.reset()\n"),
                (REV, "    def reset(self):\n        self.n_full_rotations = 0\n        self.previous_quadrant = 1", "    def reset(self):\n        self.n_full_rotations = 0\n        self.previous_quadrant = self._compute_quadrant(np.cos(self.angle0), np.sin(self.angle0))")],
         expect="C25.R2"),
]
NEUTRAL += [
    dict(id="c25-n-r2", canary=True, what="assembler_callback delegates the initialisation of the tracker to reset()", file=REV,
         old="    def assembler_callback(self):\n        self.n_full_rotations = 0\n        self.previous_quadrant = 1\n", new="    def assembler_callback(self):\n        self.reset()\n"),
]

MUTANTS += [
    dict(id="c25-r9-seed", canary=True, what="[seeded by sub-agent] Revolute.l resets the tracked angle automatically when a query carries an earlier time stamp than the previous one", file=REV,
         old="    def l(self, t, q):\n", new="    def l(self, t, q):\n        if t < getattr(self, \"previous_t\", -np.inf):\n            self.reset()\n        self.previous_t = t\n", expect="C25.R9"),
]

MUTANTS += [
    dict(id="c25-r10-seed", canary=True, what="[seeded by sub-agent] Revolute.l assembles the angle as `angle = self.angle0; angle += ...` (in place for an array-valued angle0)", file=REV,
         old='        angle = self.angle0 + self.n_full_rotations * 2 * np.pi\n', new="        angle = self.angle0\n        angle += self.n_full_rotations * 2 * np.pi\n", expect="C25.R10"),
]
