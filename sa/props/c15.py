"""C15  Sparse COO assembly accumulates exactly.

Structural clauses decided, all on cardillo/utility/coo_matrix.py:
 R1 lockstep     on every path through CooMatrix.__setitem__, data/row/col are extended the same
                 number of times (0 or 1)
 R2 shape check  every extension of `data` is dominated by a check that the written block's shape equals
                 (len(rows), len(cols)) ("writes with inconsistent block shapes are rejected")
 R3 None no-op   a `value is None` write reaches the exit without touching data/row/col
 R4 axis pairing rows<->shape[0], cols<->shape[1]; row.extend uses rows, col.extend uses cols; the dense
                 branch pairs ravel order with repeat/tile; tosparse passes (data, (row, col))
 R5 formats      every format string a caller passes to asformat resolves to an existing to<format> method
 R6 accessors    the data/row/col properties read and write the matching private field
"""
from __future__ import annotations

import ast

from ..core import AnalysisError, dotted, norm_src, walk_no_nested
from ..cfg import CFG, enumerate_paths

EXPLANATION = ("Path enumeration over the CFG of CooMatrix.__setitem__ (all paths, finite), dominator check of the "
               "shape assertion, structural pairing of index axes, ravel order and constructor arguments, and "
               "resolution of every format string used in cardillo/ against the to* methods.")
NOT_DECIDED = "scipy's duplicate summation in coo->csr/csc/array conversion (trusted library behaviour); numerical equality."
ASSUMPTIONS = ["scipy sums duplicate (row, col) entries on conversion", "array.extend appends in order"]
BLIND_SPOTS = ["a wrong dtype of the index arrays", "value-dependent errors inside numpy repeat/tile"]
COO = "cardillo/utility/coo_matrix.py"


HELPERS = {}   # method name -> FunctionDef of a CooMatrix helper that appends triplets (filled by run)


def _bound_arg(call, which):
    """the expression that ends up in self.<which>.extend(...): the argument itself, or - for a helper call - the actual argument bound to the
    helper's parameter that the helper appends to <which>"""
    f = call.func
    if isinstance(f, ast.Attribute) and dotted(f.value) == "self" and f.attr in HELPERS:
        h = HELPERS[f.attr]
        params = [a.arg for a in h.args.args[1:]]
        for w in ast.walk(h):
            if isinstance(w, ast.Call) and isinstance(w.func, ast.Attribute) and w.func.attr in ("extend", "fromlist", "append", "frombytes") and dotted(w.func.value) == f"self.{which}" and w.args:
                b = w.args[0]
                while isinstance(b, (ast.Subscript, ast.Call)):
                    b = b.value if isinstance(b, ast.Subscript) else (b.func.value if isinstance(b.func, ast.Attribute) else (b.args[0] if b.args else b.func))
                if isinstance(b, ast.Name) and b.id in params and params.index(b.id) < len(call.args):
                    return call.args[params.index(b.id)]
        return None
    return call.args[0] if call.args else None


def _ext(node, which):
    """the call if stmt node is `self.<which>.extend(...)`, or a call of a helper method of the container that extends `which` exactly once"""
    s = node.ast
    if node.kind != "stmt" or not isinstance(s, ast.Expr) or not isinstance(s.value, ast.Call):
        return None
    f = s.value.func
    if isinstance(f, ast.Attribute) and f.attr in ("extend", "fromlist", "append", "frombytes") and dotted(f.value) == f"self.{which}":
        return s.value
    if isinstance(f, ast.Attribute) and dotted(f.value) == "self" and f.attr in HELPERS:
        h = HELPERS[f.attr]
        k = sum(1 for w in ast.walk(h) if isinstance(w, ast.Call) and isinstance(w.func, ast.Attribute) and w.func.attr in ("extend", "fromlist", "append", "frombytes")
                and dotted(w.func.value) == f"self.{which}")
        if k == 1:
            return s.value
    return None


def r7_conversions(ctx, rule="C15.R7"):
    """Accumulation of duplicates happens in scipy's constructors ((data, (row, col)) triplets are summed on conversion).
    Every to<format> method must therefore derive its result from self.tosparse / another to* method; a dense array filled by
    fancy indexing `A[row, col] += data` keeps only the last duplicate (numpy buffers fancy-index updates)."""
    rep = ctx.rep
    cls = ctx.model.cls("CooMatrix", COO)
    trip = {"self.data", "self.row", "self.col", "self._CooMatrix__data", "self._CooMatrix__row", "self._CooMatrix__col"}
    for name, fn in sorted(cls.methods.items()):
        if not name.startswith("to"):
            continue
        C = f"{COO}:CooMatrix.{name}"
        rets = [n for n in walk_no_nested(fn) if isinstance(n, ast.Return) and n.value is not None]
        bad = None
        for r in rets:
            v = r.value
            # strip trailing method calls:  self.tocoo(copy).toarray()  ->  self.tocoo(copy)
            inner = v
            while isinstance(inner, ast.Call) and isinstance(inner.func, ast.Attribute) and isinstance(inner.func.value, ast.Call):
                inner = inner.func.value
            ok = False
            if isinstance(inner, ast.Call):
                d = dotted(inner.func) or ""
                if d.startswith("self.to"):
                    ok = True
                elif inner.args and isinstance(inner.args[0], ast.Tuple) and len(inner.args[0].elts) == 2 and isinstance(inner.args[0].elts[1], ast.Tuple):
                    # constructor((data, (row, col)), shape=...)
                    names = {norm_src(x) for x in [inner.args[0].elts[0]] + list(inner.args[0].elts[1].elts)}
                    ok = names <= trip and len(names) == 3
            if not ok:
                bad = r
        if bad is not None:
            rep.bad(rule, C, bad, f"`{name}` does not build its result from the (data, (row, col)) triplets through a scipy sparse constructor / another to* conversion: "
                    f"duplicates are only summed there", f"{COO}:{bad.lineno}")
        elif rets:
            rep.ok(rule, C, f"{norm_src(rets[0])[:100]}")
    # numpy pitfall: fancy-index augmented assignment with the triplet index arrays does not accumulate duplicates
    n = 0
    for fname, fn in sorted(cls.methods.items()):
        for a in walk_no_nested(fn):
            if isinstance(a, ast.AugAssign) and isinstance(a.target, ast.Subscript):
                idx = norm_src(a.target.slice)
                if any(t.split(".")[-1] in idx for t in ("self.row", "self.col")) or "__row" in idx or "__col" in idx:
                    n += 1
                    rep.bad(rule, f"{COO}:CooMatrix.{fname}", a, "augmented assignment through the (row, col) index arrays: numpy applies a fancy-index `+=` once per distinct "
                            "index, so contributions that hit the same entry are lost instead of summed (np.add.at or a sparse constructor is required)", f"{COO}:{a.lineno}")


RAW_APPENDS = ("frombytes", "fromfile", "fromstring")
TYPECODE_DTYPES = {"d": {"float", "np.float64", "float64", "np.double", "double", "'float64'", "'d'", "'f8'", "np.float_"},
                   "I": {"uintc", "np.uintc", "np.uint32", "uint32", "'uint32'", "'I'", "'u4'"}}


def no_adopted_storage(ctx, rule="C15.R10"):
    rep = ctx.rep
    cls = ctx.model.cls("CooMatrix", COO)
    n = 0
    for mname, fn in cls.methods.items():
        if mname == "__init__" or any("setter" in norm_src(d) for d in fn.decorator_list):
            continue
        params = {a.arg for a in fn.args.args} - {"self"}
        for w in ast.walk(fn):
            if isinstance(w, ast.Assign):
                tg = [t for t in w.targets if isinstance(t, ast.Attribute) and dotted(t.value) == "self" and t.attr.lstrip("_").replace("CooMatrix__", "") in ("data", "row", "col")]
                if not tg:
                    continue
                n += 1
                v = w.value
                if isinstance(v, ast.Attribute) and isinstance(v.value, ast.Name) and v.value.id in params:
                    rep.bad(rule, f"{COO}:CooMatrix.{mname}", w, f"`{norm_src(w)}` adopts the storage array of the written value: both containers now append to ONE array, so a later block written "
                            "into either of them shows up in the other (and in everything that one is nested into) - conversions of a container are no longer the sum of the blocks written "
                            "into it", f"{COO}:{w.lineno}")
                else:
                    rep.ok(rule, f"{COO}:CooMatrix.{mname}", f"`{norm_src(w)[:50]}`: own storage")
    if n == 0:
        rep.ok(rule, f"{COO}:CooMatrix", "no method outside __init__ / the setters rebinds the storage arrays")


def r8_raw_appends(ctx):
    """The triplets live in typed `array` objects ('d' values, 'I' indices).  `extend` / `append` / `fromlist` CONVERT each entry to the
    typecode; `frombytes` reinterprets memory.  A raw append is exact only for a buffer that has been cast to the storage type first
    (`x.astype(np.float64).tobytes()`): the bytes of an int64 block read as doubles give 5e-324 for 1, a float32 / int32 block gives half as many
    entries or a ValueError for a consistent write."""
    rep = ctx.rep
    cls = ctx.model.cls("CooMatrix", COO)
    init = cls.methods.get("__init__")
    codes = {}
    for st in ast.walk(init):
        if isinstance(st, ast.Assign) and isinstance(st.value, ast.Call) and (dotted(st.value.func) or "").split(".")[-1] == "array" and st.value.args \
                and isinstance(st.value.args[0], ast.Constant) and isinstance(st.value.args[0].value, str):
            for t in st.targets:
                d = dotted(t) or ""
                codes[d.split(".")[-1].lstrip("_").replace("CooMatrix__", "")] = st.value.args[0].value
    if len(codes) < 3:
        raise AnalysisError(f"{COO}: typed storage arrays (array('d'), array('I')) not found in CooMatrix.__init__")
    n = 0
    for fname, fn in cls.methods.items():
        for w in ast.walk(fn):
            if not (isinstance(w, ast.Call) and isinstance(w.func, ast.Attribute)):
                continue
            tgt = (dotted(w.func.value) or "").split(".")[-1].lstrip("_").replace("CooMatrix__", "")
            if tgt not in codes:
                continue
            C = f"{COO}:CooMatrix.{fname}"
            if w.func.attr in ("extend", "append", "fromlist"):
                n += 1
                continue
            if w.func.attr in RAW_APPENDS:
                n += 1
                a = w.args[0] if w.args else None
                ok = False
                if isinstance(a, ast.Call) and isinstance(a.func, ast.Attribute) and a.func.attr == "tobytes":
                    src = a.func.value
                    if isinstance(src, ast.Call) and isinstance(src.func, ast.Attribute) and src.func.attr == "astype" and src.args \
                            and norm_src(src.args[0]) in TYPECODE_DTYPES.get(codes[tgt], set()):
                        ok = True
                if ok:
                    rep.ok("C15.R8", C, f"`{norm_src(w)[:70]}`: raw append of a buffer cast to the storage type '{codes[tgt]}'")
                else:
                    rep.bad("C15.R8", C, w, f"`{norm_src(w)[:80]}` appends raw bytes to the '{codes[tgt]}' storage without casting the source to that type: a block whose dtype is not "
                            f"{'float64' if codes[tgt] == 'd' else 'uint32'} (an integer-valued or float32 scipy sparse array) is reinterpreted bit-wise (1 -> 5e-324) or rejected "
                            "although the write is consistent", f"{COO}:{w.lineno}")
    if n < 3:
        raise AnalysisError(f"{COO}: fewer than 3 appends to the typed storage arrays found")
    rep.ok("C15.R8", f"{COO}:CooMatrix", f"{n} appends to the typed storage arrays; all converting (extend / append / fromlist) or cast before a raw append")


def r9_unfiltered(ctx):
    """The container accumulates EXACTLY what was written: every entry of a block reaches the triplets, whatever its value.  A mask computed
    from the values (`abs(data) > 0`, `data != 0`, np.nonzero, isclose) that selects what is appended changes the accumulated matrix for
    values the comparison does not order - nan is "not > 0", so a written nan disappears and the conversions return a finite number where the
    dense sum of the written blocks is nan (and -0.0 / denormals follow the same path)."""
    rep = ctx.rep
    cls = ctx.model.cls("CooMatrix", COO)
    n = 0
    for fname, fn in cls.methods.items():
        appends = [w for w in ast.walk(fn) if isinstance(w, ast.Call) and isinstance(w.func, ast.Attribute) and w.func.attr in ("extend", "append", "fromlist", "frombytes")
                   and (dotted(w.func.value) or "").split(".")[-1].lstrip("_") in ("data", "row", "col")]
        if not appends:
            continue
        local = {}
        for x in ast.walk(fn):
            if isinstance(x, ast.Assign) and len(x.targets) == 1 and isinstance(x.targets[0], ast.Name):
                local.setdefault(x.targets[0].id, []).append(x.value)

        def is_value_mask(e, depth=0):
            if depth > 3:
                return None
            if isinstance(e, ast.Name):
                for v in local.get(e.id, []):
                    r = is_value_mask(v, depth + 1)
                    if r:
                        return r
                return None
            if isinstance(e, ast.Compare) and any(isinstance(o, (ast.Gt, ast.GtE, ast.Lt, ast.LtE, ast.NotEq, ast.Eq)) for o in e.ops):
                return norm_src(e)
            if isinstance(e, ast.Call) and (dotted(e.func) or "").split(".")[-1] in ("nonzero", "flatnonzero", "isclose", "logical_not", "where", "argwhere"):
                return norm_src(e)
            if isinstance(e, ast.UnaryOp) and isinstance(e.op, ast.Invert):
                return is_value_mask(e.operand, depth + 1)
            return None
        C = f"{COO}:CooMatrix.{fname}"
        for a in appends:
            n += 1
            bad = None
            for w in ast.walk(a.args[0]) if a.args else []:
                if isinstance(w, ast.Subscript):
                    m = is_value_mask(w.slice)
                    if m:
                        bad = (w, m)
            if bad:
                w, m = bad
                rep.bad("C15.R9", C, a, f"`{norm_src(a)[:70]}` appends only the entries selected by the value-dependent mask `{m[:50]}`: entries the comparison does not order (nan) are "
                        "dropped, so the conversions return a finite number where the sum of the written blocks is nan", f"{COO}:{a.lineno}")
    if n < 3:
        raise AnalysisError(f"{COO}: fewer than 3 appends found")
    rep.ok("C15.R9", f"{COO}:CooMatrix", f"{n} appends inspected for value-dependent selection of the written entries")


def run(ctx):
    rep = ctx.rep
    rep.rule("C15.R9", "every entry of a written block is appended, whatever its value (no value-dependent mask between the block and the triplets)", 1)
    r9_unfiltered(ctx)
    rep.rule("C15.R10", "block writes COPY triplets into the container's own storage: no write path adopts the storage arrays of the written value (self.data = value.data), which would make two containers share one buffer and every later write to one appear in the other", 1)
    no_adopted_storage(ctx)
    rep.rule("C15.R8", "the typed storage arrays grow through converting appends, or raw appends of buffers cast to the storage type", 1)
    r8_raw_appends(ctx)
    rep.rule("C15.R1", "data/row/col extended in lockstep on every path of __setitem__", 4)
    rep.rule("C15.R2", "shape check dominates every extension of data", 3)
    rep.rule("C15.R3", "None is a no-op", 1)
    rep.rule("C15.R4", "axis / ordering / constructor pairing", 8)
    rep.rule("C15.R5", "format strings resolve to to* methods", 3)
    rep.rule("C15.R6", "property accessors use the matching field", 6)
    rep.rule("C15.R7", "every conversion hands the triplets to a duplicate-summing sparse constructor", 4)
    r7_conversions(ctx)
    cls = ctx.model.cls("CooMatrix", COO)
    HELPERS.clear()
    for mname, mfn in cls.methods.items():
        if mname not in ("__setitem__", "extend") and any(isinstance(w, ast.Call) and isinstance(w.func, ast.Attribute) and w.func.attr in ("extend", "fromlist", "append", "frombytes")
                                                           and dotted(w.func.value) == "self.data" for w in ast.walk(mfn)):
            HELPERS[mname] = mfn
    fn = cls.methods.get("__setitem__")
    if fn is None:
        raise AnalysisError("CooMatrix.__setitem__ vanished")
    C = f"{COO}:CooMatrix.__setitem__"
    cfg = CFG(fn)
    params = [a.arg for a in fn.args.args]
    if len(params) != 3:
        raise AnalysisError("CooMatrix.__setitem__ signature changed")
    keyp, valp = params[1], params[2]
    paths = enumerate_paths(cfg)
    n_ext_paths = 0
    for p in paths:
        if p[-1] is cfg.raise_exit:
            continue
        cnt = {w: sum(1 for n in p if _ext(n, w) is not None) for w in ("data", "row", "col")}
        desc = " -> ".join(f"L{n.lineno}" for n in p if n.kind in ("test",))
        if cnt["data"] == cnt["row"] == cnt["col"] and cnt["data"] <= 1:
            rep.ok("C15.R1", C, f"path [{desc}] extends data/row/col {cnt['data']}x each", trivial=cnt["data"] == 0)
            n_ext_paths += cnt["data"]
        else:
            bad = [n for n in p if any(_ext(n, w) is not None for w in ("data", "row", "col"))]
            rep.bad("C15.R1", C, bad[0].ast if bad else fn.name,
                    f"a normal path extends data {cnt['data']}x, row {cnt['row']}x, col {cnt['col']}x (triplets out of step)",
                    f"{COO}:{bad[0].lineno if bad else fn.lineno}")
    if n_ext_paths < 3:
        raise AnalysisError("fewer than 3 writing paths found in CooMatrix.__setitem__")

    # names
    rows_cols = None
    for n in walk_no_nested(fn):
        if isinstance(n, ast.Assign) and isinstance(n.targets[0], ast.Tuple) and isinstance(n.value, ast.Name) and n.value.id == keyp \
                and len(n.targets[0].elts) == 2:
            rows_cols = tuple(e.id for e in n.targets[0].elts)
    if rows_cols is None:
        raise AnalysisError("`rows, cols = key` not found in CooMatrix.__setitem__")
    rows, cols = rows_cols

    def shape_test(node, src_names):
        """node is an assert/if test comparing X.shape == (len(rows), len(cols)) for X in src_names."""
        if node.kind != "test" or not isinstance(node.ast, ast.Compare) or len(node.ast.ops) != 1 or not isinstance(node.ast.ops[0], ast.Eq):
            return False
        l, r = node.ast.left, node.ast.comparators[0]
        for a, b in ((l, r), (r, l)):
            if isinstance(a, ast.Attribute) and a.attr == "shape" and isinstance(a.value, ast.Name) and a.value.id in src_names \
                    and norm_src(b) == f"(len({rows}), len({cols}))":
                return True
        return False

    # R2 every data extension dominated by the check (True edge of an assert)
    for node in cfg.nodes:
        call = _ext(node, "data")
        if call is None:
            continue
        # source variable of the data
        src = {x.id for x in ast.walk(call.args[0]) if isinstance(x, ast.Name)} if call.args else set()
        # follow one level `coo = value.tocoo()`
        srcs = set(src)
        for n2 in walk_no_nested(fn):
            if isinstance(n2, ast.Assign) and isinstance(n2.targets[0], ast.Name) and n2.targets[0].id in src:
                srcs |= {x.id for x in ast.walk(n2.value) if isinstance(x, ast.Name)}
        ok = False
        for t in cfg.nodes:
            if shape_test(t, srcs) and isinstance(t.owner, ast.Assert) and cfg.dominates(t, node):
                # rows/cols/value not re-bound between the check and the extension
                rebound = False
                between = cfg.reachable_from([(t, True)]) 
                for b in between:
                    if b.kind == "stmt" and isinstance(b.ast, ast.Assign) and cfg.dominates(t, b) and cfg.can_reach([b], node):
                        tg = {x.id for tt in b.ast.targets for x in ast.walk(tt) if isinstance(x, ast.Name)}
                        if tg & {rows, cols, valp}:
                            rebound = True
                if not rebound:
                    ok = True
            if shape_test(t, srcs) and isinstance(t.owner, ast.If) and cfg.dominates(t, node):
                # `if shape != ...: raise` form: accept when the False... conservative: accept Eq-True edge only
                if not cfg.can_reach([(t, False)], node):
                    ok = True
        if ok:
            rep.ok("C15.R2", C, f"shape check dominates {norm_src(node.ast)}")
        else:
            rep.bad("C15.R2", C, node.ast, "block is appended without a dominating check value.shape == (len(rows), len(cols)): "
                    "a write with an inconsistent block shape is not rejected", f"{COO}:{node.lineno}")

    # R3 None no-op
    none_tests = [t for t in cfg.nodes if t.kind == "test" and isinstance(t.ast, ast.Compare) and isinstance(t.ast.left, ast.Name)
                  and t.ast.left.id == valp and isinstance(t.ast.ops[0], (ast.Is, ast.IsNot)) and isinstance(t.ast.comparators[0], ast.Constant)
                  and t.ast.comparators[0].value is None]
    if not none_tests:
        rep.bad("C15.R3", C, "value is not None", "no `value is None` test: a None block is not a no-op", f"{COO}:{fn.lineno}")
    else:
        t = none_tests[0]
        none_label = isinstance(t.ast.ops[0], ast.Is)
        reach = cfg.reachable_from([(t, none_label)])
        touched = [n for n in reach if any(_ext(n, w) is not None for w in ("data", "row", "col")) or n is cfg.raise_exit]
        dominated = all(cfg.dominates(t, n) for n in cfg.nodes if _ext(n, "data") is not None)
        if touched or not dominated or cfg.exit not in reach:
            rep.bad("C15.R3", C, t.ast, "the None branch does not reach the exit untouched (None must add no contribution)", f"{COO}:{t.lineno}")
        else:
            rep.ok("C15.R3", C, f"`{norm_src(t.ast)}`: None branch reaches exit without extending data/row/col")

    # R4 axis pairing
    for name, axis in ((rows, 0), (cols, 1)):
        found = False
        for n in walk_no_nested(fn):
            if isinstance(n, ast.If) and norm_src(n.test) == f"isinstance({name}, slice)":
                found = True
                body = norm_src(n.body[0]) if n.body else ""
                want = f"{name} = arange(*{name}.indices(self.shape[{axis}]))"
                if body == want:
                    rep.ok("C15.R4", C, body)
                else:
                    rep.bad("C15.R4", C, n.body[0] if n.body else n, f"slice index for `{name}` must be expanded over self.shape[{axis}]", f"{COO}:{n.lineno}")
        if not found:
            rep.bad("C15.R4", C, f"isinstance({name}, slice)", f"slice keys for `{name}` are no longer expanded", f"{COO}:{fn.lineno}")
    for node in cfg.nodes:
        for which, idx, other in (("row", rows, cols), ("col", cols, rows)):
            call = _ext(node, which)
            if call is None:
                continue
            arg = _bound_arg(call, which)
            if arg is None:
                rep.note(f"C15.R4: {norm_src(node.ast)[:60]}: argument appended to self.{which} not resolvable through the helper")
                continue
            names = {x.id for x in ast.walk(arg) if isinstance(x, ast.Name)}
            if isinstance(arg, ast.Subscript):
                # rows[X.row] / cols[X.col]
                good = isinstance(arg.value, ast.Name) and arg.value.id == idx and isinstance(arg.slice, ast.Attribute) and arg.slice.attr == which
                if good:
                    rep.ok("C15.R4", C, node.ast)
                else:
                    rep.bad("C15.R4", C, node.ast, f"self.{which} must be extended with {idx}[<block>.{which}]", f"{COO}:{node.lineno}")
            elif isinstance(arg, ast.Call) and isinstance(arg.func, ast.Attribute) and dotted(arg.func.value) in ("self", "CooMatrix") and arg.func.attr in cls.methods \
                    and len(arg.args) == 2:
                # index-mapping helper of the container:  self._map(rows, X.row)  must BE the fancy-index map rows[X.row]
                h = cls.methods[arg.func.attr]
                hp = [a.arg for a in h.args.args]
                if hp and hp[0] in ("self", "cls"):
                    hp = hp[1:]
                a0, a1 = arg.args
                pair_ok = isinstance(a0, ast.Name) and a0.id == idx and isinstance(a1, ast.Attribute) and a1.attr == which
                if not pair_ok or len(hp) != 2:
                    rep.bad("C15.R4", C, node.ast, f"self.{which} must be extended with {idx}[<block>.{which}] (helper `{arg.func.attr}` called with other operands)", f"{COO}:{node.lineno}")
                    continue
                D, Lc = hp
                rets = [r for r in ast.walk(h) if isinstance(r, ast.Return) and r.value is not None]
                from ..model import guards_of as _go
                verdict = "ok"
                for r in rets:
                    v = r.value
                    if isinstance(v, ast.Subscript) and isinstance(v.value, ast.Name) and v.value.id == D and isinstance(v.slice, ast.Name) and v.slice.id == Lc:
                        continue
                    # another formula on a guarded path: sound only if the guard establishes a whole-array fact about D.  A guard that reads D at
                    # fixed positions and through len() only cannot (index arrays are arbitrary: permuted, repeated)
                    gs = []
                    up = getattr(r, "_parent", None)
                    while up is not None and up is not h:
                        if isinstance(up, ast.If):
                            gs.append(up)
                        up = getattr(up, "_parent", None)
                    # an early return above makes the fall-through guarded as well
                    for st_ in h.body:
                        if isinstance(st_, ast.If) and st_ not in gs and st_.lineno < r.lineno and any(isinstance(x, ast.Return) for x in ast.walk(st_)):
                            gs.append(st_)
                    whole = False
                    for g in gs:
                        for w in ast.walk(g.test):
                            if isinstance(w, ast.Name) and w.id == D:
                                pw = getattr(w, "_parent", None)
                                fixed = (isinstance(pw, ast.Subscript) and pw.value is w and not isinstance(pw.slice, ast.Slice) and not any(isinstance(z, ast.Name) for z in ast.walk(pw.slice))) \
                                    or (isinstance(pw, ast.Call) and dotted(pw.func) == "len")
                                if not fixed:
                                    whole = True
                    if whole:
                        verdict = "unknown" if verdict == "ok" else verdict
                    else:
                        verdict = "bad"
                        rep.bad("C15.R4", C, r, f"index helper `{arg.func.attr}` returns `{norm_src(v)}` instead of `{D}[{Lc}]` on a path whose guard reads `{D}` only at fixed positions / through its "
                                f"length ({'; '.join(norm_src(g.test) for g in gs)[:120]}): that cannot establish that the index array is an ascending contiguous range, so permuted or repeated "
                                "index arrays with matching end points are written to the wrong rows / columns", f"{COO}:{r.lineno}")
                if verdict == "ok":
                    rep.ok("C15.R4", C, f"{norm_src(node.ast)[:70]}: helper `{arg.func.attr}` is the fancy-index map {D}[{Lc}]")
                elif verdict == "unknown":
                    rep.ok("C15.R4", C, f"{norm_src(node.ast)[:70]}: helper `{arg.func.attr}` has a shortcut under a whole-array guard (no verdict)", verdict="unknown")
            elif isinstance(arg, ast.Call):
                # dense branch: find ravel order of the sibling data extension
                order = _dense_order(cfg, node)
                fname = dotted(arg.func)
                a = [norm_src(x) for x in arg.args]
                if order == "C":
                    want = ("repeat", [rows, f"len({cols})"]) if which == "row" else ("tile", [cols, f"len({rows})"])
                elif order == "F":
                    want = ("tile", [rows, f"len({cols})"]) if which == "row" else ("repeat", [cols, f"len({rows})"])
                elif order in ("K", "A"):
                    rep.bad("C15.R4", C, node.ast, f"the dense block is flattened in MEMORY order (ravel(order={order!r})): where an entry lands then depends on the strides of the array the caller "
                            "happened to pass; an index pattern chosen from the contiguity flags covers C- and F-contiguous blocks only - a slice or strided view of a transposed array is "
                            "neither, its data come out column-major and are paired with the row-major pattern", f"{COO}:{node.lineno}")
                    continue
                else:
                    rep.note("C15.R4: dense ravel order not recognised"); continue
                if fname and fname.split(".")[-1] == want[0] and a == want[1]:
                    rep.ok("C15.R4", C, f"{norm_src(node.ast)} with ravel order {order}")
                else:
                    rep.bad("C15.R4", C, node.ast, f"dense block flattened in {order} order requires self.{which}.extend({want[0]}({', '.join(want[1])}))", f"{COO}:{node.lineno}")
            else:
                if idx not in names:
                    rep.bad("C15.R4", C, node.ast, f"self.{which} is extended without using `{idx}`", f"{COO}:{node.lineno}")
    ts = cls.methods.get("tosparse")
    if ts is None:
        raise AnalysisError("CooMatrix.tosparse vanished")
    ok = False
    for n in ast.walk(ts):
        if isinstance(n, ast.Call) and n.args and isinstance(n.args[0], ast.Tuple):
            if norm_src(n.args[0]) == "(self.data, (self.row, self.col))" and any(k.arg == "shape" and norm_src(k.value) == "self.shape" for k in n.keywords):
                ok = True
            else:
                rep.bad("C15.R4", f"{COO}:CooMatrix.tosparse", n, "scipy constructor must receive (self.data, (self.row, self.col)), shape=self.shape", f"{COO}:{n.lineno}")
                ok = None
    if ok:
        rep.ok("C15.R4", f"{COO}:CooMatrix.tosparse", "(self.data, (self.row, self.col)), shape=self.shape")
    elif ok is False:
        rep.bad("C15.R4", f"{COO}:CooMatrix.tosparse", "tosparse", "constructor call not recognised", f"{COO}:{ts.lineno}")

    # R5 formats
    fmts = {}
    for rel, mod in ctx.repo.modules.items():
        for n in ast.walk(mod.tree):
            if isinstance(n, ast.keyword) and n.arg == "format" and isinstance(n.value, ast.Constant) and isinstance(n.value.value, str):
                fmts.setdefault(n.value.value, f"{rel}:{n.value.lineno}")
            if isinstance(n, ast.Call) and isinstance(n.func, ast.Attribute) and n.func.attr == "asformat" and n.args and isinstance(n.args[0], ast.Constant):
                fmts.setdefault(n.args[0].value, f"{rel}:{n.lineno}")
            if isinstance(n, ast.arguments):
                for a, d in zip(reversed(n.args), reversed(n.defaults)):
                    if a.arg == "format" and isinstance(d, ast.Constant) and isinstance(d.value, str):
                        fmts.setdefault(d.value, f"{rel}:{d.lineno}")
    for f, where in sorted(fmts.items()):
        if "to" + f in cls.methods:
            rep.ok("C15.R5", f"{COO}:CooMatrix.asformat", f"format '{f}' (first used at {where}) -> to{f}")
        else:
            rep.bad("C15.R5", f"{COO}:CooMatrix.asformat", f"format='{f}'", f"format '{f}' used at {where} has no CooMatrix.to{f}", where)
    # R6 accessors
    props = {}
    for s in cls.node.body:
        if isinstance(s, ast.FunctionDef) and s.name in ("data", "row", "col"):
            deco = [norm_src(d) for d in s.decorator_list]
            kind = "get" if "property" in deco else ("set" if f"{s.name}.setter" in deco else None)
            if kind:
                props[(s.name, kind)] = s
    for w in ("data", "row", "col"):
        g, st = props.get((w, "get")), props.get((w, "set"))
        if g is None:
            raise AnalysisError(f"CooMatrix.{w} property vanished")
        body = norm_src(g.body[-1])
        if body == f"return self.__{w}":
            rep.ok("C15.R6", f"{COO}:CooMatrix.{w}", body)
        else:
            rep.bad("C15.R6", f"{COO}:CooMatrix.{w}", g.body[-1], f"getter of `{w}` must return self.__{w}", f"{COO}:{g.lineno}")
        if st is not None:
            body = norm_src(st.body[-1])
            if body == f"self.__{w} = {st.args.args[1].arg}":
                rep.ok("C15.R6", f"{COO}:CooMatrix.{w}.setter", body)
            else:
                rep.bad("C15.R6", f"{COO}:CooMatrix.{w}.setter", st.body[-1], f"setter of `{w}` must assign self.__{w}", f"{COO}:{st.lineno}")


def _dense_order(cfg, node):
    """ravel order used by the data extension in the same basic block as `node`."""
    from ..core import parent
    blks = []
    child, p = node.ast, parent(node.ast)
    while p is not None and not isinstance(p, (ast.FunctionDef, ast.ClassDef)):
        for fld in ("body", "orelse"):
            b = getattr(p, fld, None)
            if isinstance(b, list) and any(s is child for s in b):
                blks.append(b)
        child, p = p, parent(p)
    if not blks:
        return None
    for s in [s_ for b_ in blks for s_ in b_]:
        darg = None
        if isinstance(s, ast.Expr) and isinstance(s.value, ast.Call) and dotted(s.value.func) in ("self.data.extend",):
            darg = s.value.args[0]
        elif isinstance(s, ast.Expr) and isinstance(s.value, ast.Call) and isinstance(s.value.func, ast.Attribute) and dotted(s.value.func.value) == "self" and s.value.func.attr in HELPERS:
            darg = _bound_arg(s.value, "data")
        if darg is not None:
            for c in ast.walk(darg):
                if isinstance(c, ast.Call) and isinstance(c.func, ast.Attribute) and c.func.attr in ("ravel", "flatten"):
                    for k in c.keywords:
                        if k.arg == "order" and isinstance(k.value, ast.Constant):
                            return k.value.value
                    if c.args and isinstance(c.args[0], ast.Constant):
                        return c.args[0].value
                    return "C"
    return None


MUTANTS = [
    dict(id="c15-m1", canary=True, what="dense branch: shape assert deleted", file=COO,
         old='                value = atleast_2d(value)\n                assert value.shape == (len(rows), len(cols)), "inconsistent assignment"\n',
         new='                value = atleast_2d(value)\n', expect="C15.R2"),
    dict(id="c15-m2", what="sparray branch: col extension dropped", file=COO,
         old="                self.col.extend(cols[coo.col])\n", new="", expect="C15.R1"),
    dict(id="c15-m3", canary=True, what="repeat/tile swapped", file=COO,
         old="self.row.extend(repeat(rows, len(cols)))", new="self.row.extend(tile(rows, len(cols)))", expect="C15.R4"),
    dict(id="c15-m4", what="ravel order F with C index layout", file=COO,
         old='value.ravel(order="C")', new='value.ravel(order="F")', expect="C15.R4"),
    dict(id="c15-m5", what="cols slice expanded over shape[0]", file=COO,
         old="cols = arange(*cols.indices(self.shape[1]))", new="cols = arange(*cols.indices(self.shape[0]))", expect="C15.R4"),
    dict(id="c15-m6", what="CooMatrix branch: rows indexed with value.col", file=COO,
         old="self.row.extend(rows[value.row])", new="self.row.extend(rows[value.col])", expect="C15.R4"),
    dict(id="c15-m7", what="tosparse: row and col swapped", file=COO,
         old="(self.data, (self.row, self.col)), shape=self.shape", new="(self.data, (self.col, self.row)), shape=self.shape", expect="C15.R4"),
    dict(id="c15-m8", what="None check removed", file=COO,
         old="        if value is not None:\n", new="        if True:\n", expect="C15.R3"),
    dict(id="c15-m9", what="tocsc removed although System passes format='csc' somewhere", file=COO,
         old="    def tocsc(self, copy=False):", new="    def tocsc_(self, copy=False):", expect="C15.R5"),
    dict(id="c15-m10", what="shape assert checks the transposed shape", file=COO,
         old='                value = atleast_2d(value)\n                assert value.shape == (len(rows), len(cols)), "inconsistent assignment"\n',
         new='                value = atleast_2d(value)\n                assert value.shape == (len(cols), len(rows)), "inconsistent assignment"\n', expect="C15.R2"),
    dict(id="c15-m11", what="row getter returns the col array", file=COO,
         old="    def row(self):\n        return self.__row", new="    def row(self):\n        return self.__col", expect="C15.R6"),
]
MUTANTS += [
    dict(id="c15-seed", canary=True, what="[seeded by sub-agent] CooMatrix.toarray fills a dense array with A[row, col] += data (duplicates lost)", file=COO,
         old="        return self.tocoo(copy).toarray()\n", new="        import numpy as _np\n        A = _np.zeros(self.shape, dtype=float)\n        A[_np.asarray(self.row, dtype=int), _np.asarray(self.col, dtype=int)] += self.data\n        return A\n", expect="C15.R7"),
    dict(id="c15-r7-2", what="tocsr built from a dict of keys (last write wins)", file=COO,
         old="        return self.tosparse(csr_array, copy=copy)", new="        return csr_array(dict(zip(zip(self.row, self.col), self.data)))", expect="C15.R7"),
]
NEUTRAL = [
    dict(id="c15-n1", canary=True, what="assert rewritten with a different message", file=COO,
         old='                assert value.shape == (len(rows), len(cols)), "inconsistent assignment"\n\n                # extend arrays from given CooMatrix',
         new='                assert value.shape == (len(rows), len(cols)), "shape mismatch"\n\n                # extend arrays from given CooMatrix'),
]
MUTANTS += [
    dict(id="c15-r8-seed", canary=True, what="[seeded by sub-agent] sparse branch appends the value buffer with frombytes without a cast to double", file=COO,
         old="                self.data.extend(coo.data)\n", new="                self.data.frombytes(coo.data.tobytes())\n", expect="C15.R8"),
]
NEUTRAL += [
    dict(id="c15-n-r8", canary=True, what="sparse branch appends the value buffer with frombytes after a cast to float64", file=COO,
         old="                self.data.extend(coo.data)\n", new="                self.data.frombytes(coo.data.astype(float).tobytes())\n"),
]
MUTANTS += [
    dict(id="c15-r9-seed", canary=True, what="[seeded by sub-agent] dense branch stores only the entries with abs(value) > 0 (nan is dropped)", file=COO,
         old="                self.data.extend(value.ravel(order=\"C\"))\n                self.row.extend(repeat(rows, len(cols)))\n                self.col.extend(tile(cols, len(rows)))\n",
         new="                data_ = value.ravel(order=\"C\")\n                nonzero = abs(data_) > 0.0\n                self.data.extend(data_[nonzero])\n                self.row.extend(repeat(rows, len(cols))[nonzero])\n                self.col.extend(tile(cols, len(rows))[nonzero])\n",
         expect="C15.R9"),
]
NEUTRAL += [
    dict(id="c15-n-helper", canary=True, what="the three appends of the dense branch factored into a helper method (no filtering)", file=COO,
         edits=[(COO, "                self.data.extend(value.ravel(order=\"C\"))\n                self.row.extend(repeat(rows, len(cols)))\n                self.col.extend(tile(cols, len(rows)))\n",
                 "                self._append(value.ravel(order=\"C\"), repeat(rows, len(cols)), tile(cols, len(rows)))\n"),
                (COO, "    def extend(self, matrix, DOF):", "    def _append(self, data, row, col):\n        self.data.extend(data)\n        self.row.extend(row)\n        self.col.extend(col)\n\n    def extend(self, matrix, DOF):")]),
]

MUTANTS += [
    dict(id="c15-r4-seed", canary=True, what="[seeded by sub-agent] nested / sparse blocks mapped through a helper with an end-point 'contiguity' shortcut DOF[0] + local", file='cardillo/utility/coo_matrix.py',
         edits=[('cardillo/utility/coo_matrix.py', 'from numpy import repeat, tile, atleast_1d, atleast_2d, arange\n', 'from numpy import repeat, tile, atleast_1d, atleast_2d, arange, asarray\n'), ('cardillo/utility/coo_matrix.py', '    def __setitem__(self, key, value):\n', '    @staticmethod\n    def _global_index(DOF, local):\n        local = asarray(local)\n        if len(DOF) and DOF[-1] - DOF[0] == len(DOF) - 1:\n            return DOF[0] + local\n        return DOF[local]\n\n    def __setitem__(self, key, value):\n'), ('cardillo/utility/coo_matrix.py', '                self.row.extend(rows[value.row])\n                self.col.extend(cols[value.col])\n', '                self.row.extend(self._global_index(rows, value.row))\n                self.col.extend(self._global_index(cols, value.col))\n'), ('cardillo/utility/coo_matrix.py', '                self.row.extend(rows[coo.row])\n                self.col.extend(cols[coo.col])\n', '                self.row.extend(self._global_index(rows, coo.row))\n                self.col.extend(self._global_index(cols, coo.col))\n')], expect="C15.R4"),
]
NEUTRAL += [
    dict(id="c15-n-r4h", canary=True, what="nested / sparse blocks mapped through a helper that is the plain fancy-index map", file='cardillo/utility/coo_matrix.py', edits=[('cardillo/utility/coo_matrix.py', 'from numpy import repeat, tile, atleast_1d, atleast_2d, arange\n', 'from numpy import repeat, tile, atleast_1d, atleast_2d, arange, asarray\n'), ('cardillo/utility/coo_matrix.py', '    def __setitem__(self, key, value):\n', '    @staticmethod\n    def _global_index(DOF, local):\n        local = asarray(local)\n        return DOF[local]\n\n    def __setitem__(self, key, value):\n'), ('cardillo/utility/coo_matrix.py', '                self.row.extend(rows[value.row])\n                self.col.extend(cols[value.col])\n', '                self.row.extend(self._global_index(rows, value.row))\n                self.col.extend(self._global_index(cols, value.col))\n'), ('cardillo/utility/coo_matrix.py', '                self.row.extend(rows[coo.row])\n                self.col.extend(cols[coo.col])\n', '                self.row.extend(self._global_index(rows, coo.row))\n                self.col.extend(self._global_index(cols, coo.col))\n')]),
]

MUTANTS += [
    dict(id="c15-r4-memorder", canary=True, what="[seeded by sub-agent] dense blocks are appended in memory order (ravel(order='K')) with the index pattern chosen from flags.f_contiguous", file=COO,
         old='                self.data.extend(value.ravel(order="C"))\n                self.row.extend(repeat(rows, len(cols)))\n                self.col.extend(tile(cols, len(rows)))\n', new='                self.data.extend(value.ravel(order="K"))\n                if value.flags.f_contiguous:\n                    self.row.extend(tile(rows, len(cols)))\n                    self.col.extend(repeat(cols, len(rows)))\n                else:\n                    self.row.extend(repeat(rows, len(cols)))\n                    self.col.extend(tile(cols, len(rows)))\n', expect="C15.R4"),
]

MUTANTS += [
    dict(id="c15-r10-seed", canary=True, what="[seeded by sub-agent] an empty container that receives a nested container as a whole takes over its storage arrays instead of copying", file=COO,
         old='                # extend arrays from given CooMatrix\n                self.data.extend(value.data)\n', new="                if len(self.data) == 0 and value.shape == self.shape:\n                    self.data = value.data\n                    return\n"+'                # extend arrays from given CooMatrix\n                self.data.extend(value.data)\n', expect="C15.R10"),
]
