"""C07  Force elements are energetically consistent and passive.

Structural clauses decided:
 R1 E_pot totality     "evaluating the total potential energy of any assembled system succeeds": every class that gets
                       registered under 'E_pot' accepts the call System.E_pot makes, and
 R2 E_pot protocol     every `self.X` read in the callables reachable from E_pot resolves (MRO + external setters) and no
                       callable attribute is used as an array; helper calls inside the class match the helper's signature
 R3 energy<->force     the generalized force of an element that reports an energy references the force direction of every
                       kinematic quantity its energy evaluates (no energy term without a force term)
 R4 compliance form    a compliance-form law that registers `c` provides c_la_c, W_c, la_c, Wla_c_q and its compliance
                       residual is built from the same length / rate accessors as the force form (l, l_dot)
"""
from __future__ import annotations

import ast

from ..core import AnalysisError, dotted, norm_src, arity
from .. import sysmodel, protocol, deriv

EXPLANATION = ("Co-definition of the E_pot list key and its callee over all contribution classes; attribute resolution, "
               "callable misuse and intra-class call arity in everything reachable from E_pot; K5-style coverage between "
               "the atoms of the energy and the references of the generalized force.")
NOT_DECIDED = ("the power balance itself, passivity (sign of dissipation) and the compliance identity at the force-form force: "
               "value facts; only term coverage is decided.")
ASSUMPTIONS = ["rod attributes live on the rod object: a load referring to rod data must go through self.rod"]
BLIND_SPOTS = ["wrong sign or factor of an energy or force term"]


def _potential_force(ctx, cE):
    """does cE's own `h` belong to cE's `E_pot`?  The energy is computed from a constitutive sub-object (`self.material_model.potential(...)`,
    a force law, ...): the set of attributes on which E_pot's call closure invokes methods.  cE.h is the force of that energy only if its
    closure touches one of them.  Without such a sub-object the question is not decidable here and the pairing is assumed (the rule's
    original reading)."""
    view = protocol.ClassView(ctx, cE)

    def closure(root):
        objs, attrs = set(), set()
        for name, bodies in view.reachable([root]).items():
            for (c, body, kind) in bodies:
                for w in ast.walk(body):
                    if isinstance(w, ast.Call) and isinstance(w.func, ast.Attribute) and isinstance(w.func.value, ast.Attribute) and dotted(w.func.value.value) == "self":
                        objs.add(w.func.value.attr)
                    elif isinstance(w, ast.Attribute) and dotted(w.value) == "self" and isinstance(w.ctx, ast.Load):
                        attrs.add(w.attr)
        return objs, attrs
    oE, aE = closure("E_pot")
    oh, ah = closure("h")
    if not oE:
        return True
    return bool(oE & (oh | ah))


def same_parameters_in_both_forms(ctx, rule="C07.R13"):
    """K13 (dependence monotonicity, live references vs constructor copies) between the sibling forms of one scalar force law: the attributes
    read by the compliance routines (_c, _c_l, _c_l_dot, c_la_c) must be attributes the force / energy routines (_la_c, _la_c_l, _la_c_l_dot,
    _E_pot) read as well."""
    rep = ctx.rep
    n = 0
    for ci in ctx.model.all_classes():
        if not ci.rel.startswith("cardillo/force_laws/") or "_c" not in ci.methods or "_la_c" not in ci.methods:
            continue
        n += 1
        C = f"{ci.rel}:{ci.qual}"

        def attrs(names):
            out = {}
            for m in names:
                f = ci.methods.get(m)
                if f is None:
                    continue
                for w in ast.walk(f):
                    if isinstance(w, ast.Attribute) and dotted(w.value) == "self" and isinstance(w.ctx, ast.Load) and w.attr not in ci.methods:
                        out.setdefault(w.attr, w)
            return out
        force = attrs(("_la_c", "_la_c_l", "_la_c_l_dot", "_E_pot"))
        comp = attrs(("_c", "_c_l", "_c_l_dot", "c_la_c"))
        extra = {a: w for a, w in comp.items() if a not in force}
        if extra:
            a, w = sorted(extra.items())[0]
            rep.bad(rule, C, w, f"the compliance form reads self.{a}, which the force form / the energy of {ci.qual} do not read (they read {sorted(force)}): a parameter stored twice - once live, once as a "
                    "constructor-time copy - lets the two forms of one element disagree as soon as the parameter is changed on the existing element (re-assembly does not heal it)",
                    f"{ci.rel}:{w.lineno}")
        else:
            rep.ok(rule, C, f"compliance and force form read the same parameters {sorted(comp)}")
    if n < 2:
        raise AnalysisError(f"{rule}: fewer than 2 force laws with both forms found")


def system_force_accumulation(ctx, rule="C07.R11"):
    rep = ctx.rep
    rel = "cardillo/system.py"
    fn = ctx.repo.get(rel, "System.h")
    C = f"{rel}:System.h"
    n = 0
    for w in ast.walk(fn):
        if isinstance(w, ast.AugAssign) and isinstance(w.target, ast.Subscript) and isinstance(w.target.slice, ast.Attribute) and w.target.slice.attr == "uDOF":
            n += 1
            rep.bad(rule, C, w, f"`{norm_src(w)[:70]}` is a buffered fancy-index accumulation on a DOF table that can repeat indices (TwoPointInteraction.uDOF = (uDOF1, uDOF2) of one body): "
                    "one of the two end-point forces is dropped from System.h while the COO-assembled Jacobians and W_c keep both", f"{rel}:{w.lineno}")
        elif isinstance(w, ast.Call) and (dotted(w.func) or "").endswith("add.at") and len(w.args) >= 2 and isinstance(w.args[1], ast.Attribute) and w.args[1].attr == "uDOF":
            n += 1
            rep.ok(rule, C, f"`{norm_src(w)[:70]}`: unbuffered")
    if n < 1:
        rep.ok(rule, C, "no accumulation on contr.uDOF recognised (no verdict)", verdict="unknown", trivial=True)


def energy_force_pairing(ctx):
    """System.E_pot sums every contribution with a callable E_pot.  If a base class defines E_pot AND h (the energy of that force), a
    subclass that replaces h but keeps the inherited E_pot reports the energy of a force it no longer exerts (e.g. a follower force
    inheriting the dead load's potential)."""
    rep = ctx.rep
    model = ctx.model
    n = 0
    for ci in model.all_classes():
        if not ci.rel.startswith("cardillo/") or ci.qual == "System":
            continue
        for v in model.variants(ci)[:1]:
            view = protocol.ClassView(ctx, ci, v)
            cE, fE = view.method("E_pot")
            ch, fh = view.method("h")
            if fE is None or fh is None or cE is None or ch is None:
                continue
            if view.kind("E_pot") != "method":
                continue  # a class attribute / store in a more derived class hides the inherited method (E_pot = None: no energy reported)
            n += 1
            C = f"{ci.rel}:{ci.qual}"
            if cE is ch:
                rep.ok("C07.R8", C, f"E_pot and h are both defined by {cE.qual}")
            elif "h" in cE.methods and not _potential_force(ctx, cE):
                rep.ok("C07.R8", C, f"E_pot from {cE.qual}; {cE.qual}.h does not use the constitutive object that energy is computed from (a non-potential force, e.g. gyroscopic), h from {ch.qual}")
            elif "h" in cE.methods:
                rep.bad("C07.R8", C, fh.name, f"`{ci.qual}` takes `h` from {ch.qual} but `E_pot` from {cE.qual}, which defines its own `h`: the inherited energy is the potential of "
                        f"{cE.qual}'s force, not of the force {ch.qual}.h exerts; System.E_pot and the element's power balance are wrong for this element", f"{ci.rel}:{fh.lineno}")
            else:
                rep.ok("C07.R8", C, f"E_pot from {cE.qual} (which defines no h of its own: template with element routines), h from {ch.qual}")
    if n < 5:
        raise AnalysisError(f"C07.R8: only {n} classes with both E_pot and h found")


def run(ctx):
    rep = ctx.rep
    rep.rule("C07.R9", "force elements and interactions do not modify in place what (possibly memoised) subsystem kinematics hand out (K18): energy, force and compliance residual stay functions of the state", 5)
    from .. import cachepurity as _cp
    _cp.report(ctx, "C07.R9", ("cardillo/interactions/", "cardillo/force_laws/", "cardillo/forces/", "cardillo/actuators/"), check_returns=False, floor_note=False)
    rep.rule("C07.R10", "memoised kinematics of force elements (length, rate, directions) are keyed by every argument the result depends on - a rate served from a cache keyed by (t, q) only makes the force, hence the power balance, a function of a stale velocity", 0)
    from . import c26 as _c26
    _dirs = ("cardillo/interactions/", "cardillo/force_laws/", "cardillo/forces/", "cardillo/actuators/")
    _c26.r1_keys(ctx, _c26.find_sites(ctx), rule="C07.R10", want_cls=lambda ci: ci.rel.startswith(_dirs))
    _c26.handmade_memo(ctx, "C07.R10", lambda rel: rel.startswith(_dirs))
    rep.rule("C07.R13", "force form, energy and compliance form of one law read the SAME parameter attributes (k, d, l_ref): the compliance routines use no constructor-time copy derived from them (1 / k stored once), or changing a parameter of an existing element makes c(la_c(state)) != 0 and the transmitted force differ from dE_pot/dl", 2)
    same_parameters_in_both_forms(ctx)
    rep.rule("C07.R12", "a force law re-derives its DOF tables on EVERY assembly: it runs its subsystem's assembler_callback unconditionally before copying qDOF / uDOF (a stale copy makes System.E_pot read, and System.h / W_c scatter to, coordinates that are no longer the element's)", 2)
    from .c14 import r13_subsystem_first
    r13_subsystem_first(ctx, rule="C07.R12", want=lambda rel: rel.startswith("cardillo/force_laws/"), floor=2)
    rep.rule("C07.R11", "System.h adds each element's generalized force UNBUFFERED on the element's velocity DOFs (np.add.at): the DOF table of an interaction between two points of one body / rod repeats indices, and a fancy-index `+=` keeps one summand per index - the element's power in System.h is then not -dE_pot/dt and the force form disagrees with W_c la_c", 1)
    system_force_accumulation(ctx)
    rep.rule("C07.R1", "E_pot dispatch totality", 5)
    rep.rule("C07.R2", "attribute resolution / callable misuse / helper arity under E_pot", 8)
    rep.rule("C07.R3", "energy atoms are covered by the generalized force", 3)
    rep.rule("C07.R4", "compliance form provides the full protocol from the same accessors", 4)
    rep.rule("C07.R6", "Revolute as scalar subsystem: angle l and rate l_dot / force direction W_l are oriented about the same axis (else power = +dE/dt)", 2)
    from .c25 import orientation_rule
    orientation_rule(ctx, "C07.R6")
    rep.rule("C07.R8", "an energy is inherited only together with the force it belongs to: no class overrides h (or its element routine) while inheriting E_pot from a base that pairs E_pot with its own h", 5)
    energy_force_pairing(ctx)
    rep.rule("C07.R7", "dependence monotonicity (K13): the generalized force of a conservative element reads no datum (quadrature rule, stiffness, reference) its energy does not read", 5)
    from .. import depmono
    for cname_, pairs_ in (("Force_line_distributed", [("E_pot_el", "h_el")]), ("Force", [("E_pot", "h")]), ("Spring", [("_E_pot", "_la_c")]),
                           ("MaxwellElement", [("E_pot", "h")]), ("CosseratRodDisplacementBased", [("E_pot_el", "f_int_el")])):
        ci_ = ctx.model.cls(cname_)
        v_ = protocol.ClassView(ctx, ci_, ctx.model.variants(ci_)[0])
        for p_, d_ in pairs_:
            c_, f_ = v_.method(d_)
            if f_ is None:
                raise AnalysisError(f"{cname_}.{d_} vanished")
            depmono.check(rep, "C07.R7", v_, ci_.rel, cname_, p_, d_, lineno=f_.lineno)
    rep.rule("C07.R5", "energy, force direction and Jacobian of one force element refer to the same material point (xi, B_r_CP)", 4)
    owners = []
    for ci in ctx.model.all_classes():
        if ci.rel.startswith(("cardillo/forces/", "cardillo/interactions/")):
            owners.append((ci.qual, ci.rel, ci.node))
    if protocol.point_argument_agreement(ctx, "C07.R5", owners) < 2:
        raise AnalysisError("fewer than 2 force elements with point-protocol calls found")
    _seen.clear()
    sm = sysmodel.SystemModel(ctx)
    sysmodel.codefinition(ctx, sm, "C07.R1", family=lambda p, m: m == "E_pot", require_live=False)
    model = ctx.model
    n = 0
    skip = ("cardillo/system.py", "cardillo/solver/", "cardillo/visualization/", "cardillo/utility/", "cardillo/math/")
    for ci in model.all_classes():
        if ci.rel.startswith(skip):
            continue
        if any(dotted(b) == "ABC" for b in ci.base_exprs) or any(_abstract(f) for f in ci.methods.values()):
            continue  # abstract bases are analysed through their concrete subclasses
        for variant in model.variants(ci):
            view = protocol.ClassView(ctx, ci, variant)
            if view.kind("E_pot") != "method":
                continue
            if _effectively_abstract(view):
                continue
            c0, f0 = view.method("E_pot")
            # analyse where E_pot is defined (avoid re-reporting through every subclass/variant)
            vtag = ",".join(v for _, v in sorted(variant.items()))
            reach = view.reachable(["E_pot"])
            for name, bodies in sorted(reach.items()):
                for (c, body, kind) in bodies:
                    C = f"{c.rel}:{c.qual}.{name}"
                    key = (C,)
                    if key in _seen:
                        continue
                    _seen.add(key)
                    n += 1
                    sn = view.selfname_of(body)
                    bad = False
                    for a in protocol.unresolved_reads(view, body, sn):
                        bad = True
                        hint = ""
                        for recv in ("rod", "subsystem", "frame"):
                            if view.kind(recv) is not None:
                                hint = f" (did the author mean self.{recv}.{a.attr}?)"
                                break
                        rep.bad("C07.R2", C, a, f"`self.{a.attr}` is read under E_pot but never defined on {ci.qual} or its bases{hint}: "
                                f"System.E_pot raises AttributeError for any system containing this element", f"{c.rel}:{a.lineno}")
                    for (expr, op) in protocol.callable_misuse(view, body, sn):
                        bad = True
                        rep.bad("C07.R2", C, expr, f"`self.{op.attr}` is callable but used as an array operand", f"{c.rel}:{expr.lineno}")
                    # intra-class helper arity
                    for call in ast.walk(body):
                        if isinstance(call, ast.Call) and isinstance(call.func, ast.Attribute) and isinstance(call.func.value, ast.Name) \
                                and call.func.value.id == sn and view.kind(call.func.attr) == "method":
                            cc, fn = view.method(call.func.attr)
                            if any(isinstance(a, ast.Starred) for a in call.args):
                                continue
                            mn, mx, kws, haskw = arity(fn)
                            npos = len(call.args)
                            given = [k.arg for k in call.keywords if k.arg]
                            pos_names = [a.arg for a in fn.args.posonlyargs + fn.args.args][1:]
                            missing = [p for p in pos_names[npos:mn - 1] if p not in given]
                            if (mx is not None and npos > mx - 1) or missing:
                                bad = True
                                rep.bad("C07.R2", C, call, f"call does not match {cc.qual}.{call.func.attr}({norm_src(fn.args)})", f"{c.rel}:{call.lineno}")
                    if not bad:
                        rep.ok("C07.R2", C, f"{kind} reachable from E_pot: reads resolve, helper calls match")
            # R3 energy <-> force
            if view.kind("h") is not None or view.kind("_h") is not None:
                k5 = deriv.K5(ctx, ci, variant)
                hname = "h" if view.bodies("h") else "_h"
                C = f"{c0.rel}:{c0.qual}.{hname}"
                if (C, "R3") in _seen:
                    continue
                _seen.add((C, "R3"))
                atoms = k5.atoms("E_pot", "q")
                refs = k5.refs(k5.resolve_alias(hname))
                # follow one more level for element loops (h -> f_pot_el)
                miss, nob = [], 0
                for a in sorted(atoms):
                    ex, nz = k5.companions(a, "E")
                    if not nz:
                        continue
                    nob += 1
                    if not (set(ex) & refs):
                        miss.append((a, nz))
                if miss:
                    for a, nz in miss:
                        rep.bad("C07.R3", C, f"E_pot term through {a}", f"E_pot evaluates `{a}` but the generalized force `{hname}` references none of {nz}: "
                                f"the energy has a term that does no work", f"{c0.rel}:{f0.lineno}")
                elif nob:
                    rep.ok("C07.R3", C, f"energy atoms {sorted(atoms)} covered by the force ({nob} obligations)")
    # R4 compliance form
    cf = model.cls("ScalarForceLawComplianceForm")
    for sub in [c for c in model.all_classes() if cf in model.mro(c) and c is not cf]:
        view = protocol.ClassView(ctx, sub)
        C = f"{sub.rel}:{sub.qual}"
        need = ["c_la_c", "W_c", "Wla_c_q", "la_c", "_c", "_c_l", "_c_l_dot", "_la_c", "_E_pot"]
        miss = [m for m in need if view.kind(m) is None or (view.kind(m) == "method" and _abstract(view.method(m)[1]))]
        if miss:
            rep.bad("C07.R4", C, f"class {sub.name}", f"compliance-form law lacks concrete {miss}", f"{sub.rel}:{sub.node.lineno}")
        else:
            rep.ok("C07.R4", C, f"concrete {need}")
    for m, want in (("__c", {"_c", "l", "l_dot"}), ("la_c", {"_la_c", "l", "l_dot"})):
        fn = (cf.methods.get(m) or model.cls("ScalarForceLawBase").methods.get(m))
        if fn is None:
            raise AnalysisError(f"force-law accessor {m} vanished")
        have = {n.attr for n in ast.walk(fn) if isinstance(n, ast.Attribute) and isinstance(n.value, ast.Name) and n.value.id == "self"}
        C = f"cardillo/force_laws/_base.py:{m}"
        if want <= have:
            rep.ok("C07.R4", C, f"built from {sorted(want)}")
        else:
            rep.bad("C07.R4", C, fn.body[-1], f"does not use {sorted(want - have)}: force form and compliance form no longer describe the same law",
                    f"cardillo/force_laws/_base.py:{fn.lineno}")
    if n < 8:
        raise AnalysisError(f"only {n} callables reachable from E_pot analysed")


def _effectively_abstract(view):
    names = set()
    for c in view.mro:
        names |= set(c.methods)
    for nm in names:
        c, fn = view.method(nm)
        if any(dotted(d) in ("abstractmethod", "abc.abstractmethod") for d in fn.decorator_list):
            return True
    return False


def _abstract(fn):
    body = [s for s in fn.body if not (isinstance(s, ast.Expr) and isinstance(s.value, ast.Constant) and isinstance(s.value.value, str))]
    return len(body) == 1 and isinstance(body[0], ast.Expr) and isinstance(body[0].value, ast.Constant) and body[0].value.value is Ellipsis


_seen = set()

FLD = "cardillo/rods/force_line_distributed.py"
FB = "cardillo/force_laws/_base.py"
MUTANTS = [
    dict(id="c07-m1", canary=True, what="Force_line_distributed.E_pot reads rod data from self (original defect)", file=FLD,
         old="        for el in range(self.rod.nelement):\n            qe = q[self.rod.elDOF[el]]", new="        for el in range(self.nelement):\n            qe = q[self.elDOF[el]]", expect="C07.R2"),
    dict(id="c07-m2", canary=True, what="ScalarForceLawBase.E_pot passes l_dot to the two-argument _E_pot", file=FB,
         old="        return self._E_pot(t, self.l(t, q))", new="        return self._E_pot(t, self.l(t, q), 0.0)", expect="C07.R2"),
    dict(id="c07-m3", what="Force.E_pot takes an extra required argument", file="cardillo/forces/force.py",
         old="    def E_pot(self, t, q):\n        return -(self.force(t) @ self.r_OP(t, q))", new="    def E_pot(self, t, q, u):\n        return -(self.force(t) @ self.r_OP(t, q))", expect="C07.R1"),
    dict(id="c07-m4", what="Force.h no longer uses the Jacobian of the point whose position enters E_pot", file="cardillo/forces/force.py",
         old="    def h(self, t, q, u):\n        return self.force(t) @ self.J_P(t, q)\n\n    def h_q(self, t, q, u):\n        return einsum(\"i,ijk->jk\", self.force(t), self.J_P_q(t, q))\n\n    def export(self, sol_i, **kwargs):\n        points = [self.r_OP(sol_i.t, sol_i.q[self.qDOF])]\n        cells = [(VTK_VERTEX, [0])]\n        cell_data = dict(F=[self.force(sol_i.t)])",
         new="    def h(self, t, q, u):\n        return self.force(t)\n\n    def h_q(self, t, q, u):\n        return einsum(\"i,ijk->jk\", self.force(t), self.J_P_q(t, q))\n\n    def export(self, sol_i, **kwargs):\n        points = [self.r_OP(sol_i.t, sol_i.q[self.qDOF])]\n        cells = [(VTK_VERTEX, [0])]\n        cell_data = dict(F=[self.force(sol_i.t)])", expect="C07.R3"),
    dict(id="c07-m5", what="compliance residual built from a different length accessor", file=FB,
         old="        return self._c(t, self.l(t, q), self.l_dot(t, q, u), la_c)", new="        return self._c(t, self.subsystem.l(t, q), 0.0, la_c)", expect="C07.R4"),
    dict(id="c07-m6", what="Spring loses c_la_c", file="cardillo/force_laws/spring.py",
         old="    def c_la_c(self):\n        return 1 / self.k", new="    def c_la_c_(self):\n        return 1 / self.k", expect="C07.R4"),
]
MUTANTS += [
    dict(id="c07-seed", canary=True, what="[seeded by sub-agent] Force: r_OP (energy) evaluated at the centre of mass, J_P (force) at the eccentric point", file="cardillo/forces/force.py",
         old="        self.r_OP = lambda t, q: subsystem.r_OP(t, q, xi, B_r_CP)\n        self.J_P = lambda t, q: subsystem.J_P(t, q, xi, B_r_CP)\n        self.J_P_q = lambda t, q: subsystem.J_P_q(t, q, xi, B_r_CP)",
         new="        self.r_OP = lambda t, q: subsystem.r_OP(t, q, xi=xi)\n        self.J_P = lambda t, q: subsystem.J_P(t, q, xi=xi, B_r_CP=B_r_CP)\n        self.J_P_q = lambda t, q: subsystem.J_P_q(t, q, xi=xi, B_r_CP=B_r_CP)", expect="C07.R5"),
    dict(id="c07-r5-2", what="TwoPointInteraction: velocity of point 2 taken at the centre of mass", file="cardillo/interactions/two_point_interaction.py",
         old="        self.v_P2 = lambda t, q, u: self.subsystem2.v_P(\n            t, q[self._nq1 :], u[self._nu1 :], self.xi2, self.B_r_CP2\n        )",
         new="        self.v_P2 = lambda t, q, u: self.subsystem2.v_P(\n            t, q[self._nq1 :], u[self._nu1 :], self.xi2\n        )", expect="C07.R5"),
]
MUTANTS += [
    dict(id="c07-r8-seed", canary=True, what="[seeded by sub-agent] B_Force derives from Force and inherits the dead load's potential energy", file="cardillo/forces/force.py",
         old="class B_Force:\n", new="class B_Force(Force):\n", expect="C07.R8"),
    dict(id="c07-r7-seed", canary=True, what="[seeded by sub-agent] Force_line_distributed.h_el integrates with the dynamics quadrature, E_pot_el with the static one", file="cardillo/rods/force_line_distributed.py",
         old="        he = np.zeros(self.rod.nu_element, dtype=float)\n\n        for i in range(self.rod.nquadrature):\n            # extract reference state variables\n            qpi = self.rod.qp[el, i]\n            qwi = self.rod.qw[el, i]\n            Ji = self.rod.J[el, i]",
         new="        he = np.zeros(self.rod.nu_element, dtype=float)\n\n        for i in range(self.rod.nquadrature_dyn):\n            # extract reference state variables\n            qpi = self.rod.qp_dyn[el, i]\n            qwi = self.rod.qw_dyn[el, i]\n            Ji = self.rod.J_dyn[el, i]", expect="C07.R7"),
    dict(id="c07-r6-seed", canary=True, what="[seeded by sub-agent] Revolute.plane_axes = np.delete((0, 1, 2), axis): left-handed pair for axis = 1", file="cardillo/constraints/revolute.py",
         old="        self.plane_axes = np.roll([0, 1, 2], -axis)[1:]", new="        self.plane_axes = np.delete((0, 1, 2), axis)", expect="C07.R6"),
]
NEUTRAL = [
    dict(id="c07-n-r8", what="B_Force derives from Force but declares that it has no potential energy", file="cardillo/forces/force.py",
         old="class B_Force:\n", new="class B_Force(Force):\n    E_pot = None\n"),
    dict(id="c07-n-r5", canary=True, what="Force lambdas rewritten with keyword arguments (same point)", file="cardillo/forces/force.py",
         old="        self.r_OP = lambda t, q: subsystem.r_OP(t, q, xi, B_r_CP)\n", new="        self.r_OP = lambda t, q: subsystem.r_OP(t, q, xi=xi, B_r_CP=B_r_CP)\n"),]
TPI_ = "cardillo/interactions/two_point_interaction.py"
MUTANTS += [
    dict(id="c07-r9-seed", canary=True, what="[seeded by sub-agent] TwoPointInteraction: relative velocity formed in place on the array handed out by subsystem2.v_P (RigidBody memoises it)", file=TPI_,
         old="        return self._n(t, q) @ (self.v_P2(t, q, u) - self.v_P1(t, q, u))\n",
         new="        v_P1P2 = self.v_P2(t, q, u)\n        v_P1P2 -= self.v_P1(t, q, u)\n        return self._n(t, q) @ v_P1P2\n", expect="C07.R9"),
]
NEUTRAL += [
    dict(id="c07-n-r9", canary=True, what="TwoPointInteraction: relative velocity formed in place on a copy", file=TPI_,
         old="        return self._n(t, q) @ (self.v_P2(t, q, u) - self.v_P1(t, q, u))\n",
         new="        v_P1P2 = self.v_P2(t, q, u).copy()\n        v_P1P2 -= self.v_P1(t, q, u)\n        return self._n(t, q) @ v_P1P2\n"),
]

_FB_IMP = ('from abc import ABC, abstractmethod\nimport numpy as np\n', 'from abc import ABC, abstractmethod\nfrom cachetools import cachedmethod, LRUCache\nfrom cachetools.keys import hashkey\nimport numpy as np\n')
_FB_INIT = ('        self.subsystem = subsystem\n        self.l = self.subsystem.l\n        self.l_q = self.subsystem.l_q\n        self.l_dot = self.subsystem.l_dot\n', '        self.subsystem = subsystem\n        self.l = self.subsystem.l\n        self.l_q = self.subsystem.l_q\n        self.l_dot_cache = LRUCache(maxsize=1)\n')
MUTANTS += [
    dict(id="c07-r10-seed", canary=True, what="[seeded by sub-agent] ScalarForceLawBase.l_dot memoised with a key that omits u", file=FB,
         edits=[(FB,) + _FB_IMP, (FB,) + _FB_INIT, (FB,) + ('    def assembler_callback(self):\n        self.subsystem.assembler_callback()\n', '    @cachedmethod(\n        lambda self: self.l_dot_cache,\n        key=lambda self, t, q, u: hashkey(t, *q),\n    )\n    def l_dot(self, t, q, u):\n        return self.subsystem.l_dot(t, q, u)\n\n    def assembler_callback(self):\n        self.subsystem.assembler_callback()\n')], expect="C07.R10"),
]
NEUTRAL += [
    dict(id="c07-n-r10", canary=True, what="ScalarForceLawBase.l_dot memoised with the full key (t, q, u)", file=FB,
         edits=[(FB,) + _FB_IMP, (FB,) + _FB_INIT, (FB,) + ('    def assembler_callback(self):\n        self.subsystem.assembler_callback()\n', '    @cachedmethod(\n        lambda self: self.l_dot_cache,\n        key=lambda self, t, q, u: hashkey(t, *q, *u),\n    )\n    def l_dot(self, t, q, u):\n        return self.subsystem.l_dot(t, q, u)\n\n    def assembler_callback(self):\n        self.subsystem.assembler_callback()\n')]),
]

MUTANTS += [
    dict(id="c07-r11-seed", canary=True, what="[seeded by sub-agent] System.h accumulates with a buffered fancy-index += (fix 91ee499a reverted)", file='cardillo/system.py',
         old="np.add.at(h, contr.uDOF, contr.h(t, q[contr.qDOF], u[contr.uDOF]))", new="h[contr.uDOF] += contr.h(t, q[contr.qDOF], u[contr.uDOF])", expect="C07.R11"),
]

MUTANTS += [
    dict(id="c07-r12-seed", canary=True, what="[seeded by sub-agent] ScalarForceLawBase.assembler_callback assembles its subsystem only if it has no qDOF yet (stale DOF tables on every later assembly)", file='cardillo/force_laws/_base.py',
         old="    def assembler_callback(self):\n        self.subsystem.assembler_callback()\n", new="    def assembler_callback(self):\n        if not hasattr(self.subsystem, \"qDOF\"):\n            self.subsystem.assembler_callback()\n", expect="C07.R12"),
]

MUTANTS += [
    dict(id="c07-r13-seed", canary=True, what="[seeded by sub-agent] Spring precomputes self.compliance = 1 / k in the constructor; the compliance form uses it, force form and energy keep reading self.k", file='cardillo/force_laws/spring.py',
         edits=[('cardillo/force_laws/spring.py', "        self.k = k\n", "        self.k = k\n        self.compliance = 1 / k\n"), ('cardillo/force_laws/spring.py', "        return la_c / self.k + (l - self.l_ref)\n", "        return la_c * self.compliance + (l - self.l_ref)\n")], expect="C07.R13"),
]
