"""C29  VTK export writes what was simulated.

Structural clauses decided:
 R1 dataset/file pairing   in Export.export_contr every loop iteration registers exactly one DataSet and writes exactly one file,
                           both from the same `file_i`, time-stamped with `sol_i.t` of the same iteration, in iteration order;
                           the collection (.pvd) is written after the loop
 R2 index discipline       in every `export` method and everything it calls inside its class, a global solution array
                           (sol_i.q, u, la_c, la_g, P_N, P_F, ...) is subscripted with the contribution's matching global index set
                           (qDOF, uDOF, la_cDOF, la_gDOF, la_NDOF, la_FDOF) before any other indexing
 R3 one time               all kinematic evaluations inside one export use sol_i.t
 R4 uniform subsampling    Export.__prepare_data subsamples every field with the same stride
"""
from __future__ import annotations

import ast

from ..core import AnalysisError, dotted, norm_src, walk_no_nested
from ..cfg import CFG
from .. import protocol

EXPLANATION = ("CFG must-pass-through for the DataSet/file pairing; inter-procedural (class-local) tracking of global solution "
               "arrays through locals and method parameters down to their first subscript; argument check of kinematic calls.")
NOT_DECIDED = "VTK writer semantics and numerical equality of the written coordinates."
ASSUMPTIONS = ["sol_i fields are the system-level arrays of one time instant (SolutionIterator)"]
BLIND_SPOTS = ["a wrong local index applied after the correct global one"]
VTK = "cardillo/visualization/vtk_export.py"
KIND = {"q": "qDOF", "q_dot": "qDOF", "u": "uDOF", "u_dot": "uDOF", "la_c": "la_cDOF", "la_g": "la_gDOF", "P_g": "la_gDOF", "la_gamma": "la_gammaDOF",
        "P_gamma": "la_gammaDOF", "la_N": "la_NDOF", "P_N": "la_NDOF", "la_F": "la_FDOF", "P_F": "la_FDOF"}


def run(ctx):
    rep = ctx.rep
    rep.rule("C29.R1", "one DataSet and one file per frame from the same file_i; collection written after the loop", 5)
    rep.rule("C29.R2", "global solution arrays are indexed with the matching global DOF set first", 25)
    rep.rule("C29.R3", "kinematic calls of an export use sol_i.t", 20)
    rep.rule("C29.R4", "uniform stride in __prepare_data", 1)
    r1(ctx)
    r2_r3(ctx)
    r4(ctx)


def r1(ctx):
    rep = ctx.rep
    fn = ctx.repo.get(VTK, "Export.export_contr")
    C = f"{VTK}:Export.export_contr"
    cfg = CFG(fn)
    loops = [n for n in walk_no_nested(fn) if isinstance(n, ast.For) and "self.solution" in norm_src(n.iter)]
    if not loops:
        raise AnalysisError("frame loop `for i, sol_i in enumerate(self.solution)` not found")
    loop = loops[0]
    hdr = cfg.node_of(loop)
    tgt = norm_src(loop.target)
    if norm_src(loop.iter) == "enumerate(self.solution)":
        rep.ok("C29.R1", C, f"for {tgt} in enumerate(self.solution): frames in solution order")
    else:
        rep.bad("C29.R1", C, loop.iter, "frames are not visited in solution order (enumerate(self.solution))", f"{VTK}:{loop.lineno}")
    svar = [e.id for e in ast.walk(loop.target) if isinstance(e, ast.Name)][-1]

    def calls(attr):
        return [n for n in cfg.nodes if n.kind == "stmt" and isinstance(n.ast, ast.Expr) and isinstance(n.ast.value, ast.Call)
                and isinstance(n.ast.value.func, ast.Attribute) and n.ast.value.func.attr.endswith(attr)]
    ds, sf, wr = calls("write_time_step_and_name"), calls("SetFileName"), calls("Write")
    for name, nodes in (("DataSet registration", ds), ("SetFileName", sf), ("Write", wr)):
        if len(nodes) != 1:
            rep.bad("C29.R1", C, name, f"{len(nodes)} `{name}` statements in the frame loop (exactly one per frame required)", f"{VTK}:{loop.lineno}")
            return
        n = nodes[0]
        # executed exactly once per iteration: every path header(body) -> header passes n
        p = cfg.find_path([(hdr, "body")], hdr, blocked=lambda m, n=n: m is n)
        if p is not None or not _inside(loop, n.ast):
            rep.bad("C29.R1", C, n.ast, f"`{name}` is not executed on every frame (a frame can be listed without a file or vice versa)", f"{VTK}:{n.lineno}")
        else:
            rep.ok("C29.R1", C, f"{norm_src(n.ast)} on every frame")
    a_ds = [norm_src(a) for a in ds[0].ast.value.args]
    a_sf = [norm_src(a) for a in sf[0].ast.value.args]
    if len(a_ds) == 2 and a_ds[0] == f"{svar}.t" and a_sf and a_ds[1] == a_sf[0]:
        fdef = [n for n in ast.walk(loop) if isinstance(n, ast.Assign) and norm_src(n.targets[0]) == a_sf[0]]
        idx = [e.id for e in ast.walk(loop.target) if isinstance(e, ast.Name)][0]
        if len(fdef) == 1 and ("{" + idx + "}") in norm_src(fdef[0].value):
            rep.ok("C29.R1", C, f"DataSet({a_ds[0]}, {a_ds[1]}) and SetFileName({a_sf[0]}) use the same per-frame file {norm_src(fdef[0].value)}")
        else:
            rep.bad("C29.R1", C, fdef[0] if fdef else a_sf[0], "the per-frame file name does not depend on the frame index (files overwrite each other)", f"{VTK}:{loop.lineno}")
    else:
        rep.bad("C29.R1", C, ds[0].ast, f"the DataSet entry ({', '.join(a_ds)}) and the written file ({', '.join(a_sf)}) do not refer to the same file / frame time", f"{VTK}:{ds[0].lineno}")
    pv = calls("_write_pvd_file")
    if len(pv) == 1 and not _inside(loop, pv[0].ast) and cfg.can_reach([(hdr, "exit")], pv[0]) and not cfg.can_reach([(hdr, "exit")], cfg.exit, blocked=lambda m: m is pv[0]):
        rep.ok("C29.R1", C, "collection file written once after the frame loop")
    else:
        rep.bad("C29.R1", C, pv[0].ast if pv else "self._write_pvd_file(...)", "the collection file is not written exactly once after all frames", f"{VTK}:{fn.lineno}")


def _inside(loop, node):
    p = node
    while p is not None:
        if p is loop:
            return True
        p = getattr(p, "_parent", None)
    return False


class Tracker:
    def __init__(self, ctx, view, C0, rel):
        self.ctx, self.view, self.rep, self.C0, self.rel = ctx, view, ctx.rep, C0, rel
        self.seen = set()
        self._cache = {}

    def _flow(self, fn):
        k = id(fn)
        if k not in self._cache:
            from ..dataflow import ReachingDefs
            cfg = CFG(fn)
            self._cache[k] = (cfg, ReachingDefs(cfg))
        return self._cache[k]

    def follow(self, fn, sn, var, kind, chain, rel=None, is_param=True):
        """`var` holds a global array of `kind` in fn: as a parameter (is_param) or through `var = sol_i.<kind>`."""
        key = (id(fn), var, kind)
        if key in self.seen:
            return
        self.seen.add(key)
        rel = rel or self.rel
        cfg, rd = self._flow(fn)
        from ..core import enclosing_stmt
        # definition nodes that put a GLOBAL array into a name
        gdefs = set()
        if is_param:
            gdefs.add((cfg.entry.id, var))
        changed = True
        while changed:
            changed = False
            for node in cfg.nodes:
                if node.kind != "stmt" or not isinstance(node.ast, ast.Assign) or len(node.ast.targets) != 1 or not isinstance(node.ast.targets[0], ast.Name):
                    continue
                tgt = node.ast.targets[0].id
                v = node.ast.value
                is_g = False
                if isinstance(v, ast.Attribute) and isinstance(v.value, ast.Name) and v.attr == kind and not is_param and tgt == var and norm_src(v).endswith("." + kind):
                    is_g = True
                elif isinstance(v, ast.Name) and any((d.id, v.id) in gdefs for d in rd.defs_reaching(node, v.id)):
                    is_g = True
                if is_g and (node.id, tgt) not in gdefs:
                    gdefs.add((node.id, tgt))
                    changed = True

        def holds_global(node, name):
            return any((d.id, name) in gdefs for d in rd.defs_reaching(node, name))

        want = f"{sn}.{KIND[kind]}"
        for n in walk_no_nested(fn):
            st = enclosing_stmt(n)
            node = cfg.node_of(st) if st is not None else None
            if node is None:
                # statement headers (if/for tests) are separate CFG nodes keyed by their owner
                continue
            if isinstance(n, ast.Subscript) and isinstance(n.value, ast.Name) and holds_global(node, n.value.id):
                self.judge(n, want, kind, chain, fn, rel)
            if isinstance(n, ast.Call) and isinstance(n.func, ast.Attribute) and isinstance(n.func.value, ast.Name) and n.func.value.id == sn:
                glob_args = {a.id for a in list(n.args) + [k.value for k in n.keywords] if isinstance(a, ast.Name) and holds_global(node, a.id)}
                if glob_args:
                    self.through_call(n, glob_args, kind, chain + [f"{getattr(fn, 'name', '<lambda>')}"])

    def judge(self, sub, want, kind, chain, fn, rel=None):
        rel = rel or self.rel
        idx = norm_src(sub.slice)
        C = f"{self.C0}"
        path = " -> ".join(chain + [getattr(fn, "name", "<lambda>")])
        if idx == want or idx.startswith(want + "["):
            self.rep.ok("C29.R2", C, f"{path}: {norm_src(sub)}")
        elif "DOF" in idx and idx.split(".")[-1].split("[")[0] in KIND.values():
            self.rep.bad("C29.R2", C, sub, f"{path}: the global `{kind}` array is indexed with `{idx}` (index set of another kind) instead of {want}",
                         f"{rel}:{sub.lineno}")
        else:
            self.rep.bad("C29.R2", C, sub, f"{path}: the global solution array `{kind}` is indexed with the local table `{idx}` before the contribution's "
                         f"global index set {want} was applied: the data of another contribution is read unless this one owns the first coordinates",
                         f"{rel}:{sub.lineno}")

    def through_call(self, call, aliases, kind, chain):
        m = call.func.attr
        hits = []
        for i, a in enumerate(call.args):
            if isinstance(a, ast.Name) and a.id in aliases:
                hits.append(("pos", i))
        for k in call.keywords:
            if isinstance(k.value, ast.Name) and k.value.id in aliases and k.arg:
                hits.append(("kw", k.arg))
        if not hits:
            return
        # every definition of m reachable for any concrete class (all variants)
        bodies = []
        model = self.ctx.model
        classes = [self.view.ci] + model.subclasses(self.view.ci)  # mixins (RodExportBase) dispatch into their subclasses
        for cls in classes:
            for variant in model.variants(cls):
                for c in model.mro(cls, variant):
                    if m in c.methods and c.methods[m] not in [b for b, _ in bodies]:
                        bodies.append((c.methods[m], c.rel))
        for fn2, rel2 in bodies:
            params = [a.arg for a in fn2.args.args]
            sn2 = params[0] if params else "self"
            for how, which in hits:
                if how == "pos":
                    if which + 1 < len(params):
                        self.follow(fn2, sn2, params[which + 1], kind, chain, rel2)
                else:
                    if which in params:
                        self.follow(fn2, sn2, which, kind, chain, rel2)


def r2_r3(ctx):
    rep = ctx.rep
    model = ctx.model
    n_exp = 0
    done = set()
    for ci in model.all_classes():
        if "export" not in ci.methods or ci.rel.startswith(("cardillo/visualization/", "cardillo/system.py")):
            continue
        fn = ci.methods["export"]
        params = [a.arg for a in fn.args.args]
        if len(params) < 2:
            continue
        sn, sol = params[0], params[1]
        C = f"{ci.rel}:{ci.qual}.export"
        if C in done:
            continue
        done.add(C)
        n_exp += 1
        view = protocol.ClassView(ctx, ci, model.variants(ci)[0])
        tr = Tracker(ctx, view, C, ci.rel)
        # occurrences of sol_i.X
        n_use = 0
        for n in walk_no_nested(fn):
            if isinstance(n, ast.Attribute) and isinstance(n.value, ast.Name) and n.value.id == sol and n.attr in KIND:
                par = getattr(n, "_parent", None)
                n_use += 1
                if isinstance(par, ast.Subscript) and par.value is n:
                    idx = norm_src(par.slice)
                    want = f"{sn}.{KIND[n.attr]}"
                    if idx == want:
                        rep.ok("C29.R2", C, norm_src(par))
                    else:
                        rep.bad("C29.R2", C, par, f"global `{n.attr}` array is indexed with `{idx}` instead of {want}", f"{ci.rel}:{par.lineno}")
                elif isinstance(par, ast.Assign) and par.value is n and isinstance(par.targets[0], ast.Name):
                    tr.follow(fn, sn, par.targets[0].id, n.attr, [], ci.rel, is_param=False)
                elif isinstance(par, (ast.Call, ast.keyword)):
                    # passed on directly
                    call = par if isinstance(par, ast.Call) else getattr(par, "_parent", None)
                    if isinstance(call, ast.Call) and isinstance(call.func, ast.Attribute) and isinstance(call.func.value, ast.Name) and call.func.value.id == sn:
                        tmp = f"__{n.attr}"
                        rep.note(f"C29.R2: {C}: sol_i.{n.attr} passed directly to self.{call.func.attr} (not followed)")
                    else:
                        rep.note(f"C29.R2: {C}: sol_i.{n.attr} handed to an external call: {norm_src(call)[:60] if call is not None else ''}")
                else:
                    rep.note(f"C29.R2: {C}: unclassified use of sol_i.{n.attr}")
        if n_use == 0:
            rep.ok("C29.R2", C, "export uses no solution arrays besides time", trivial=True)
        # R3: kinematic calls use sol_i.t
        for n in walk_no_nested(fn):
            if isinstance(n, ast.Call) and isinstance(n.func, ast.Attribute) and n.args:
                d = dotted(n.func.value) or ""
                if d == sn or d.startswith(sn + "."):
                    a0 = n.args[0]
                    if isinstance(a0, ast.Attribute) and isinstance(a0.value, ast.Name) and a0.value.id == sol:
                        if a0.attr == "t":
                            rep.ok("C29.R3", C, f"{norm_src(n.func)}({sol}.t, ...)")
                        elif n.func.attr not in ("export",):
                            pass
                    elif isinstance(a0, ast.Name) and a0.id == sol:
                        continue  # delegation export(sol_i)
                    elif any(isinstance(x, ast.Attribute) and isinstance(x.value, ast.Name) and x.value.id == sol for a in n.args[1:] for x in ast.walk(a)):
                        # a kinematic call that takes solution data but not sol_i.t as time
                        first = norm_src(a0)
                        tdefs = [m for m in walk_no_nested(fn) if isinstance(m, ast.Assign) and norm_src(m.targets[0]) == first and norm_src(m.value) == f"{sol}.t"]
                        if tdefs:
                            rep.ok("C29.R3", C, f"{norm_src(n.func)}({first} = {sol}.t, ...)")
                        elif n.func.attr in ("frames", "centerline", "surface", "surface_normal", "nodes", "nodalFrames"):
                            continue  # time-independent geometry helpers of rods (take q only)
                        else:
                            rep.bad("C29.R3", C, n, f"`{norm_src(n.func)}` is evaluated with time `{first}` instead of {sol}.t of the exported frame", f"{ci.rel}:{n.lineno}")
    if n_exp < 8:
        raise AnalysisError(f"only {n_exp} export methods found")


def r4(ctx):
    rep = ctx.rep
    fn = ctx.repo.get(VTK, "Export.__prepare_data")
    C = f"{VTK}:Export.__prepare_data"
    subs = [n for n in ast.walk(fn) if isinstance(n, ast.Subscript) and isinstance(n.slice, ast.Slice) and n.slice.step is not None]
    loops = [n for n in ast.walk(fn) if isinstance(n, ast.For) and norm_src(n.iter) == "keys"]
    if len(subs) == 1 and loops and _inside(loops[0], subs[0]) and norm_src(subs[0].slice.step) == "frac" and subs[0].slice.lower is None:
        rep.ok("C29.R4", C, f"every key subsampled by {norm_src(subs[0])}")
    else:
        rep.bad("C29.R4", C, subs[0] if subs else "[::frac]", "fields are not all subsampled with the same stride from index 0 (frames of different fields would disagree)", f"{VTK}:{fn.lineno}")


RB = "cardillo/discrete/rigid_body.py"
RE = "cardillo/rods/_base_export.py"
MUTANTS = [
    dict(id="c29-m1", canary=True, what="rod export hands the global q to eval_stresses (original defect)", file=RE,
         old="                        t, q[self.qDOF], la_c, la_g, xis[j], el=None", new="                        t, q, la_c, la_g, xis[j], el=None", expect="C29.R2"),
    dict(id="c29-m1b", what="rod export hands the global la_c to eval_stresses", file=RE,
         old="                la_c = sol_i.la_c[self.la_cDOF] if hasattr(self, \"la_cDOF\") else None", new="                la_c = sol_i.la_c", expect="C29.R2"),
    dict(id="c29-m2", canary=True, what="RigidBody.export indexes velocities with qDOF", file=RB,
         old="        vel = self.v_P(sol_i.t, sol_i.q[self.qDOF], sol_i.u[self.uDOF])", new="        vel = self.v_P(sol_i.t, sol_i.q[self.qDOF], sol_i.u[self.qDOF])", expect="C29.R2"),
    dict(id="c29-m3", what="DataSet registered only for even frames", file=VTK,
         old="            self.__write_time_step_and_name(sol_i.t, file_i)\n", new="            if i % 2 == 0:\n                self.__write_time_step_and_name(sol_i.t, file_i)\n", expect="C29.R1"),
    dict(id="c29-m4", what="file name independent of the frame index", file=VTK,
         old="            file_i = self.path / f\"{file_name}_{i}.vtu\"", new="            file_i = self.path / f\"{file_name}.vtu\"", expect="C29.R1"),
    dict(id="c29-m5", what="pvd written inside the loop", file=VTK,
         old="            writer.Write()\n\n        self._write_pvd_file(self.path / f\"{file_name}.pvd\")", new="            writer.Write()\n\n            self._write_pvd_file(self.path / f\"{file_name}.pvd\")", expect="C29.R1"),
    dict(id="c29-m6", what="time stamp taken from the subsampled index instead of sol_i.t", file=VTK,
         old="            self.__write_time_step_and_name(sol_i.t, file_i)", new="            self.__write_time_step_and_name(float(i), file_i)", expect="C29.R1"),
    dict(id="c29-m7", what="Sphere2Plane.export evaluates the plane at t = 0", file="cardillo/contacts/sphere2plane.py",
         old="        r_OP = self.r_OP(sol_i.t, sol_i.q[self.qDOF])\n        n = self.n(sol_i.t)", new="        r_OP = self.r_OP(0.0, sol_i.q[self.qDOF])\n        n = self.n(sol_i.t)", expect="C29.R3"),
    dict(id="c29-m8", what="time field subsampled with an offset", file=VTK,
         old="                new_solution[key] = solution.__getattribute__(key)[::frac]", new="                new_solution[key] = solution.__getattribute__(key)[1::frac]", expect="C29.R4"),
]
MUTANTS = [m for m in MUTANTS if not m.get("optional")]
NEUTRAL = []
